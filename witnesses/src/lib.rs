//! Compile-fail witnesses (rule `CF`): each `compile_fail,Exxxx` doctest is paired with a `no_run` twin that differs only
//! in the offending line, so a witness whose paths are merely wrong cannot pass by failing to compile for another reason.
//! Run with `cargo +nightly test --doc --offline` (the stable toolchain ignores the error code).

/// `Secret` has no `Debug` (C32).
/// ```compile_fail,E0277
/// let s = wormhole_circuit::sensitive::Secret::try_from([0u8; 32]).unwrap();
/// let _ = format!("{:?}", s);
/// ```
/// twin:
/// ```no_run
/// let s = wormhole_circuit::sensitive::Secret::try_from([0u8; 32]).unwrap();
/// let _ = format!("{:?}", s.as_bytes().len());
/// ```
pub struct SecretNoDebug;

/// `SensitiveFelts` has no `Debug` (C32).
/// ```compile_fail,E0277
/// let f = wormhole_circuit::sensitive::SensitiveFelts::new(Vec::new());
/// let _ = format!("{:?}", f);
/// ```
/// twin:
/// ```no_run
/// let f = wormhole_circuit::sensitive::SensitiveFelts::new(Vec::new());
/// let _ = format!("{:?}", f.as_slice().len());
/// ```
pub struct SensitiveFeltsNoDebug;

/// `Secret` cannot be cloned (C33).
/// ```compile_fail,E0599
/// let s = wormhole_circuit::sensitive::Secret::try_from([0u8; 32]).unwrap();
/// let _ = s.clone();
/// ```
/// twin:
/// ```no_run
/// let s = wormhole_circuit::sensitive::Secret::try_from([0u8; 32]).unwrap();
/// let _ = s.expose_digest();
/// ```
pub struct SecretNoClone;

/// `Nullifier` cannot be cloned (C33).
/// ```compile_fail,E0599
/// let n = wormhole_circuit::nullifier::Nullifier::from_preimage(Default::default(), 1);
/// let _ = n.clone();
/// ```
/// twin:
/// ```no_run
/// let n = wormhole_circuit::nullifier::Nullifier::from_preimage(Default::default(), 1);
/// let _ = n.to_bytes();
/// ```
pub struct NullifierNoClone;

/// `TransferProofJson` is not `Deserialize`: the capped `from_json_str` is the only way in (C35).
/// ```compile_fail,E0277
/// let _ = serde_json::from_str::<zk_circuits_common::circuit::TransferProofJson>("{}");
/// ```
/// twin:
/// ```no_run
/// let _ = zk_circuits_common::circuit::TransferProofJson::from_json_str("{}");
/// ```
pub struct TransferProofJsonNoDeserialize;

/// `hash_bytes_compact` is crate-private (C26).
/// ```compile_fail,E0603
/// let _ = zk_circuits_common::serialization::hash_bytes_compact(&[0u8; 8]);
/// ```
/// twin:
/// ```no_run
/// let _ = zk_circuits_common::zk_merkle::hash_node(&[[0u8; 32]; 4]);
/// ```
pub struct HashBytesCompactPrivate;

/// The witness filler is not nameable from outside the aggregator crate (C14).
/// ```compile_fail,E0603
/// use wormhole_aggregator::private_batch::prover::witness::fill_private_batch_witness;
/// ```
/// twin:
/// ```no_run
/// use wormhole_aggregator::private_batch::prover::PrivateBatchProver;
/// ```
pub struct WitnessFillerPrivate;
