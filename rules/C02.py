"""C02 — nullifier bound to secret and transfer count (DESIGN.md §5 C02)."""
from . import terms as T
from . import pat as P
from . import circ, leaf, lc
from .pat import V, K, Cb


def salted_preimage(ck, view, pre, salt_value, tail_roles, rule_key, loc, effects=None):
    """ORDER: [constants of string_to_felts(salt) (one per element, in a loop over it), then each role in tail_roles, whole]"""
    seq = leaf.sequence_of(view, pre, effects)
    ok = len(seq) == 1 + len(tail_roles)
    detail = [(k, T.show(t)[:160]) for k, t, _ in seq]
    if ok:
        k0, t0, e0 = seq[0]
        # head: constant(x) for every x of string_to_felts(SALT), in order (a push loop over it, or map(..).collect())
        ef = leaf.each_form(view, k0, t0, e0)
        head_ok = False
        if ef is not None:
            salt_seq, body, var = ef[1], ef[2], ef[3]
            a = P.cb_args(body, "cb.constant")
            head_ok = (a is not None and P.norm(a[0]) == ("idx", lc.canon(salt_seq), var) and P.call_name(salt_seq) is not None
                       and P.call_name(salt_seq).endswith("string_to_felts")
                       and bool(salt_seq[4]) and salt_seq[4][0] == ("cs", salt_value))
        ok = ok and head_ok
        for (k, t, e), role in zip(seq[1:], tail_roles):
            want = view.role(role)
            tt = P.norm(t)
            if isinstance(tt, tuple) and tt and tt[0] == "fld" and tt[2] == "elements":
                tt = tt[1]
            ok = ok and k == "all" and tt == want
    return ck.require(ok, "ORDER", rule_key, "hash preimage is [felts of salt %r] ++ %s, in that order, nothing else appended" % (salt_value, " ++ ".join(tail_roles)), loc, detail)


def native_preimage(ck, fn_rx, salt_const, tail, key):
    """AGREE: the native twin appends string_to_felts(SALT), then the secret digest, then (optionally) the count, and double-hashes"""
    fr = circ.frame_of(ck, fn_rx, leaf.CIRCUIT_CRATE)
    effs = fr.effects()
    hashes = [e for e in effs if e.raw.get("name") == "hash_no_pad"]
    ok = False
    detail = None
    for h in hashes:
        arg = P.norm(h.args[0])
        # outer = hash_no_pad(hash_no_pad(pre).elements)
        if isinstance(arg, tuple) and arg and arg[0] == "fld" and arg[2] == "elements":
            inner = arg[1]
            if P.call_name(inner) and P.call_name(inner).endswith("hash_no_pad"):
                pre = P.norm(inner[4][0])
                # through SensitiveFelts::new(vec)
                if P.call_name(pre) and P.call_name(pre).endswith("SensitiveFelts::new"):
                    pre = P.norm(pre[4][0])
                seq = T.contents(effs, pre)
                detail = [(k, T.show(t)[:120]) for k, t, _ in seq]
                names = []
                for k, t, _ in seq:
                    n = P.call_name(t)
                    if n and n.endswith("string_to_felts") and t[4][0] == ("cs", salt_const):
                        names.append("salt")
                    elif n and n.endswith("bytes_to_digest"):
                        names.append("secret")
                    elif n and n.endswith("u64_to_felts"):
                        names.append("count")
                    else:
                        names.append("?" + T.show(t)[:40])
                ok = names == tail
                break
    return ck.require(ok, "AGREE", key, "native twin hashes H(H(%s)) with the same salt constant and order as the circuit" % " ++ ".join(tail),
                      "%s:%s" % (fr.body.file, fr.body.line), detail)


def run(ck):
    ck.explanation = ("C02: shared-wire connects, gated nullifier equation and hash preimage order in the expanded leaf constructor (default build and the `profile` build's "
                      "`new_profiled` twin); native/circuit preimage agreement")
    ck.not_decided = ["Poseidon2 collision resistance and plonky2 hash gadget semantics (trusted base)"]
    check(ck, leaf.LeafView(ck))
    # the `profile` feature swaps in a second constructor (`new_profiled`): the same obligations hold for the circuit it builds
    from . import engine
    prog2 = ck.extract("profile")
    check(engine.Tagged(ck, "profile:", prog2), leaf.LeafView(ck, prog2, entry=r"WormholeCircuit::new_profiled$"))


def check(ck, view):
    nsalt = ck.prog.const_str("nullifier::NULLIFIER_SALT")
    usalt = ck.prog.const_str("unspendable_account::UNSPENDABLE_SALT")
    ck.require(nsalt != usalt and len(nsalt) == 8 and len(usalt) == 8, "ITEM", "salts-distinct", "nullifier and address salts are distinct 8-byte constants (%r, %r)" % (nsalt, usalt))

    # 2./3. element-wise connects over the zip of both arrays
    def zipped_connect(role_a, role_b, key):
        ra, rb = view.role(role_a), view.role(role_b)
        for e in view.effects:
            if e.name != "cb.connect":
                continue
            x, y = [P.norm(t) for t in circ.cb_operands(e)[:2]]
            bx, ix, by, iy, nest = leaf.split_pair(e, x, y)
            strip = lambda t: t[1] if (isinstance(t, tuple) and t[0] == "fld" and t[2] == "elements") else t
            if ix is not None and iy is not None and {strip(bx), strip(by)} == {ra, rb}:
                # every i: the loop streams both arrays whole (zip), or is a range over their common fixed length
                la, lb = lc.known_len(bx), lc.known_len(by)
                whole = ix == iy and lc.is_var(ix, 0) and nest.has_var(ix) and (
                    (la is not None and la == lb and ix[2] == la)
                    or ix[2] in (("minlen", P.norm(bx), P.norm(by)), ("minlen", P.norm(by), P.norm(bx))))
                ck.require(whole, "TERM", key, "connect(%s[i], %s[i]) for every i (one loop over both arrays, whole)" % (role_a, role_b), e.loc,
                           (T.show(ix), T.show(iy), [T.show(l)[:120] for l in nest.loops]))
                circ.require_uncond(ck, e, "UNCOND", key + "/uncond", "the %s connect" % key)
                return True
        return ck.fail("TERM", key, "no element-wise connect between %s and %s" % (role_a, role_b))

    # 1. one secret (connect_hashes is four element-wise connects)
    zipped_connect("nullifier.secret", "unspendable_account.secret", "secret-shared")
    zipped_connect("nullifier.transfer_count", "zk_merkle_proof.leaf.transfer_count", "count-shared")
    zipped_connect("unspendable_account.account_id", "zk_merkle_proof.leaf.to_account.elements", "address-is-recipient")

    # 4. gated nullifier equation
    flag, fe = leaf.flag_definition(view)
    nh = view.role("nullifier.hash")
    found = False
    for g in leaf.gated_equalities(view):
        a, ia, b, ib, nest = leaf.split_pair(g["e"], g["A"], g["B"])
        strip = lambda t: t[1] if (isinstance(t, tuple) and t[0] == "fld" and t[2] == "elements") else t
        for (pub, ip, comp, ic) in ((a, ia, b, ib), (b, ib, a, ia)):
            if strip(pub) == nh:
                found = True
                e = g["e"]
                pre = leaf.double_hash_preimage(comp)
                ck.require(pre is not None, "TERM", "nullifier-eq/double-hash", "public nullifier limb is compared with H(H(preimage)) limb", e.loc, T.show(comp)[:300])
                ck.require(leaf.all_limbs(nest, ip, ic), "TERM", "nullifier-eq/all-limbs", "the same limb index i in 0..4 on both sides", e.loc, (T.show(ip), T.show(ic)))
                ck.require(flag is not None and P.norm(g["G"]) == flag, "PROV", "nullifier-eq/flag", "the gate is the in-circuit is_not_dummy term (not a witness)", e.loc, T.show(g["G"])[:200])
                circ.require_uncond(ck, e, "UNCOND", "nullifier-eq/uncond", "the nullifier equation")
                if pre is not None:
                    salted_preimage(ck, view, pre, nsalt, ["nullifier.secret", "nullifier.transfer_count"], "nullifier-eq/preimage", e.loc)
    if not found:
        ck.fail("TERM", "nullifier-eq/present", "no gated equality on the public nullifier hash found")

    # 5. address = H(H(salt || secret)), ungated
    acc = view.role("unspendable_account.account_id")
    found = False
    for e in view.effects:
        if e.name != "cb.connect":
            continue
        x, y = [P.norm(t) for t in circ.cb_operands(e)[:2]]
        for (p, q) in ((x, y), (y, x)):
            bp, ip, bq, iq, nest = leaf.split_pair(e, p, q)
            strip = lambda t: t[1] if (isinstance(t, tuple) and t[0] == "fld" and t[2] == "elements") else t
            pre = leaf.double_hash_preimage(bp)
            if strip(bq) == acc and pre is not None:
                found = True
                ck.require(leaf.all_limbs(nest, ip, iq), "TERM", "address-eq/all-limbs", "connect(H(H(pre))[i], account_id[i]) for i in 0..4", e.loc)
                circ.require_uncond(ck, e, "UNCOND", "address-eq/uncond", "the address equation")
                salted_preimage(ck, view, pre, usalt, ["unspendable_account.secret"], "address-eq/preimage", e.loc)
    if not found:
        ck.fail("TERM", "address-eq/present", "no connect between H(H(salt||secret)) and unspendable_account.account_id")

    # 6. native twins
    native_preimage(ck, r"nullifier::Nullifier::from_preimage$", nsalt, ["salt", "secret", "count"], "native/nullifier")
    native_preimage(ck, r"unspendable_account::UnspendableAccount::from_secret$", usalt, ["salt", "secret"], "native/address")
