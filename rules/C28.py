"""C28 — the circuit-config policy is enforced exactly and before any build (DESIGN.md §5 C28)."""
from . import limits


def run(ck):
    ck.explanation = ("C28: comparison table of validate_circuit_config (operand field paths, operators, policy constants by value and by definition, Err edges, exactly 8 rules), "
                      "log2_ceil evaluated on its term, every production CircuitBuilder::new preceded by the validation of the same config as the first call, "
                      "and the profiling CLI's flag policy compared with it rule by rule (same constant items, effective-value rule), validate before build in main")
    ck.not_decided = ["that plonky2 itself never panics on an accepted config"]
    ob = limits.analyse28(ck)
    ob.emit(ck, "C28")
    ck.floor("CMP", "limits/obligations", len(ob.items), 18, "C28 obligations evaluated")
