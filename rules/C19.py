"""C19 — pool admission order (DESIGN.md §5 C19)."""
from . import pool


def run(ck):
    ck.explanation = 'C19: guard table of ProofPool::push (comparison operands by field path, failing edges returning Err), dominance chain capacity < parse < dummy-key < budget < increment < verify < bucket-cap < duplicate < first mutation, no Err reachable after a mutation, writes on error paths limited to the two budget fields'
    ck.not_decided = ["exactness of 'admitted iff' as a semantic statement over all pool states (the guards' operands and order are decided, not their arithmetic)"]
    ob = pool.analyse(ck)
    ob.emit(ck, "C19")
    ck.floor("INV", "pool/obligations", len([1 for it in ob.items if "C19" in it[0]]), 25, "C19 obligations evaluated")
