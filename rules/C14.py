"""C14 — batch provers admit exactly the batches the circuit can prove (DESIGN.md §5 C14)."""
from . import provers


def run(ck):
    ck.explanation = """C14: class-by-class agreement between the circuit's constraint inventory (C07/C13) and the commit-time preflights (rejection sites keyed by the layout constants their conditions read, dummy-skip scoping), reverse inclusion (no undocumented rejection), ordering verify < preflight < padding < shuffle < fill, every proof verified, preflight before building the public-batch prover, witness fillers not nameable outside the crate"""
    ck.not_decided = ["""that a committed witness actually proves (needs witness generation)"""]
    ob = provers.analyse(ck)
    ob.emit(ck, "C14")
    ck.floor("INV", "provers/obligations", len([1 for it in ob.items if "C14" in it[0]]), 18, "C14 obligations evaluated")
    if ck.tier == "thorough":
        from . import witnesses
        witnesses.run(ck, ["witness_filler_private"])
