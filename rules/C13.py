"""C13 — public-batch acceptance is exactly metadata consistency among real inners (DESIGN.md §5 C13)."""
from . import pubb


def run(ck):
    ck.explanation = "C13: inventory of the public-batch wrapper's constraint sites: exactly {asset, fee, block} x `is_dummy_i OR equal-to-reference`, per inner; unexpected sites are reported"
    ck.not_decided = ["the semantic iff given gadget semantics (trusted base)"]
    ob, v = pubb.analyse(ck)
    ob.emit(ck, "C13")
