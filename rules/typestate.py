"""E5 — typestate dataflow over filesystem operations for C23 (artifact publication is atomic under failures and crashes).

Abstract state: what is at the output path, at the `.old` sibling and at the staging directory, plus the values of the
Result / bool locals the code branches on. Every filesystem call site of `commit_staging_dir_impl` and
`generate_all_circuit_binaries` is classified by the provenance of its path operands; both outcomes of every fallible
operation are explored; `remove_dir_all` may also stop part-way. The invariant is checked at EVERY reachable
(program point, state) pair — i.e. at every crash point."""
from . import cfg
from . import terms as T
from . import pat as P
from .facts import AnchorMissing

CB = "qp_wormhole_circuit_builder"


class St:
    __slots__ = ("out", "old", "stg", "out0", "vals")

    def __init__(self, out, old, stg, out0, vals=()):
        self.out, self.old, self.stg, self.out0, self.vals = out, old, stg, out0, tuple(sorted(vals))

    def key(self):
        return (self.out, self.old, self.stg, self.out0, self.vals)

    def with_(self, **kw):
        d = {"out": self.out, "old": self.old, "stg": self.stg, "out0": self.out0, "vals": dict(self.vals)}
        for k, v in kw.items():
            if k == "set":
                for l, val in v.items():
                    d["vals"][l] = val
            else:
                d[k] = v
        return St(d["out"], d["old"], d["stg"], d["out0"], d["vals"].items())

    def val(self, l):
        return dict(self.vals).get(l)

    def show(self):
        return "output=%s old=%s staging=%s (initially output=%s)" % (self.out, self.old, self.stg, self.out0)


def invariant(st):
    """None if fine, else the violated clause"""
    if st.out in ("partial", "mix"):
        return "the output path holds a partial / mixed artifact set"
    if st.out0 == "prev" and st.out != "prev":
        if not (st.out == "new" or (st.old == "prev" and st.stg == "new")):
            return "the previous set is no longer at the output path, the new set is not live, and the two copies do not both survive (old=%s, staging=%s)" % (st.old, st.stg)
    return None


class Machine:
    def __init__(self, ck, body, classify, summaries=None):
        self.ck = ck
        self.body = body
        self.ev = T.Evaluator(ck.prog)
        self.fr = self.ev.frame(body)
        self.classify = classify
        self.summaries = summaries or {}
        self.succ = cfg.succs(body)
        self.states = set()
        self.transitions = 0
        self.violations = []
        self.returns = []   # (state, 'ok'|'err'|'unknown')
        self.ops = {}       # bb -> op description
        self.zd = None

    def path_role(self, t):
        raise NotImplementedError

    def run(self, inits):
        from . import guards
        self.zd = guards._zero_defs(self.body)
        work = [(0, s, "unset") for s in inits]
        seen = set()
        while work:
            bb, st, ret = work.pop()
            k = (bb, st.key(), ret)
            if k in seen:
                continue
            seen.add(k)
            self.states.add((bb, st.key()))
            self._check(st, bb, "entry of block")
            blk = self.body.blocks[bb]
            # statements: propagate tracked values through copies / discriminants
            vals = dict(st.vals)
            for s in blk["s"]:
                if "d" not in s or s["d"]["p"]:
                    continue
                r = s["r"]
                dl = s["d"]["l"]
                if r["k"] == "use":
                    pl = r["a"].get("c") or r["a"].get("m")
                    if pl and not pl["p"] and pl["l"] in vals:
                        vals[dl] = vals[pl["l"]]
                    elif pl is None and "k" in r["a"] and "v" in r["a"]["k"]:
                        vals[dl] = ("bool", int(r["a"]["k"]["v"]))
                    else:
                        vals.pop(dl, None)
                elif r["k"] == "discr":
                    pl = r["p"]
                    if not pl["p"] and pl["l"] in vals and vals[pl["l"]][0] == "res":
                        vals[dl] = ("discr", 0 if vals[pl["l"]][1] == "ok" else 1)
                    else:
                        vals.pop(dl, None)
                elif r["k"] == "agg" and r["ak"].get("t") == "adt" and r["ak"]["adt"].endswith("result::Result") and r["ak"].get("variant") in ("Ok", "Err"):
                    vals[dl] = ("res", "ok" if r["ak"]["variant"] == "Ok" else "err")
                elif r["k"] == "un" and r["op"] == "Not":
                    pl = r["a"].get("c") or r["a"].get("m")
                    if pl and not pl["p"] and pl["l"] in vals and vals[pl["l"]][0] == "bool":
                        vals[dl] = ("bool", 1 - vals[pl["l"]][1])
                    else:
                        vals.pop(dl, None)
                else:
                    vals.pop(dl, None)
            for k_ in self.zd.get(bb, []):
                ret = k_
            st = St(st.out, st.old, st.stg, st.out0, vals.items())
            t = blk["t"]
            kind = t["k"]
            if kind == "return":
                self.returns.append((st, ret))
                continue
            if kind == "switch":
                d = t["d"]
                pl = d.get("c") or d.get("m")
                v = vals.get(pl["l"]) if pl and not pl["p"] else None
                if v is not None and v[0] in ("bool", "discr"):
                    tgt = t["else"]
                    for val, b in t["arms"]:
                        if int(val) == v[1]:
                            tgt = b
                    nxt = [tgt]
                else:
                    nxt = self.succ[bb]
                for n in nxt:
                    if self.body.blocks[n]["t"]["k"] != "unreachable":
                        self.transitions += 1
                        work.append((n, st, ret))
                continue
            if kind == "call":
                outs = self.classify(self, bb, t, st)
                dest = t["dest"]["l"] if not t["dest"]["p"] else None
                # `?` plumbing keeps what is known about a Result: Try::branch(r) is Continue iff r is Ok (same discriminant numbering),
                # FromResidual::from_residual(..) is an Err
                if outs == [(st, None)] and t.get("name") == "branch" and "try_trait" in (t.get("f") or "") and t["args"]:
                    apl = t["args"][0].get("c") or t["args"][0].get("m")
                    if apl and not apl["p"] and vals.get(apl["l"], (None,))[0] == "res":
                        outs = [(st, vals[apl["l"]])]
                elif outs == [(st, None)] and t.get("name") == "from_residual" and "try_trait" in (t.get("f") or ""):
                    outs = [(st, ("res", "err"))]
                if t["t"] is None:
                    continue
                for st2, resval in outs:
                    v2 = dict(st2.vals)
                    if dest is not None:
                        if resval is None:
                            v2.pop(dest, None)
                        else:
                            v2[dest] = resval
                        if dest == 0 and resval is not None and resval[0] == "res":
                            pass
                    st3 = St(st2.out, st2.old, st2.stg, st2.out0, v2.items())
                    r2 = ret
                    if dest == 0:
                        r2 = "ok" if (resval and resval == ("res", "ok")) else ("err" if resval == ("res", "err") else "ok?")
                    self._check(st3, bb, "after " + self.ops.get(bb, "call"))
                    self.transitions += 1
                    work.append((t["t"], st3, r2))
                continue
            for n in self.succ[bb]:
                self.transitions += 1
                work.append((n, st, ret))
        return self

    def _check(self, st, bb, where):
        v = invariant(st)
        if v:
            self.violations.append({"state": st.show(), "clause": v, "where": "%s (%s)" % (self.body.loc(bb), where), "bb": bb})


def role_of_path(fr, op, roles):
    """classify a path operand by provenance: roles maps param index -> role; `.old` sibling built with with_file_name"""
    t = fr.operand_term(op)
    s = T.show(t, maxdepth=8)
    for s_ in T.walk(t):
        if s_ and s_[0] == "call" and len(s_) == 5 and s_[2].endswith("with_file_name"):
            base = P.norm(s_[4][0])
            if isinstance(base, tuple) and base[0] == "param" and roles.get(base[2]) == "staging":
                return "old"
    t = P.norm(t)
    if isinstance(t, tuple) and t and t[0] == "param":
        return roles.get(t[2])
    # locals derived from a param through as_ref/join-free transparency
    pp = P.param_path(t)
    return None


def rm_outcomes(st, role):
    """remove_dir_all(role): complete, partial, or no effect"""
    cur = getattr(st, {"staging": "stg", "old": "old", "output": "out"}[role])
    fld = {"staging": "stg", "old": "old", "output": "out"}[role]
    if cur == "absent":
        return [(st, ("res", "err"))]
    return [(st.with_(**{fld: "absent"}), ("res", "ok")), (st.with_(**{fld: "partial"}), ("res", "err")), (st, ("res", "err"))]


def classify_impl(m, bb, t, st):
    fr = m.fr
    name = t.get("name")
    f = t.get("f") or ""
    roles = {1: "staging", 2: "output"}
    if name in ("call", "call_mut", "call_once") and t["args"] and P.norm(fr.operand_term(t["args"][0])) == ("param", m.body.path, 3, m.body.local_name(3)):
        tup = fr.operand_term(t["args"][1])
        src = dst = None
        # the tuple operand is built from two path operands: find the aggregate
        pl = t["args"][1].get("m") or t["args"][1].get("c")
        for blk in m.body.blocks:
            for s in blk["s"]:
                if "d" in s and s["d"]["l"] == pl["l"] and not s["d"]["p"] and s["r"]["k"] == "agg":
                    src = role_of_path(fr, s["r"]["ops"][0], roles)
                    dst = role_of_path(fr, s["r"]["ops"][1], roles)
        m.ops[bb] = "rename(%s -> %s)" % (src, dst)
        if src is None or dst is None:
            m.violations.append({"state": st.show(), "clause": "a rename whose operands cannot be classified", "where": m.body.loc(bb), "bb": bb})
            return [(st, None)]
        fld = {"staging": "stg", "old": "old", "output": "out"}
        sv, dv = getattr(st, fld[src]), getattr(st, fld[dst])
        outs = [(st, ("res", "err"))]
        if sv != "absent":
            moved = sv
            if dst == "output" and sv == "partial":
                moved = "mix"
            if dv in ("absent",) or dst != "output" or dv in ("absent",):
                outs.append((st.with_(**{fld[src]: "absent", fld[dst]: moved}), ("res", "ok")))
            else:
                # renaming a directory onto an existing non-empty directory / file fails
                pass
        return outs
    if f == "std::fs::remove_dir_all":
        role = role_of_path(fr, t["args"][0], roles)
        m.ops[bb] = "remove_dir_all(%s)" % role
        if role == "output" or role is None:
            m.violations.append({"state": st.show(), "clause": "remove_dir_all on the output path (or an unclassified path): a crash leaves a partial set live", "where": m.body.loc(bb), "bb": bb})
            return [(st, None)]
        return rm_outcomes(st, role)
    if name == "exists" and "Path" in f:
        role = role_of_path(fr, t["args"][0], roles)
        cur = getattr(st, {"staging": "stg", "old": "old", "output": "out"}.get(role, "out"))
        m.ops[bb] = "exists(%s)" % role
        return [(st, ("bool", 0 if cur == "absent" else 1))]
    if name == "is_dir" and "Path" in f:
        role = role_of_path(fr, t["args"][0], roles)
        cur = getattr(st, {"staging": "stg", "old": "old", "output": "out"}.get(role, "out"))
        m.ops[bb] = "is_dir(%s)" % role
        return [(st, ("bool", 1 if cur in ("prev", "new", "partial") else 0))]
    if f.startswith("std::fs::") and name not in ("metadata",):
        m.violations.append({"state": st.show(), "clause": "unmodelled filesystem mutation %s" % f, "where": m.body.loc(bb), "bb": bb})
    # error constructors: `.with_context(..)` / `Err(e)` keep the error-ness of _0 handled by zero_defs
    if name in ("with_context", "context") and t["dest"]["l"] == 0:
        return [(st, ("res", "err"))]
    return [(st, None)]


def analyse(ck):
    from .pb import Ob
    ob = Ob()
    prog = ck.prog
    from . import inline, e2

    def expanded(b):
        """private helpers this module does not name are part of the function they were extracted from (rules/inline.py)"""
        nb, done = inline.expand(prog, b, e2.private_helper(b, e2.module_anchors(__file__)))
        for p_ in done:
            for x in prog.by_path.get(p_.split(" ")[0], []):
                ck.saw(x)
        return nb

    impl = expanded(prog.one(r"^" + CB + r"::commit_staging_dir_impl$", CB))
    ck.saw(impl)
    wrap = prog.one(r"^" + CB + r"::commit_staging_dir$", CB)
    ck.saw(wrap)
    # wrapper: impl(staging_dir, output_dir, |src, dst| fs::rename(src, dst))
    wfr = T.Evaluator(prog).frame(wrap)
    wc = [(bb, t) for bb, t in wrap.calls() if t.get("name") == "commit_staging_dir_impl"]
    okw = len(wc) == 1
    if okw:
        a = [P.norm(wfr.operand_term(x)) for x in wc[0][1]["args"]]
        okw = a[0] == ("param", wrap.path, 1, wrap.local_name(1)) and a[1] == ("param", wrap.path, 2, wrap.local_name(2)) and isinstance(a[2], tuple) and a[2][0] == "closure"
        if okw:
            cb = prog.bodies.get(a[2][1])
            rn = [(bb, t) for bb, t in cb.calls() if (t.get("f") or "") == "std::fs::rename"]
            cfr = T.Evaluator(prog).frame(cb)
            okw = len(rn) == 1 and [P.norm(cfr.operand_term(x)) for x in rn[0][1]["args"]] == [("param", cb.path, 2, cb.local_name(2)), ("param", cb.path, 3, cb.local_name(3))]
    ob.add({"C23"}, okw, "TERM", "wrapper", "commit_staging_dir = commit_staging_dir_impl(staging, output, |src, dst| fs::rename(src, dst)) (arguments in order)", "%s:%s" % (wrap.file, wrap.line))
    renames = prog.call_sites(r"^std::fs::rename$")
    ob.add({"C23"}, len(renames) == 1, "WMC", "rename-sites", "fs::rename is called only inside that closure (%d site)" % len(renames))

    inits = [St(o, "absent", "new", o) for o in ("absent", "prev", "file")]
    m = Machine(ck, impl, classify_impl).run(inits)
    ob.add({"C23"}, not m.violations, "TS", "impl/invariant-at-every-point",
           "at every reachable (program point, filesystem state) of commit_staging_dir_impl — %d pairs, %d transitions, crash = stop at any of them — the output path holds the complete previous or the complete new set, and if the previous set left it, the new set is live or both copies survive" % (len(m.states), m.transitions),
           "%s:%s" % (impl.file, impl.line), m.violations[:4])
    bad_ret = []
    for st, ret in m.returns:
        if ret in ("ok",) and st.out != "new":
            bad_ret.append(("Ok returned but output=%s" % st.out, st.show()))
        if ret == "err" and st.out == "new":
            bad_ret.append(("Err returned although the new set is live", st.show()))
        if ret not in ("ok", "err"):
            bad_ret.append(("unclassified return", st.show(), ret))
    ob.add({"C23"}, not bad_ret and len(m.returns) >= 6, "TS", "impl/success-iff-live", "commit returns Ok exactly in the states where the new set is at the output path (%d return states)" % len(m.returns), "%s:%s" % (impl.file, impl.line), bad_ret[:4])
    ops = sorted(set(m.ops.values()))
    ob.add({"C23"}, {"rename(output -> old)", "rename(staging -> output)", "rename(old -> output)"} <= set(ops), "TS", "impl/ops-classified", "operations found: %s" % ops, "%s:%s" % (impl.file, impl.line))
    summary = [(st, ret) for st, ret in m.returns]

    # ---------------- generate_all_circuit_binaries
    gen = expanded(prog.one(r"^" + CB + r"::generate_all_circuit_binaries$", CB))
    ck.saw(gen)

    def classify_gen(mm, bb, t, st):
        fr = mm.fr
        name = t.get("name")
        f = t.get("f") or ""
        if name == "create_staging_dir":
            mm.ops[bb] = "create_staging_dir"
            a = P.param_path(fr.operand_term(t["args"][0])) or T.show(fr.operand_term(t["args"][0]))
            return [(st.with_(stg="partial"), ("res", "ok")), (st, ("res", "err"))]
        if name in ("call", "call_mut", "call_once") and t["args"]:
            c = fr.operand_term(t["args"][0])
            if isinstance(c, tuple) and c[0] == "closure":
                mm.ops[bb] = "generate into staging (closure)"
                caps = [P.param_path(x) or T.show(x, maxdepth=3) for x in c[2]]
                mm.gen_caps = caps
                return [(st.with_(stg="new"), ("res", "ok")), (st.with_(stg="partial"), ("res", "err"))]
        if f == "std::fs::remove_dir_all":
            tm = fr.operand_term(t["args"][0])
            role = "staging" if "create_staging_dir" in T.show(tm, maxdepth=4) else None
            mm.ops[bb] = "remove_dir_all(%s)" % role
            if role is None:
                mm.violations.append({"state": st.show(), "clause": "remove_dir_all on a path that is not the staging directory", "where": mm.body.loc(bb), "bb": bb})
                return [(st, None)]
            return rm_outcomes(st, "staging")
        if name == "commit_staging_dir":
            a0 = T.show(fr.operand_term(t["args"][0]), maxdepth=4)
            a1 = P.param_path(fr.operand_term(t["args"][1])) or T.show(fr.operand_term(t["args"][1]), maxdepth=4)
            mm.ops[bb] = "commit_staging_dir(%s, %s)" % ("staging" if "create_staging_dir" in a0 else a0, a1)
            outs = []
            for s2, ret in summary:
                if s2.out0 == st.out and st.stg == "new":
                    outs.append((St(s2.out, s2.old, s2.stg, st.out0, st.vals), ("res", "ok" if ret == "ok" else "err")))
            if st.stg != "new":
                mm.violations.append({"state": st.show(), "clause": "commit_staging_dir reached with an incomplete staging directory", "where": mm.body.loc(bb), "bb": bb})
            return outs or [(st, None)]
        if f.startswith("std::fs::"):
            mm.violations.append({"state": st.show(), "clause": "unmodelled filesystem mutation %s" % f, "where": mm.body.loc(bb), "bb": bb})
        if name == "new" and "CircuitBinsConfig" in f:
            return [(st, ("res", "ok")), (st, ("res", "err"))]
        # the generation steps written out (the closure turned into a private function that was expanded in place, or never was a
        # closure): a workspace call that is handed the staging path writes into the staging directory; the set is complete once
        # `config.save(staging)` — documented as written last — has succeeded
        argt = [fr.operand_term(a) for a in t["args"]]
        if any("create_staging_dir" in T.show(x, maxdepth=4) for x in argt) and not f.startswith(("std::", "core::", "alloc::")) and "Result" in (mm.body.local_ty(t["dest"]["l"]) if t.get("dest") else ""):
            mm.gen_caps = list(getattr(mm, "gen_caps", [])) + [P.param_path(x) or T.show(x, maxdepth=3) for x in argt]
            if name == "save" and "CircuitBinsConfig" in (f + (t.get("impl_adt") or "")):
                mm.ops[bb] = "config.save(staging)"
                return [(st.with_(stg="new"), ("res", "ok")), (st.with_(stg="partial"), ("res", "err"))]
            mm.ops[bb] = "generate into staging (%s)" % name
            return [(st.with_(stg="partial"), ("res", "ok")), (st.with_(stg="partial"), ("res", "err"))]
        return [(st, None)]

    g = Machine(ck, gen, classify_gen)
    g.gen_caps = []
    g.run([St(o, "absent", "absent", o) for o in ("absent", "prev")])
    ob.add({"C23"}, not g.violations, "TS", "generate/invariant-at-every-point",
           "the same invariant holds at every reachable point of generate_all_circuit_binaries, including after commit_staging_dir returned an error (%d pairs, %d transitions)" % (len(g.states), g.transitions),
           "%s:%s" % (gen.file, gen.line), g.violations[:4])
    outp = gen.local_name(1) or "output_path"
    ob.add({"C23"}, not any(str(c) == outp or str(c).startswith(outp + ".") for c in g.gen_caps) and any(str(c).startswith("create_staging_dir(") for c in g.gen_caps), "PROV", "generate/closure-captures",
           "the generation step (closure, or the calls it consists of) is handed the staging path and never the output path `%s`: %s" % (outp, g.gen_caps), "%s:%s" % (gen.file, gen.line))
    bad = []
    n_err_gen = 0
    for st, ret in g.returns:
        if ret == "ok" and st.out != "new":
            bad.append(("Ok although output=%s" % st.out, st.show()))
        if ret != "ok" and st.out == "new":
            bad.append(("Err although the new set is live", st.show()))
    ob.add({"C23"}, not bad and len(g.returns) >= 6, "TS", "generate/success-iff-live", "generate_all_circuit_binaries returns Ok exactly when the new set is live (%d return states)" % len(g.returns), "%s:%s" % (gen.file, gen.line), bad[:4])
    # failed generation: output untouched; staging removed when the cleanup itself succeeded
    rm = [(bb, t) for bb, t in gen.calls() if (t.get("f") or "") == "std::fs::remove_dir_all"]
    cm = [(bb, t) for bb, t in gen.calls() if t.get("name") == "commit_staging_dir"]
    okc = len(rm) == 1 and len(cm) == 1 and not cfg.reaches(gen, cm[0][0], rm[0][0]) and not cfg.reaches(gen, rm[0][0], cm[0][0])
    ob.add({"C23"}, okc, "DOM", "generate/cleanup-only-on-generation-failure", "the staging directory is removed only on the generation-failure edge, never after a commit attempt (whose error message promises the staged copy survives)", gen.loc(rm[0][0]) if rm else None)
    ck.ts = {"states": len(m.states) + len(g.states), "transitions": m.transitions + g.transitions, "ops": sorted(set(list(m.ops.values()) + list(g.ops.values()))), "returns": len(m.returns) + len(g.returns)}
    # who touches the output path: create_staging_dir only creates the parent and a sibling
    cs = prog.one(r"^" + CB + r"::create_staging_dir$", CB)
    ck.saw(cs)
    cfr = T.Evaluator(prog).frame(cs)
    muts = [(t.get("f"), T.show(cfr.operand_term(t["args"][0]), maxdepth=5)) for bb, t in cs.calls() if (t.get("f") or "").startswith("std::fs::")]
    okm = all((f == "std::fs::create_dir_all" and "parent(" in a) or (f == "std::fs::create_dir" and "with_file_name" in a) for f, a in muts) and len(muts) == 2
    ob.add({"C23"}, okm, "PROV", "create_staging_dir/paths", "create_staging_dir only creates the output's parent and a `.name.staging-*` sibling (never the output path itself)", "%s:%s" % (cs.file, cs.line), muts)
    return ob
