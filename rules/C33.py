"""C33 — secret material is scrubbed before its memory is released (DESIGN.md §5 C33)."""
from . import secrets


def run(ck):
    ck.explanation = ("C33 (structural): scrubbing destructors exist and cover the whole storage (every element, unconditionally); secrets are not Clone/Copy; Secret::new's zeroize post-dominates entry; "
                      "functions that expose secret bytes never return a bare heap buffer; secret-bearing vectors are pre-sized to everything appended and moved into a scrubbing wrapper before any other use; forbid(unsafe_code)")
    ck.not_decided = ["the bytes of a heap block at deallocation time (runtime allocator state) — decided structurally only", "the documented upstream hashing buffer (pad10_to_rate copy inside plonky2)"]
    ob = secrets.analyse33(ck)
    ob.emit(ck, "C33")
    ck.floor("ITEM", "secrets/obligations", len(ob.items), 20, "C33 obligations evaluated")
    if ck.tier == "thorough":
        from . import witnesses
        witnesses.run(ck, ["secret_no_clone", "nullifier_no_clone"])
