"""CF rule — compile-fail witnesses with compiling twins (witnesses/src/lib.rs), run under `cargo +nightly test --doc`."""
import os
import re
import shutil
import subprocess
import time

VERIF = os.path.dirname(os.path.dirname(os.path.abspath(__file__)))
NAMES = {"secret_no_debug": "SecretNoDebug", "sensitive_felts_no_debug": "SensitiveFeltsNoDebug", "secret_no_clone": "SecretNoClone", "nullifier_no_clone": "NullifierNoClone",
         "transfer_proof_json_no_deserialize": "TransferProofJsonNoDeserialize", "hash_bytes_compact_private": "HashBytesCompactPrivate", "witness_filler_private": "WitnessFillerPrivate"}
_cache = {}


def run_all(ck):
    if "out" in _cache:
        return _cache["out"]
    wdir = os.path.join(VERIF, "witnesses")
    repo = getattr(ck, "repo", "/repo")
    if repo != "/repo":
        _cache["out"] = None
        return None
    shutil.copy(os.path.join(repo, "Cargo.lock"), os.path.join(wdir, "Cargo.lock"))
    env = dict(os.environ, CARGO_NET_OFFLINE="true", CARGO_TARGET_DIR=os.path.join(VERIF, ".cache", "wtarget"))
    t0 = time.time()
    r = subprocess.run(["cargo", "+nightly", "test", "--doc", "--offline"], cwd=wdir, env=env, stdout=subprocess.PIPE, stderr=subprocess.STDOUT, text=True)
    res = {}
    for m in re.finditer(r"test src/lib\.rs - (\w+) \(line \d+\) - (compile fail|compile) \.\.\. (\w+)", r.stdout):
        res.setdefault(m.group(1), {})[m.group(2)] = m.group(3)
    _cache["out"] = (res, r.returncode, r.stdout[-1500:], time.time() - t0)
    return _cache["out"]


def run(ck, names):
    out = run_all(ck)
    if out is None:
        ck.note("compile-fail witnesses are only run against /repo itself")
        return
    res, rc, tail, secs = out
    for n in names:
        w = res.get(NAMES[n], {})
        ck.require(w.get("compile fail") == "ok" and w.get("compile") == "ok", "CF", "witness/" + n,
                   "compile_fail witness `%s` fails to compile with the expected error code while its twin (differing only in the offending line) compiles" % NAMES[n],
                   "witnesses/src/lib.rs", {"result": w, "exit": rc, "tail": tail[-400:] if not w else None})
    ck.note("witness doctests ran in %.0fs" % secs)
