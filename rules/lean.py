"""E7 — type-check of the repository's own Lean package (no proof is authored here) + E6 agreement between the
Lean definitions and the Rust source. The Lean side is read from the definitions' text (a different language; no
parser crate is available), tolerant to formatting."""
import os
import re
import shutil
import subprocess
import time
from . import postable
from . import terms as T
from . import pat as P
from .facts import AnchorMissing

KEY_THEOREMS = ["WormholeSpec.RPrivateBatch_value_conservation", "WormholeSpec.groupAux_conserves", "WormholeSpec.rawOutputTotal_lt_modulus",
                "WormholeSpec.no_double_spend", "WormholeSpec.spend_path_unique", "WormholeSpec.same_deposit_same_nullifier",
                "WormholeSpec.private_batch_sound", "WormholeSpec.public_batch_sound", "WormholeSpec.Encoding.feltOf_inj_canonical",
                "WormholeSpec.Encoding.bytesToDigest_inj_canonical"]
ALLOWED_AXIOMS = {"propext", "Classical.choice", "Quot.sound", "WormholeSpec.leaf_proof_sound", "WormholeSpec.private_batch_proof_sound"}
DECLARED_AXIOMS = {"leaf_proof_sound", "private_batch_proof_sound"}


def inventory(repo):
    base = os.path.join(repo, "formal", "WormholeSpec")
    inv = {"theorems": [], "axioms": [], "sorry": [], "files": []}
    for fn in sorted(os.listdir(base)):
        if not fn.endswith(".lean"):
            continue
        inv["files"].append(fn)
        src = open(os.path.join(base, fn)).read()
        code = re.sub(r"/-.*?-/", "", src, flags=re.S)
        code = re.sub(r"--[^\n]*", "", code)
        ns = []
        for line in code.split("\n"):
            m = re.match(r"^\s*namespace\s+([A-Za-z0-9_.']+)", line)
            if m:
                ns.append(m.group(1))
                continue
            m = re.match(r"^\s*end\s+([A-Za-z0-9_.']+)", line)
            if m and ns and ns[-1] == m.group(1):
                ns.pop()
                continue
            m = re.match(r"^\s*(?:private\s+|protected\s+)?(theorem|lemma)\s+([A-Za-z0-9_.']+)", line)
            if m:
                inv["theorems"].append((fn, ".".join(ns + [m.group(2)])))
        for m in re.finditer(r"^\s*axiom\s+([A-Za-z0-9_.']+)", code, flags=re.M):
            inv["axioms"].append((fn, m.group(1)))
        for m in re.finditer(r"\b(sorry|admit)\b", code):
            inv["sorry"].append((fn, m.group(1)))
        if re.search(r"\bnative_decide\b|\bunsafe\b|implemented_by|\bcsimp\b", code):
            inv["sorry"].append((fn, "native_decide/unsafe/implemented_by"))
    return inv


def build(ck, print_axioms=True, theorems=None):
    """lake build of a scratch copy of /repo/formal; returns dict(ok, secs, axioms_of={thm: [axioms]}, log)"""
    repo = ck.repo
    src = os.path.join(repo, "formal")
    dst = os.path.join(os.environ.get("VF_SCRATCH", "/tmp/vf-scratch"), "lean-%d" % os.getpid())
    if os.path.exists(dst):
        shutil.rmtree(dst)
    os.makedirs(os.path.dirname(dst), exist_ok=True)
    shutil.copytree(src, dst, ignore=shutil.ignore_patterns(".lake", "build"))
    res = {"ok": False, "secs": 0.0, "axioms_of": {}, "log": ""}
    t0 = time.time()
    try:
        r = subprocess.run(["lake", "build"], cwd=dst, stdout=subprocess.PIPE, stderr=subprocess.STDOUT, text=True, timeout=1500)
        res["log"] = r.stdout[-3000:]
        res["ok"] = r.returncode == 0 and "error" not in r.stdout.lower().replace("0 errors", "")
        res["warn_sorry"] = "declaration uses 'sorry'" in r.stdout
        if res["ok"] and print_axioms:
            chk = os.path.join(dst, "VfAxioms.lean")
            with open(chk, "w") as f:
                f.write("import WormholeSpec\n" + "\n".join("#print axioms %s" % t for t in (theorems or KEY_THEOREMS)) + "\n")
            r2 = subprocess.run(["lake", "env", "lean", "VfAxioms.lean"], cwd=dst, stdout=subprocess.PIPE, stderr=subprocess.STDOUT, text=True, timeout=900)
            res["axioms_log"] = r2.stdout[-3000:]
            for m in re.finditer(r"'([^']+)' (depends on axioms: \[([^\]]*)\]|does not depend on any axioms)", r2.stdout.replace("\n", " ")):
                ax = [a.strip() for a in (m.group(3) or "").split(",") if a.strip()]
                res["axioms_of"][m.group(1)] = ax
            res["axioms_ok"] = r2.returncode == 0
    except Exception as ex:
        res["log"] = "exception: %s" % ex
    finally:
        res["secs"] = round(time.time() - t0, 1)
        shutil.rmtree(dst, ignore_errors=True)
    return res


def check_build(ck):
    inv = inventory(ck.repo)
    ck.require(not inv["sorry"], "E7", "lean/no-sorry", "no `sorry` / `admit` / native_decide / unsafe escape in the Lean package (%d files, %d theorems)" % (len(inv["files"]), len(inv["theorems"])),
               "formal/WormholeSpec", inv["sorry"][:5])
    ck.require(set(a for _, a in inv["axioms"]) == DECLARED_AXIOMS and all(f == "Trusted.lean" for f, _ in inv["axioms"]), "E7", "lean/axioms-declared",
               "the only `axiom`s are leaf_proof_sound and private_batch_proof_sound, both in Trusted.lean", "formal/WormholeSpec/Trusted.lean", inv["axioms"])
    ck.floor("E7", "lean/theorems", len(inv["theorems"]), 40, "theorems in the package")
    allthm = [t for _, t in inv["theorems"]]
    res = build(ck, theorems=allthm)
    ck.require(res["ok"] and not res.get("warn_sorry"), "E7", "lean/lake-build", "`lake build` of a scratch copy of /repo/formal succeeds on Lean 4.33 (%.0fs): every theorem is kernel-checked" % res["secs"], "formal/", res["log"][-800:] if not res["ok"] else None)
    if res["ok"]:
        key_short = [k.rsplit(".", 1)[-1] for k in KEY_THEOREMS]
        ck.require(all(any(t.rsplit(".", 1)[-1] == k for t in allthm) for k in key_short), "E7", "lean/key-theorems-present", "the conservation, encoding and security-reduction theorems the property names are in the package", "formal/",
                   [k for k in key_short if not any(t.rsplit(".", 1)[-1] == k for t in allthm)])
        for t in allthm:
            ax = res["axioms_of"].get(t)
            ck.require(ax is not None and set(ax) <= ALLOWED_AXIOMS, "E7", "lean/axioms-of/" + t.split(".", 1)[1], "`#print axioms %s` ⊆ {propext, Classical.choice, Quot.sound, the two declared trusted axioms}" % t, "formal/", ax if ax is not None else res.get("axioms_log", "")[-400:])
    ck.lean = {"theorems": len(inv["theorems"]), "axioms": [a for _, a in inv["axioms"]], "build_s": res["secs"], "axioms_of": res["axioms_of"]}
    return res


# ---------------------------------------------------------------- agreement with the Rust source

def _def(defs, name):
    if name not in defs:
        raise AnchorMissing("Lean definition %s not found" % name)
    return re.sub(r"\s+", " ", defs[name][1])


def check_agreement(ck):
    prog = ck.prog
    defs = postable.lean_defs(ck.repo)
    # constants
    md = re.search(r":=\s*(\d+)", _def(defs, "maxDepth"))
    ck.require(md and int(md.group(1)) == prog.const_value("zk_merkle::MAX_DEPTH") == 16, "AGREE", "lean/maxDepth", "Lean maxDepth = Rust MAX_DEPTH = 16", "formal/WormholeSpec/Leaf.lean")
    g = re.search(r":=\s*(0x[0-9A-Fa-f_]+|\d+)", _def(defs, "goldilocks"))
    gv = int(g.group(1).replace("_", ""), 0) if g else None
    ck.require(gv == 0xFFFFFFFF00000001 == int(prog.consts["qp_wormhole_inputs::GOLDILOCKS_ORDER"]["v"]), "AGREE", "lean/goldilocks", "Lean goldilocks = Rust GOLDILOCKS_ORDER = 2^64 - 2^32 + 1", "formal/WormholeSpec/Basic.lean")
    fee = _def(defs, "feeOk")
    ck.require(re.search(r"\(p\.outputAmount1 \+ p\.outputAmount2\) \* 10000 ≤ w\.inputAmount \* \(10000 - p\.volumeFeeBps\)", fee) is not None, "AGREE", "lean/feeOk",
               "Lean feeOk is (out1 + out2) * 10000 ≤ in * (10000 − fee) — the inequality C01 decides on the circuit", "formal/WormholeSpec/Leaf.lean", fee[:200])
    rl = _def(defs, "Rleaf")
    want32 = {"p.outputAmount1", "p.outputAmount2", "w.inputAmount", "p.assetId", "p.blockNumber"}
    got32 = set(re.findall(r"inRange 32 ([pw]\.[A-Za-z0-9]+)", rl))
    tc = "∀ t ∈ w.transferCount, inRange 32 t" in rl
    ck.require(got32 == want32 and tc and "p.volumeFeeBps ≤ 10000" in rl, "AGREE", "lean/range-set", "Rleaf's 32-bit range set = C01's (outputs, input, asset, block number, both count limbs) and fee ≤ 10000", "formal/WormholeSpec/Leaf.lean", sorted(got32))
    hp = _def(defs, "headerPreimage")
    order = re.findall(r"w\.(parentHash|stateRoot|extrinsicsRoot|zkTreeRoot|digestLogs)|\[(blockNumber)\]", hp)
    order = [a or b for a, b in order]
    ck.require(order == ["parentHash", "blockNumber", "stateRoot", "extrinsicsRoot", "zkTreeRoot", "digestLogs"], "AGREE", "lean/headerPreimage", "Lean headerPreimage order = circuit/native header preimage order (C03)", "formal/WormholeSpec/Leaf.lean", order)
    lh = _def(defs, "leafHash")
    ck.require(re.search(r"toAccount\.toList \+\+ transferCount \+\+ \[assetId, inputAmount\]", lh) is not None, "AGREE", "lean/leafHash", "Lean leafHash preimage = to_account ++ transfer_count ++ [asset_id, input_amount] (C03)", "formal/WormholeSpec/Hash.lean", lh[:200])
    lt = postable.lean_table(ck.repo)
    nt, err, nloc = postable.native_table(ck)
    ck.require(lt == nt == postable.SPEC_TABLE, "AGREE", "lean/stepUp-table", "Lean stepUp position table = native insert_at_position table (and the circuit's, C03)", "formal/WormholeSpec/Leaf.lean", {"lean": lt, "native": nt})
    lp = defs.get("LeafPublic")
    fields = re.findall(r"^\s*([a-zA-Z0-9]+)\s*:", lp[1], flags=re.M) if lp else []
    ck.require(fields == ["assetId", "outputAmount1", "outputAmount2", "volumeFeeBps", "nullifier", "exitAccount1", "exitAccount2", "blockHash", "blockNumber"], "AGREE", "lean/LeafPublic-order",
               "LeafPublic field order = the leaf's public-input order (C05)", "formal/WormholeSpec/Leaf.lean", fields)
    isd = _def(defs, "LeafPublic.isDummy")
    ck.require(re.search(r"p\.blockHash = Digest\.zero ∧ p\.outputAmount1 = 0 ∧ p\.outputAmount2 = 0", isd) is not None, "AGREE", "lean/isDummy", "Lean leaf isDummy = block hash zero ∧ both outputs zero (C04's sentinel)", "formal/WormholeSpec/Leaf.lean", isd[:160])
    idp = _def(defs, "isDummyPrivateBatch")
    ck.require("p.blockHash = Digest.zero" in idp and "outputAmount" not in idp, "AGREE", "lean/isDummyPrivateBatch", "Lean private-batch dummy flag = block hash zero only (C06's flag)", "formal/WormholeSpec/Aggregation.lean", idp[:160])
    check_conservation_shape(ck, defs)
    nl = _def(defs, "Null")
    wa = _def(defs, "WA")
    ck.require("nullifierSalt ++ secret.toList ++ transferCount" in nl and "wormholeSalt ++ secret.toList" in wa and "ro.hh" in nl and "ro.hh" in wa, "AGREE", "lean/double-hashes",
               "Lean Null / WA are H(H(salt ++ secret [++ count])) in the circuit's order (C02)", "formal/WormholeSpec/Hash.lean")


def check_conservation_shape(ck, defs=None):
    defs = defs or postable.lean_defs(ck.repo)
    mc = _def(defs, "maskedChildPairs")
    ok = (re.search(r"if isDummyPrivateBatch p then \(Digest\.zero, 0\) else \(p\.exitAccount1, p\.outputAmount1\)", mc) is not None
          and re.search(r"if isDummyPrivateBatch p then \(Digest\.zero, 0\) else \(p\.exitAccount2, p\.outputAmount2\)", mc) is not None
          and mc.index("exitAccount1") < mc.index("exitAccount2"))
    ck.require(ok, "AGREE", "lean/maskedChildPairs", "Lean maskedChildPairs: per child (exit1, out1) then (exit2, out2), both masked to (zero, 0) for dummies — the shape C06/C08 find in the circuit", "formal/WormholeSpec/Aggregation.lean", mc[:300])
    ms = _def(defs, "matchSum")
    ck.require(re.search(r"\(if k' = k then a' else 0\) \+ matchSum k rest", ms) is not None, "AGREE", "lean/matchSum", "Lean matchSum sums the amounts of ALL pairs whose account equals the key (C08's acc recurrence)", "formal/WormholeSpec/Aggregation.lean", ms[:200])
    ga = _def(defs, "groupAux")
    ck.require(re.search(r"if k ∈ seen then ⟨0, Digest\.zero⟩ else ⟨a \+ matchSum k rest, k⟩", ga) is not None and "groupAux (k :: seen) rest" in ga, "AGREE", "lean/groupAux",
               "Lean groupAux: first occurrence keeps (sum, account), later occurrences are the zero slot (C08's is_duplicate / final_exit)", "formal/WormholeSpec/Aggregation.lean", ga[:300])
