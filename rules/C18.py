"""C18 — public-batch proofs bound to the configured aggregator address (DESIGN.md §5 C18)."""
from . import loaders, pubb


def run(ck):
    ck.explanation = """C18: in ProvingContext::verify the length check, the address comparison against self.aggregator_address (Err edge) and the cryptographic verification are ordered by dominance and the Ok value comes only from the verifier; prove_batch commits the configured address and self-verifies before returning; the address targets are the first four outputs and are filled from the committed address"""
    ck.not_decided = ["""cryptographic soundness of the public-batch circuit (trusted base)"""]
    ob = loaders.analyse(ck)
    ob.emit(ck, "C18")
    if "C18" == "C18":
        ob2, _ = pubb.analyse(ck)
        ob2.emit(ck, "C18")
    ck.floor("INV", "loaders/obligations", len([1 for it in ob.items if "C18" in it[0]]), 4, "C18 obligations evaluated")
