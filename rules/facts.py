"""Fact loading and program-wide indexes (bodies, call graph, items)."""
import glob
import json
import os
import re

PRODUCTION_CRATES = [
    "qp_zk_circuits_common",
    "qp_wormhole_inputs",
    "qp_wormhole_circuit",
    "qp_wormhole_verifier",
    "qp_wormhole_prover",
    "qp_wormhole_aggregator",
    "qp_wormhole_circuit_builder",
    "wormhole_memprof",
]
# test-support members: extracted, but not production code (reason: they only build
# fake circuits / fixtures for the test crates).
TEST_SUPPORT_CRATES = ["test_helpers", "tests"]


class Body:
    __slots__ = ("d", "id", "path", "crate", "kind", "blocks", "locals", "argc", "file", "line",
                 "_succ", "_pred", "_dom", "_pdom", "_rpo", "unit")

    def __init__(self, d, crate, unit):
        self.d = d
        self.id = d["id"]
        self.path = d["path"]
        self.crate = crate
        self.unit = unit
        self.kind = d["kind"]
        self.blocks = d["blocks"]
        self.locals = d["locals"]
        self.argc = d["argc"]
        self.file = d["file"]
        self.line = d["line"]
        self._succ = None
        self._pred = None
        self._dom = None
        self._pdom = None
        self._rpo = None

    def get(self, k, default=None):
        return self.d.get(k, default)

    @property
    def name(self):
        return self.d.get("name") or self.path.rsplit("::", 1)[-1]

    def local_name(self, l):
        return self.locals[l].get("n")

    def local_ty(self, l):
        return self.locals[l]["ty"]

    def calls(self):
        """yield (bb, term) for every call terminator in non-cleanup blocks"""
        for i, b in enumerate(self.blocks):
            if b["cleanup"]:
                continue
            t = b["t"]
            if t["k"] == "call":
                yield i, t

    def loc(self, bb):
        t = self.blocks[bb]["t"]
        f = t.get("file", self.file)
        ln = t.get("ln")
        if ln is None:
            for s in self.blocks[bb]["s"]:
                if "ln" in s:
                    ln = s["ln"]
                    break
        return "%s:%s" % (f, ln if ln is not None else self.line)


def callee_key(t):
    """Resolved callee path of a call terminator (resolved impl method when known)."""
    return t.get("r") or t.get("f") or "<indirect>"


def callee_id(t):
    return t.get("rid") or t.get("fid")


class Program:
    def __init__(self, facts_dir, run=None, resolve_renames=True):
        self.dir = facts_dir
        self.units = []
        self.bodies = {}      # id -> Body  (first unit wins; bin bodies get "bin:" prefix if clash)
        self.by_path = {}
        self.adts = {}
        self.impls = []
        self.consts = {}
        self.fns = {}
        self.uses = []
        self.mods = {}
        self.crate_attrs = {}
        self.features = {}
        files = sorted(glob.glob(os.path.join(facts_dir, "*.json")))
        for f in files:
            d = json.load(open(f))
            if run is not None and d.get("run") != run:
                raise RuntimeError("stale fact file %s (run %r != %r)" % (f, d.get("run"), run))
            kind = os.path.basename(f).split(".")[1]
            unit = "%s.%s" % (d["crate"], kind)
            self.units.append(unit)
            self.crate_attrs[unit] = d["crate_attrs"]
            self.features[unit] = d["features"]
            for b in d["bodies"]:
                body = Body(b, d["crate"], unit)
                if body.id in self.bodies:
                    continue
                self.bodies[body.id] = body
                self.by_path.setdefault(body.path, []).append(body)
            for a in d["adts"]:
                self.adts.setdefault(a["path"], a)
                a["crate"] = d["crate"]
            for i in d["impls"]:
                i["crate"] = d["crate"]
                i["unit"] = unit
                self.impls.append(i)
            for c in d["consts"]:
                c["crate"] = d["crate"]
                self.consts.setdefault(c["path"], c)
            for fn in d["fns"]:
                fn["crate"] = d["crate"]
                fn["unit"] = unit
                self.fns.setdefault(fn["id"], fn)
            for u in d["uses"]:
                u["crate"] = d["crate"]
                self.uses.append(u)
            for m in d["mods"]:
                self.mods.setdefault(m["path"], m)
        self._callers = None
        self.renamed = {}
        if resolve_renames:
            self._resolve_renamed_anchors()
            self._canonical_param_names()
            self._canonical_field_names()

    def _canonical_param_names(self):
        """rules refer to a function's parameters by the names they had on the unchanged tree (`config.num_wires`, `inputs.proofs`);
        a renamed parameter is the same parameter: when a function's arity is unchanged, its parameter locals are given back the
        recorded names (rules/anchors.json), so a rename of a parameter changes nothing for the rules"""
        p = os.path.join(os.path.dirname(os.path.abspath(__file__)), "anchors.json")
        if not os.path.exists(p):
            return
        tab = json.load(open(p)).get("params", {})
        for b in self.bodies.values():
            names = tab.get(b.path)
            if b.kind == "Closure" or not names or len(names) != b.argc:
                continue
            for i, nm in enumerate(names, start=1):
                if b.locals[i].get("n") != nm:
                    self.renamed["%s#%d" % (b.path, i)] = "%s (was %s)" % (b.locals[i].get("n"), nm)
                    b.locals[i]["n"] = nm

    def _canonical_field_names(self):
        """rules name struct fields (`self.nullifier_index`, `dummy_proof_template`) as they were on the unchanged tree.  A non-`pub`
        field that was merely renamed is the same field: when a struct keeps its path, its number of fields and every field's type in
        order, renamed non-pub fields get their recorded names back everywhere (struct definition, projections, struct literals)"""
        p = os.path.join(os.path.dirname(os.path.abspath(__file__)), "anchors.json")
        if not os.path.exists(p):
            return
        tab = json.load(open(p)).get("adts", {})
        ren = {}
        for pth, old in tab.items():
            a = self.adts.get(pth)
            if a is None or len(a.get("variants", [])) != 1:
                continue
            cur = a["variants"][0]["fields"]
            if len(cur) != len(old) or [f["ty"] for f in cur] != [o[1] for o in old]:
                continue
            m = {f["n"]: o[0] for f, o in zip(cur, old) if f["n"] != o[0] and o[2] != "pub" and f.get("vis") != "pub"}
            if not m or set(m.values()) & set(f["n"] for f in cur):
                continue   # nothing renamed, or an old name is in use for another field (a swap): leave alone
            ren[pth] = m
            for f in cur:
                if f["n"] in m:
                    self.renamed["%s.%s" % (pth, m[f["n"]])] = "%s (was %s)" % (f["n"], m[f["n"]])
                    f["n"] = m[f["n"]]
        if not ren:
            return

        def fix_place(pl):
            for pr in pl.get("p", []):
                if isinstance(pr, dict) and "f" in pr and pr.get("o") in ren and pr.get("n") in ren[pr["o"]]:
                    pr["n"] = ren[pr["o"]][pr["n"]]

        def fix_op(o):
            if isinstance(o, dict):
                pl = o.get("c") or o.get("m")
                if pl:
                    fix_place(pl)
        for b in self.bodies.values():
            for blk in b.blocks:
                for st in blk["s"]:
                    if isinstance(st.get("d"), dict):
                        fix_place(st["d"])
                    r = st.get("r") or {}
                    for k in ("a", "b"):
                        fix_op(r.get(k))
                    if isinstance(r.get("p"), dict):
                        fix_place(r["p"])
                    for o in r.get("ops", []) or []:
                        fix_op(o)
                    if r.get("k") == "agg" and r["ak"].get("t") == "adt" and r["ak"]["adt"] in ren:
                        r["ak"]["fields"] = [ren[r["ak"]["adt"]].get(n, n) for n in r["ak"]["fields"]]
                t = blk["t"]
                if t["k"] == "call":
                    for o in t["args"]:
                        fix_op(o)
                    if isinstance(t.get("dest"), dict):
                        fix_place(t["dest"])
                elif t["k"] == "switch":
                    fix_op(t["d"])

    def _resolve_renamed_anchors(self):
        """A private function that the rule modules name (rules/anchors.json, generated from the unchanged tree) may have been renamed
        or moved to a sibling module: if its path is gone and exactly one function of the same crate is non-`pub`, has the same
        signature and was not known before, that function is taken to be the anchor and is given back its old path and name in the
        loaded facts (bodies, closures, call sites), so every rule keeps working on it.  Anything ambiguous is left alone and the
        rule then reports the missing anchor."""
        p = os.path.join(os.path.dirname(os.path.abspath(__file__)), "anchors.json")
        if not os.path.exists(p):
            return
        tab = json.load(open(p))
        known = set(tab.get("known_paths", []))
        have = set(f["path"] for f in self.fns.values())
        # anchors that are cfg-gated (absent from some analysed configuration of the unchanged tree) are never "renamed"
        missing = [a for a in tab.get("anchors", []) if a["path"] not in have and a.get("everywhere", True)]
        if not missing:
            return
        fresh = [f for f in self.fns.values() if f["crate"] in PRODUCTION_CRATES and f["path"] not in known and f.get("vis") != "pub" and f.get("has_body", True)]
        for a in missing:
            cands = [f for f in fresh if f["crate"] == a["crate"] and f.get("inputs") == a["inputs"] and f.get("output") == a["output"]]
            others = [b for b in missing if b is not a and b["crate"] == a["crate"] and b["inputs"] == a["inputs"] and b["output"] == a["output"]]
            if len(cands) != 1 or others:
                continue
            self._alias(cands[0], a)

    def _alias(self, fn, anchor):
        new, old = fn["path"], anchor["path"]
        oldname = old.rsplit("::", 1)[-1]
        self.renamed[old] = new
        fn["path"] = old
        for b in list(self.bodies.values()):
            if b.path == new or b.path.startswith(new + "::{closure"):
                self.by_path.get(b.path, []) and self.by_path[b.path].remove(b)
                b.path = old + b.path[len(new):]
                b.d["path"] = b.path
                if b.kind != "Closure":
                    b.d["name"] = oldname
                self.by_path.setdefault(b.path, []).append(b)
            for blk in b.blocks:
                t = blk["t"]
                if t.get("k") != "call":
                    continue
                for key in ("f", "r"):
                    v = t.get(key)
                    if v and (v == new or v.startswith(new + "::<")):
                        t[key] = old + v[len(new):]
                        t["name"] = oldname

    # ---- lookups -------------------------------------------------------------
    def production_bodies(self):
        for b in self.bodies.values():
            if b.crate in PRODUCTION_CRATES:
                yield b

    def find(self, pattern, crate=None, production=True):
        """bodies whose pretty path matches regex `pattern` (search)."""
        rx = re.compile(pattern)
        out = []
        for b in self.bodies.values():
            if production and b.crate not in PRODUCTION_CRATES:
                continue
            if crate and b.crate != crate:
                continue
            if rx.search(b.path):
                out.append(b)
        return out

    def one(self, pattern, crate=None):
        r = [b for b in self.find(pattern, crate) if b.kind != "Closure"]
        if len(r) != 1:
            raise AnchorMissing("expected exactly one body matching %r%s, found %d: %s" % (
                pattern, " in " + crate if crate else "", len(r), [b.path for b in r][:6]))
        return r[0]

    def closures_of(self, body):
        return [b for b in self.bodies.values() if b.kind == "Closure" and b.d.get("root") == body.id]

    def const_value(self, path_suffix):
        r = [c for p, c in self.consts.items() if p == path_suffix or p.endswith("::" + path_suffix)]
        r = [c for c in r if c["crate"] in PRODUCTION_CRATES]
        vals = set(c.get("v") for c in r)
        if not r or len(vals) != 1 or None in vals:
            raise AnchorMissing("constant %s not found / ambiguous (%s)" % (path_suffix, [(c["path"], c.get("v")) for c in r]))
        return int(r[0]["v"])

    def const_str(self, path_suffix):
        r = [c for p, c in self.consts.items() if (p == path_suffix or p.endswith("::" + path_suffix)) and c["crate"] in PRODUCTION_CRATES]
        vals = set(c.get("s") for c in r)
        if not r or len(vals) != 1 or None in vals:
            raise AnchorMissing("string constant %s not found / ambiguous" % path_suffix)
        return r[0]["s"]

    def callers(self):
        """callee id -> list of (Body, bb, term) over all bodies"""
        if self._callers is None:
            m = {}
            for b in self.bodies.values():
                for bb, t in b.calls():
                    for key in set(filter(None, [t.get("fid"), t.get("rid")])):
                        m.setdefault(key, []).append((b, bb, t))
            self._callers = m
        return self._callers

    def call_sites(self, pattern, production=True, include_test_support=False):
        """all (Body, bb, term) whose resolved-or-declared callee path matches regex"""
        rx = re.compile(pattern)
        out = []
        for b in self.bodies.values():
            if production and b.crate not in PRODUCTION_CRATES:
                if not (include_test_support and b.crate in TEST_SUPPORT_CRATES):
                    continue
            for bb, t in b.calls():
                if rx.search(t.get("f", "")) or (t.get("r") and rx.search(t["r"])):
                    out.append((b, bb, t))
        return out

    def impls_of(self, adt_path_suffix, trait_suffix=None):
        out = []
        for i in self.impls:
            a = i.get("adt")
            if not a or not (a == adt_path_suffix or a.endswith("::" + adt_path_suffix)):
                continue
            if trait_suffix is not None:
                t = i.get("trait")
                if not t or not (t == trait_suffix or t.endswith("::" + trait_suffix)):
                    continue
            out.append(i)
        return out

    def adt(self, suffix):
        r = [a for p, a in self.adts.items() if (p == suffix or p.endswith("::" + suffix)) and a["crate"] in PRODUCTION_CRATES]
        if len(r) != 1:
            raise AnchorMissing("ADT %s not found / ambiguous: %s" % (suffix, [a["path"] for a in r]))
        return r[0]

    def fn_item(self, body):
        return self.fns.get(body.id)


class AnchorMissing(Exception):
    pass
