"""C04 — binding checks skipped only for the full dummy sentinel (DESIGN.md §5 C04)."""
from . import terms as T
from . import pat as P
from . import circ, leaf
from .pat import V, K, Cb

PUBLIC_CREATORS = {"cb.add_virtual_public_input", "cb.add_virtual_hash_public_input", "cb.add_virtual_public_input_arr"}
PRIVATE_CREATORS = {"cb.add_virtual_target", "cb.add_virtual_targets", "cb.add_virtual_hash", "cb.add_virtual_target_arr", "cb.add_virtual_hashes"}


def sentinel_leaves(view):
    bh = view.role("block_header.block_hash")
    want = set()
    for i in range(4):
        want.add(("idx", ("fld", bh, "elements"), ("c", i, None)))
    want.add(view.role("zk_merkle_proof.leaf.output_amount_1"))
    want.add(view.role("zk_merkle_proof.leaf.output_amount_2"))
    return want


def check_flag(ck, view, tag=""):
    flag, fe = leaf.flag_definition(view)
    if flag is None:
        ck.fail("TERM", tag + "flag/connected", "zk_merkle_proof.is_not_dummy is never connected to an in-circuit term: the dummy decision is a free witness")
        return None
    circ.require_uncond(ck, fe, "UNCOND", tag + "flag/connect-uncond", "connect(is_not_dummy, derived flag)")
    b = P.match(Cb("cb.not", V("d")), flag)
    if not ck.require(b is not None, "TERM", tag + "flag/negation", "is_not_dummy = 1 - is_dummy", fe.loc, T.show(flag)[:300]):
        return flag
    leaves = leaf.and_leaves_expanded(view, b["d"])
    got = set()
    bad = []
    for lf in leaves:
        a = P.cb_args(lf, "cb.is_equal")
        if a is None:
            bad.append(T.show(lf)[:120])
            continue
        x, y = P.norm(a[0]), P.norm(a[1])
        if P.const_of(y) == 0:
            got.add(x)
        elif P.const_of(x) == 0:
            got.add(y)
        else:
            bad.append(T.show(lf)[:120])
    want = sentinel_leaves(view)
    missing = [T.show(w)[:80] for w in want - got]
    extra = [T.show(w)[:80] for w in got - want]
    roles = lambda ts: sorted(sum((view.role_of(t) for t in ts), []))
    ck.require(not bad and not missing and not extra and len(leaves) == 6, "TERM", tag + "flag/sentinel",
               "is_dummy is the conjunction of exactly {block_hash[0..3] == 0, output_amount_1 == 0, output_amount_2 == 0}", fe.loc,
               {"leaves_found": roles(got), "missing": roles(want - got), "unexpected": extra, "non-equality leaves": bad, "n_leaves": len(leaves)})
    # PROV: only public inputs and constants
    nonpub = []
    for s in T.walk(flag):
        if s and s[0] == "call" and s[2] in circ.FREE_NAMES and s[2] not in PUBLIC_CREATORS:
            nonpub.append(T.show(s))
    ck.require(not nonpub, "PROV", tag + "flag/public-only", "the dummy decision depends on public-input wires and constants only", fe.loc, nonpub)
    return flag


def check_free(ck, view, tag=""):
    """FREE: every free-witness creation site is a field of the returned target tree; the only hint-class one is
    is_not_dummy, created boolean-constrained and pinned by the connect above"""
    free = view.free_effects()
    role_terms = set(view.roles.values())
    closures_in_roles = set()
    for t in role_terms:
        for s in T.walk(t):
            if s and s[0] == "closure":
                closures_in_roles.add(s[1])
    n_hint = 0
    for e in free:
        res = e.result
        in_tree = res in role_terms or any(res == s for t in role_terms for s in T.walk(t))
        if not in_tree:
            # created inside a closure that is itself a role (array::from_fn / map)
            b = e.frame.body
            in_tree = b.kind == "Closure" and (b.id in closures_in_roles or b.d.get("parent") in closures_in_roles)
        key = tag + "free/" + e.name[3:] + "@" + e.frame.body.path.split("::", 1)[-1]
        if e.name.endswith("new_unsafe") or e.name in ("cb.add_virtual_bool_target_unsafe",):
            ck.fail("FREE", key, "unsafe boolean target created in the leaf circuit", e.loc)
            continue
        if e.name == "cb.add_virtual_bool_target_safe":
            n_hint += 1
            ck.require(res == view.role("zk_merkle_proof.is_not_dummy"), "FREE", key, "the only boolean hint is zk_merkle_proof.is_not_dummy", e.loc)
            continue
        ck.require(in_tree, "FREE", key, "free witness is a declared input (stored in the circuit's target tree)", e.loc, T.show(res)[:200])
    ck.exact("FREE", tag + "hint-count", n_hint, 1, "hint-class witnesses (add_virtual_bool_target_safe)")
    ck.floor("FREE", tag + "free-sites", len(free), 20, "free-witness creation sites in the leaf circuit")


def check_gated_inventory(ck, view, flag, tag=""):
    role = view.role("zk_merkle_proof.is_not_dummy")
    strip = lambda t: t[1] if (isinstance(t, tuple) and t[0] == "fld" and t[2] == "elements") else t
    expected = {
        "nullifier": lambda a, b: view.role("nullifier.hash") in (strip(a), strip(b)),
        "block-hash": lambda a, b: view.role("block_header.block_hash") in (strip(a), strip(b)),
        "header-root": lambda a, b: {strip(a), strip(b)} == {view.role("block_header.header.zk_tree_root"), view.role("zk_merkle_proof.root_hash")},
        "merkle-root": lambda a, b: view.role("zk_merkle_proof.root_hash") in (strip(a), strip(b)) and view.role("block_header.header.zk_tree_root") not in (strip(a), strip(b)),
    }
    seen = {}
    gated_sites = set()
    for g in leaf.gated_equalities(view):
        G = P.norm(g["G"])
        if G != flag and G != role:
            continue
        gated_sites.add(g["e"].site)
        a, ia, b, ib, nest = leaf.split_pair(g["e"], g["A"], g["B"])
        cls = [k for k, f in expected.items() if f(a, b)]
        if len(cls) != 1:
            ck.fail("INV", tag + "gated/unexpected@" + g["e"].frame.body.name, "a constraint gated by the dummy flag is not one of the four binding groups", g["e"].loc,
                    {"A": T.show(a)[:200], "B": T.show(b)[:200]})
            continue
        seen.setdefault(cls[0], []).append(g)
        e = g["e"]
        ck.require(leaf.all_limbs(nest, ia, ib), "TERM", tag + "gated/%s/all-limbs" % cls[0], "all four limbs are bound (same index i in 0..4 on both sides)", e.loc)
        circ.require_uncond(ck, e, "UNCOND", tag + "gated/%s/uncond" % cls[0], "the %s binding" % cls[0])
    for k in expected:
        ck.require(len(seen.get(k, [])) == 1, "INV", tag + "gated/%s/present" % k, "exactly one gated binding group `%s` (found %d)" % (k, len(seen.get(k, []))),
                   seen[k][0]["e"].loc if seen.get(k) else None)
    # every other constraint site is ungated
    flag_conn = leaf.flag_definition(view)[1]
    for e in view.constraint_effects():
        if e.site in gated_sites or (flag_conn is not None and e.site == flag_conn.site):
            continue
        ops = circ.cb_operands(e)
        if any(s == flag or s == role for o in ops for s in T.walk(P.norm(o))):
            ck.fail("INV", tag + "ungated/" + e.name + "@" + e.frame.body.name, "constraint outside the four binding groups depends on the dummy flag (range/fee constraints must hold for dummies too)", e.loc,
                    [T.show(o)[:200] for o in ops])
    ck.ok("INV", tag + "ungated/others", "%d other constraint sites of the leaf circuit do not mention the flag" % (len(view.constraint_effects()) - len(gated_sites) - 1))


def run(ck):
    ck.explanation = "C04: shape and provenance of the in-circuit dummy flag, free-witness inventory, and the exact set of constraints gated by the flag"
    ck.not_decided = ["the off-circuit dummy template builder (dummy_proof.rs) is covered by C16"]
    view = leaf.LeafView(ck)
    flag = check_flag(ck, view)
    check_free(ck, view)
    if flag is not None:
        check_gated_inventory(ck, view, flag)
    if True:   # both tiers: the `profile` feature swaps in `new_profiled`, a second constructor of the same circuit
        prog2 = ck.extract("profile")
        v2 = leaf.LeafView(ck, prog2, entry=r"WormholeCircuit::new_profiled$")
        f2 = check_flag(ck, v2, "profile:")
        check_free(ck, v2, "profile:")
        if f2 is not None:
            check_gated_inventory(ck, v2, f2, "profile:")
