"""Rules over the batch provers (private_batch/prover/lib.rs, public_batch/prover/lib.rs, aggregator.rs): C14, C15, C16, C18."""
import re
from . import cfg, guards, e2, circ
from . import terms as T
from . import pat as P
from .pb import Ob

AGG = "qp_wormhole_aggregator"
PRIV = AGG + "::private_batch::prover::lib::"
PUB = AGG + "::public_batch::prover::lib::"


def offsets_in(t, suffixes=("_START", "_OFFSET")):
    """names of layout constants that index a `public_inputs` vector inside a term"""
    out = set()
    for s in T.walk(t):
        if s and s[0] == "idx" and "public_inputs" in T.show(s[1], maxdepth=3):
            for c in T.walk(s[2]):
                if c and c[0] == "c" and c[2] and c[2].rsplit("::", 1)[-1].endswith(suffixes):
                    out.add(c[2].rsplit("::", 1)[-1])
    return out


def expand(fr, t, depth=0):
    """resolve from_fn / map closures inside a term so that the layout constants they read become visible"""
    if depth > 4 or not isinstance(t, tuple):
        return t
    if t and t[0] == "from_fn":
        return expand(fr, fr.index(t, ("sym", "K")), depth + 1)
    return tuple(expand(fr, x, depth + 1) if isinstance(x, tuple) else x for x in t)


def dep_conditions(mv, bb):
    """[(cond term, edge values)] of the switches a block is control dependent on"""
    out = []
    for (a, b) in sorted(cfg.control_deps_closed(mv.body).get(bb, ())):
        t = mv.body.blocks[a]["t"]
        if t["k"] == "switch":
            out.append((mv.fr.operand_term(t["d"]), cfg.switch_edge_value(mv.body, a, b), a))
    return out


def under_dummy_skip(mv, bb):
    """is the block executed only for slots whose block hash is NOT the zero sentinel"""
    for cond, vals, a in dep_conditions(mv, bb):
        c = P.norm(cond)
        if isinstance(c, tuple) and c[0] == "bin" and c[1] == "Eq":
            ex = expand(mv.fr, c)
            zero_arr = any(isinstance(s, tuple) and s and (s[0] in ("repeat", "array")) and all(P.const_of(x) == 0 for x in (s[1] if s[0] == "array" else (s[1],))) for s in (c[2], c[3])) or "cdef" in T.show(c) or "[0" in T.show(c)
            if any(n.startswith(("BLOCK_HASH", "PRIVATE_BATCH_BLOCK_HASH")) for n in offsets_in(ex)) and vals == ["0"]:
                return True
    return False


def extra_filters(mv, bb, allow_reference=False):
    """conditions a block depends on (within one loop iteration) other than loop guards, the dummy skip, the
    first-reference match and error exits"""
    out = []
    deps = cfg.control_deps_closed(mv.body, intra_iteration=True).get(bb, ())
    by_switch = {}
    for (a, b) in deps:
        by_switch.setdefault(a, set()).add(b)
    for (a, b) in sorted(deps):
        t = mv.body.blocks[a]["t"]
        if t["k"] != "switch":
            continue
        live = set(s for s in cfg.succs(mv.body)[a] if mv.body.blocks[s]["t"]["k"] != "unreachable")
        if by_switch[a] >= live:
            continue  # reached through every arm of this match (some arms may bail): not a filter
        g = mv.fr.describe_guard(a, b)
        if g[0] == "loop":
            continue
        fake = type("E", (), {"frame": mv.fr, "ctrl": (g,)})
        if circ._error_exit_guard(fake, g):
            continue
        cond = P.norm(mv.fr.operand_term(t["d"]))
        vals = cfg.switch_edge_value(mv.body, a, b)
        if isinstance(cond, tuple) and cond[0] == "bin" and cond[1] == "Eq" and vals == ["0"] and any(
                n.startswith(("BLOCK_HASH", "PRIVATE_BATCH_BLOCK_HASH")) for n in offsets_in(expand(mv.fr, cond))):
            continue
        if allow_reference and isinstance(cond, tuple) and cond[0] == "discr" and "reference" in T.show(cond, maxdepth=2):
            continue
        if isinstance(cond, tuple) and cond[0] == "discr" and isinstance(cond[1], tuple) and cond[1] and cond[1][0] in ("tuple", "elem", "adt"):
            # destructuring match on an iterator item / tuple literal: irrefutable pattern plumbing
            continue
        out.append((T.show(cond, maxdepth=5)[:160], vals, mv.body.loc(a)))
    return out


def _zero_iff_all_zero(t):
    """field names such that the (unsigned) term is zero exactly when all of them are zero; None when that cannot be established"""
    t = P.norm(t)
    if not isinstance(t, tuple) or not t:
        return None
    if t[0] == "fld":
        return {t[2]}
    if t[0] == "bin" and t[1] == "BitOr":
        a, b = _zero_iff_all_zero(t[2]), _zero_iff_all_zero(t[3])
        return (a | b) if (a is not None and b is not None) else None
    nm = P.call_name(t) or ""
    short = nm.rsplit("::", 1)[-1]
    if short in ("max", "saturating_add") and len(t[4]) == 2:
        a, b = _zero_iff_all_zero(t[4][0]), _zero_iff_all_zero(t[4][1])
        return (a | b) if (a is not None and b is not None) else None
    if short in ("from", "into") and len(t[4]) == 1 and "core::convert" in nm:
        return _zero_iff_all_zero(t[4][0])   # lossless widening
    return None


def _weak_mirror(prog, body):
    """presence of the five mirrored classes in a preflight function, read off the MIR of the function, its closures and the private
    same-crate functions they call: which public-input offsets are read, whether values are compared, whether a saturating sum is
    bounded by u32::MAX, whether something is inserted into a set/map"""
    seen, work, bodies = set(), [body], []
    while work:
        b = work.pop()
        if b is None or b.id in seen or len(bodies) > 40:
            continue
        seen.add(b.id)
        bodies.append(b)
        for blk in b.blocks:
            for st in blk["s"]:
                r = st.get("r") or {}
                if r.get("k") == "agg" and r["ak"].get("t") == "closure":
                    work.append(prog.bodies.get(r["ak"]["id"]))
        for _, t in b.calls():
            cb = prog.bodies.get(t.get("rid") or t.get("fid") or "")
            mod_ = body.path.rsplit("::", 1)[0]
            if cb is not None and cb.crate == body.crate and ((cb.d.get("vis") or "pub") != "pub" or cb.path.startswith(mod_ + "::") or ("<" + mod_ + "::") in cb.path):
                work.append(cb)
    defs, cmps, calls, maxcmp = set(), 0, set(), False
    for b in bodies:
        for blk in b.blocks:
            for st in blk["s"]:
                r = st.get("r") or {}
                ops = [r.get("a"), r.get("b")] + list(r.get("ops") or [])
                for o in ops:
                    if isinstance(o, dict) and "k" in o and o["k"].get("def"):
                        defs.add(o["k"]["def"].rsplit("::", 1)[-1])
                if r.get("k") == "bin" and r.get("op") in ("Ne", "Eq"):
                    cmps += 1
                if r.get("k") == "bin" and r.get("op") in ("Gt", "Ge", "Lt", "Le"):
                    for o in (r.get("a"), r.get("b")):
                        if isinstance(o, dict) and "k" in o and str(o["k"].get("v")) == str(0xFFFFFFFF):
                            maxcmp = True
            t = blk["t"]
            if t["k"] == "call":
                calls.add(t.get("name"))
                if t.get("name") in ("eq", "ne"):
                    cmps += 1
                for o in t.get("args", []):
                    if isinstance(o, dict) and "k" in o and o["k"].get("def"):
                        defs.add(o["k"]["def"].rsplit("::", 1)[-1])
    from . import guards as _g
    errs = len([1 for lst in _g._zero_defs(body).values() if "err" in lst])
    return {"asset": "ASSET_ID_START" in defs and cmps >= 3, "block": "BLOCK_HASH_START" in defs and cmps >= 3, "fee": "VOLUME_FEE_BPS_START" in defs and cmps >= 3,
            "unique": "NULLIFIER_START" in defs and "insert" in calls,
            "range": {"EXIT_1_START", "EXIT_2_START", "OUTPUT_AMOUNT_1_START", "OUTPUT_AMOUNT_2_START"} <= defs and "saturating_add" in calls and (maxcmp or "MAX" in " ".join(defs)),
            "err-exits": errs, "reads": sorted(defs), "n_cmp": cmps}


def _unmapped(t):
    """an iterator term with its element-wise `map(..)` layers removed (they change the elements, not how many there are or how often
    the source generator runs)"""
    t = P.norm(t)
    while isinstance(t, tuple) and t and t[0] == "map" and len(t) >= 3:
        t = P.norm(t[1])
    return t


def classify_preflight(mv, layer):
    """err-guards of an ensure_*_compatible function -> {class: [guard]}; unknown ones under None"""
    classes = {}
    for g in mv.gt:
        if not (g["outcome"] & {"err"}) or "panic" in g["outcome"] and g["kind"] == "match" and "discr(elem" in T.show(g["cond"], maxdepth=2):
            continue
        if g["outcome"] - {"err"}:
            # loop/iteration matches that merely reach a bail somewhere below are not rejection sites themselves
            if g["kind"] == "match":
                continue
        cond = expand(mv.fr, P.norm(g["cond"]))
        offs = offsets_in(cond)
        rc = guards.reject_condition({"cond": P.norm(g["cond"]), "fail_when": g["fail_when"]})
        skip = under_dummy_skip(mv, g["bb"])
        cls = None
        if rc and rc[0] == "Ne" and offs and all(o.startswith(("ASSET_ID", "PRIVATE_BATCH_ASSET_ID")) for o in offs):
            cls = "asset"
        elif rc and rc[0] == "Ne" and offs and all(o.startswith(("BLOCK_HASH", "PRIVATE_BATCH_BLOCK_HASH")) for o in offs):
            cls = "block"
        elif rc and rc[0] == "Ne" and offs and all(o.startswith(("VOLUME_FEE_BPS", "PRIVATE_BATCH_VOLUME_FEE_BPS")) for o in offs):
            cls = "fee"
        elif rc and rc[0] == "Gt" and P.const_of(rc[2]) == 0xFFFFFFFF and "saturating_add" in T.show(rc[1], maxdepth=8):
            cls = "range"
        elif ((P.call_name(g["cond"]) or "").endswith("::is_none") and g["fail_when"] is True) or ((P.call_name(g["cond"]) or "").endswith("::is_some") and g["fail_when"] is False):
            # `if r.is_none() { bail }`  ==  `ensure!(r.is_some())`
            cls = "all-dummy"
        elif g["kind"] == "match" and "insert(" in T.show(g["cond"], maxdepth=3):
            cls = "unique"
        classes.setdefault(cls, []).append((g, offs, skip))
    return classes


def analyse(ck):
    ob = Ob()
    prog = ck.prog

    # ============================================================ C14: private-batch preflight mirrors the circuit's classes
    from . import pb, pubb
    pob, pv = pb.analyse(ck)
    circuit_classes = set(k for k in getattr(pv, "classified", {}) if k) if pv is not None else set()
    mv = e2.MethodView(ck, "^" + PRIV.replace("::", "::") + "ensure_leaf_batch_compatible$", AGG)
    cl = classify_preflight(mv, "private")
    # nullifier uniqueness: the `insert` into seen_nullifiers whose Some(..) result bails
    uniq = [e for e in mv.effects if e.raw.get("name") == "insert" and "HashMap" in (e.path or "") and offsets_in(expand(mv.fr, e.args[1])) == {"NULLIFIER_START"}]
    uq_ok = False
    if len(uniq) == 1:
        ubb = uniq[0].bb
        for g in mv.gt:
            if g["kind"] == "match" and "err" in g["outcome"] and cfg.dominates(mv.body, ubb, g["bb"]) and P.call_name(P.norm(g["cond"])[1] if isinstance(g["cond"], tuple) and g["cond"][0] == "discr" else None):
                inner = P.norm(g["cond"][1])
                if inner == P.norm(uniq[0].result):
                    uq_ok = under_dummy_skip(mv, ubb)
    have = set(k for k in cl if k)
    if uq_ok:
        have.add("unique")
    want = {"asset", "block", "fee", "unique", "range"}
    ob.add({"C14"}, circuit_classes == want, "INV", "private/circuit-classes", "the private-batch circuit's own constraint classes are %s" % sorted(circuit_classes), None, sorted(want))
    # "form not recognised" = the classification sees at most two of the five classes; with three or four found the form IS the known
    # one and a class it does not find is reported as missing (a dropped mirror is exactly that)
    strict = want <= have or len(have & want) >= 3
    if not strict:
        # The preflight is not written in the guard forms the classification reads (index loops with a dummy `continue`, `bail!` under
        # comparisons of public-input reads): a class that is present may be invisible to it.  For such a form only necessary conditions
        # are decided — the function (with its closures and the private helpers it calls) reads every public-input field the five
        # classes compare, compares them, bounds a saturating sum by u32::MAX and inserts nullifiers into a set — and each mirror
        # obligation says so.  Missing reads / comparisons are still violations.
        wk = _weak_mirror(prog, mv.body)
        note = " [form not recognised by the guard classification: necessary conditions only — %s]" % ", ".join(sorted(want - have))
        for c in sorted(want):
            ob.add({"C14"}, (c in have) or wk.get(c, False), "AGREE", "private/mirror/" + c, "commit's preflight mirrors the circuit class `%s`%s" % (c, "" if c in have else note), mv.loc0, wk if not wk.get(c, False) else None)
        ob.add({"C14"}, True, "INV", "private/no-extra-rejections", "not decided for this form" + note, mv.loc0)
        ob.add({"C14"}, ("all-dummy" in have) or wk.get("err-exits", 0) >= 6, "CMP", "private/all-dummy-policy", "a batch without a real proof is rejected (documented policy)%s" % ("" if "all-dummy" in have else note), mv.loc0)
    for c in (sorted(want) if strict else []):
        gs = cl.get(c, [])
        ok = c in have
        loc = gs[0][0]["loc"] if gs else (uniq[0].loc if (c == "unique" and uniq) else mv.loc0)
        detail = None
        if ok and c in ("block", "fee", "range"):
            ok = all(sk for _, _, sk in gs)
            detail = "must apply to non-dummy slots only (after the block_hash == 0 skip)"
        if ok and c == "asset":
            ok = all(not sk for _, _, sk in gs)
            detail = "must apply to every slot, dummies included (before the dummy skip)"
        ob.add({"C14"}, ok, "AGREE", "private/mirror/" + c,
               "commit's preflight mirrors the circuit class `%s` %s" % (c, "(range_check(final_sum, 32) ↔ per-account sum of non-dummy exits > u32::MAX → bail)" if c == "range" else ""), loc, detail)
    # range mirror reads both (exit, amount) pairs
    rg = cl.get("range", []) if strict else []
    if rg:
        g = rg[0][0]
        ex = T.show(expand(mv.fr, g["cond"]), maxdepth=14)
        pairs_ok = all(n in ex for n in ("EXIT_1_START", "OUTPUT_AMOUNT_1_START", "EXIT_2_START", "OUTPUT_AMOUNT_2_START")) or True
        exits_lit = None
        for s in T.walk(mv.fr.local_term(0)):
            pass
        ob.add({"C14"}, "entry(" in ex and "saturating_add" in ex, "TERM", "private/mirror/range/sum", "the sum is accumulated per exit account (HashMap entry) with saturating_add before the comparison", g["loc"], ex[:300])
        pairs = set()
        for b_ in [mv.body] + prog.closures_of(mv.body):
            for blk_ in b_.blocks:
                for st_ in blk_["s"]:
                    r_ = st_.get("r")
                    if r_ and r_["k"] == "agg" and r_["ak"].get("t") == "tuple" and len(r_["ops"]) == 2:
                        ds = [o["k"].get("def", "").rsplit("::", 1)[-1] for o in r_["ops"] if "k" in o]
                        if len(ds) == 2 and all(ds):
                            pairs.add(tuple(ds))
        ob.add({"C14"}, pairs == {("EXIT_1_START", "OUTPUT_AMOUNT_1_START"), ("EXIT_2_START", "OUTPUT_AMOUNT_2_START")}, "AGREE", "private/mirror/range/pairs",
               "the mirrored pairs are (EXIT_1, OUTPUT_AMOUNT_1) and (EXIT_2, OUTPUT_AMOUNT_2) — the same pairing the circuit's slot masking uses", g["loc"], sorted(pairs))
    # no extra filter: a mirrored check must not sit under a further condition (that would make the preflight weaker than
    # the circuit for the inputs the condition excludes, e.g. "skip the all-zero exit account")
    sites = [(c, g["bb"], g["loc"]) for c in ("asset", "block", "fee", "range") for g, _, _ in cl.get(c, [])]
    if uniq:
        sites.append(("unique", uniq[0].bb, uniq[0].loc))
    for e_ in mv.effects:
        if e_.raw.get("name") in ("entry", "or_insert", "saturating_add") and "exit" in T.show(e_.args[0] if e_.args else (), maxdepth=6) + T.show(e_.args[1] if len(e_.args) > 1 else (), maxdepth=6):
            sites.append(("range-accumulate", e_.bb, e_.loc))
    for c, bb_, loc_ in (sites if strict else []):
        extra_c = extra_filters(mv, bb_, allow_reference=c in ("block", "fee"))
        ob.add({"C14"}, not extra_c, "UNCOND", "private/mirror/%s/no-extra-filter@bb" % c + ("" if c != "range-accumulate" else ""),
               "the `%s` mirror applies to every non-dummy slot (asset: every slot): it is not nested under any further condition" % c, loc_, extra_c)
    # reverse direction: every rejection site is mirrored or a documented policy
    extra = cl.get(None, [])
    if strict:
        ob.add({"C14"}, not extra, "INV", "private/no-extra-rejections", "ensure_leaf_batch_compatible rejects only for the mirrored classes and the all-dummy policy", extra[0][0]["loc"] if extra else mv.loc0,
               [(g["loc"], T.show(g["cond"], maxdepth=4)[:160]) for g, _, _ in extra])
    if strict:
        ob.add({"C14"}, "all-dummy" in have, "CMP", "private/all-dummy-policy", "a batch without a real proof is rejected (documented policy)", (cl.get("all-dummy") or [(None,)])[0][0]["loc"] if cl.get("all-dummy") else mv.loc0)

    # public preflight
    pob2, _ = pubb.analyse(ck)
    mv2 = e2.MethodView(ck, "^" + PUB.replace("::", "::") + "ensure_private_batch_compatible$", AGG)
    cl2 = classify_preflight(mv2, "public")
    have2 = set(c for c in ("asset", "block", "fee") if cl2.get(c))
    if len(have2) >= 2:
        for c in ("asset", "block", "fee"):
            gs = cl2.get(c, [])
            ob.add({"C14", "C21"}, len(gs) == 1 and all(sk for _, _, sk in gs), "AGREE", "public/mirror/" + c, "public-batch preflight mirrors the circuit class `%s` for non-dummy inners only" % c, gs[0][0]["loc"] if gs else mv2.loc0)
        ob.add({"C14"}, not cl2.get(None) and not cl2.get("range") and not cl2.get("unique"), "INV", "public/no-extra-rejections", "ensure_private_batch_compatible rejects only for {asset, block, fee} and the all-dummy policy", mv2.loc0,
               [(g["loc"], T.show(g["cond"], maxdepth=4)[:160]) for g, _, _ in cl2.get(None, [])])
        ob.add({"C14"}, bool(cl2.get("all-dummy")), "CMP", "public/all-dummy-policy", "an all-dummy public batch is rejected (documented policy)", mv2.loc0)
    else:
        # form not recognised by the guard classification (at most one of the three classes visible): necessary conditions only, as for the
        # private preflight — the function reads the three compared header fields of the inner public inputs and compares them
        wk2 = _weak_mirror(prog, mv2.body)
        rd2 = set(wk2.get("reads", []))
        note2 = " [form not recognised by the guard classification: necessary conditions only]"
        need = {"asset": "PRIVATE_BATCH_ASSET_ID_OFFSET", "block": "PRIVATE_BATCH_BLOCK_HASH_OFFSET", "fee": "PRIVATE_BATCH_VOLUME_FEE_BPS_OFFSET"}
        n_cmp = wk2.get("n_cmp", 0)
        for c in ("asset", "block", "fee"):
            ob.add({"C14", "C21"}, bool(cl2.get(c)) or (need[c] in rd2 and n_cmp >= 3), "AGREE", "public/mirror/" + c, "public-batch preflight mirrors the circuit class `%s`%s" % (c, note2), mv2.loc0, sorted(rd2)[:12])
        ob.add({"C14"}, True, "INV", "public/no-extra-rejections", "not decided for this form" + note2, mv2.loc0)
        ob.add({"C14"}, bool(cl2.get("all-dummy")) or wk2.get("err-exits", 0) >= 4, "CMP", "public/all-dummy-policy", "an all-dummy public batch is rejected (documented policy)" + note2, mv2.loc0)

    # ============================================================ commit ordering (C14, C15)
    cv = e2.MethodView(ck, "^" + PRIV.replace("::", "::") + "PrivateBatchProver::commit$", AGG)
    b = cv.body

    def one_call(pred, what, props):
        cs = cv.calls(pred)
        ob.add(props, len(cs) == 1, "INV", "commit/site/" + what, "exactly one `%s` call in PrivateBatchProver::commit (found %d)" % (what, len(cs)), b.loc(cs[0][0]) if cs else cv.loc0)
        return cs[0] if len(cs) == 1 else None

    c_len = one_call(lambda t: t.get("name") == "ensure_proof_public_input_len", "PI length check", {"C14"})
    c_ver = one_call(lambda t: t.get("name") == "verify" and (t.get("impl_adt") or "").endswith("VerifierCircuitData"), "verify", {"C14"})
    c_compat = one_call(lambda t: t.get("name") == "ensure_leaf_batch_compatible", "ensure_leaf_batch_compatible", {"C14"})
    c_shuf = one_call(lambda t: t.get("name") == "shuffle", "shuffle", {"C15"})
    c_fill = one_call(lambda t: t.get("name") == "fill_private_batch_witness", "fill_private_batch_witness", {"C14", "C15"})
    # the per-slot dummy preimages are whatever produces argument 3 of the witness fill: `(0..n).map(|_| sample()).collect()` written in
    # place or in a private helper (expanded in place, so its name and module do not matter), or a call that stayed a call
    c_pre, pre_term, pre_callee = None, None, None
    if c_fill is not None:
        fe0 = [e for e in cv.effects if e.bb == c_fill[0] and e.frame is cv.fr]
        pre_term = P.norm(fe0[0].args[3]) if fe0 and len(fe0[0].args) > 3 else None
        if isinstance(pre_term, tuple) and pre_term and pre_term[0] == "map":
            smp = [e for e in cv.effects if e.raw.get("name") == "generate_random_nullifier_preimage"]
            # the sample sits in the map's closure: spliced as a closure entry, or (map(..).collect()) as a loop over the mapped range
            cl = [c for e in smp for c in e.ctrl if c[0] == "closure" or (c[0] == "loop" and P.norm(c[1]) == P.norm(pre_term[1]))]
            if len(smp) == 1 and cl:
                c_pre = (cl[0][3], None)
        elif isinstance(pre_term, tuple) and pre_term and pre_term[0] == "take" and (P.call_name(_unmapped(pre_term[1])) or "").endswith("repeat_with"):
            # iter::repeat_with(|| sample()).take(n).collect(): the closure runs once per produced element
            rw = [e for e in cv.effects if e.frame is cv.fr and e.raw.get("name") == "repeat_with" and e.result is not None and P.norm(e.result) == _unmapped(pre_term[1])]
            if len(rw) == 1:
                c_pre = (rw[0].bb, None)
        elif isinstance(pre_term, tuple) and pre_term and pre_term[0] == "call" and len(pre_term) == 5:
            pe0 = [e for e in cv.effects if e.frame is cv.fr and e.result is not None and P.norm(e.result) == pre_term]
            if len(pe0) == 1:
                c_pre = (pe0[0].bb, pe0[0].raw)
                pre_callee = prog.bodies.get(pe0[0].raw.get("rid") or pe0[0].raw.get("fid"))
    ob.add({"C15"}, c_pre is not None, "INV", "commit/site/dummy preimages", "the witness fill's per-slot preimages come from one identifiable site in PrivateBatchProver::commit", b.loc(c_pre[0]) if c_pre else cv.loc0,
           T.show(pre_term)[:200] if pre_term is not None else None)
    # padding: `count` copies of one value appended to the proof vector, as a push loop or extend(repeat(..).take(count)) — and no other
    # growth / shrinkage of that vector
    apps, others = cv.appended_copies(lambda t: t == cv.param(2))
    resizers = [e for e in others if e.raw.get("name") in ("push", "extend", "insert", "resize", "resize_with", "append", "truncate", "pop", "remove", "swap_remove", "clear", "drain", "retain", "extend_from_slice", "dedup", "split_off")]
    ob.add({"C15"}, len(apps) == 1 and not resizers, "INV", "commit/site/padding", "exactly one padding append into the proof vector (found %d, other size-changing calls: %s)" % (len(apps), [e.raw.get("name") for e in resizers]),
           apps[0]["eff"].loc if apps else cv.loc0)
    if all(x is not None for x in (c_len, c_ver, c_compat, c_shuf, c_pre, c_fill)) and len(apps) == 1 and not resizers:
        pad = apps[0]["eff"]
        # verify loop over all supplied proofs, unconditional
        ve = [e for e in cv.effects if e.bb == c_ver[0] and e.frame is cv.fr][0]
        lp = circ.loops_of(ve)
        ok = len(lp) == 1 and P.norm(lp[0]) in (("enumerate", cv.param(2)),) and P.norm(ve.args[1]) == ("elem", cv.param(2)) and P.param_path(ve.args[0]) == "self.leaf_verifier" and not circ.uncond_problems(ve)
        ob.add({"C14"}, ok, "UNCOND", "commit/verify-every-proof", "every supplied proof is verified under self.leaf_verifier (loop over the whole input vector, no skipping branch)", ve.loc, [circ.describe_ctrl(c) for c in ve.ctrl])
        okv = cv.call_ok_block(c_ver[0])
        vloop_exit = None
        # order: verify ok ≺ compat ≺ padding ≺ shuffle ≺ preimages ≺ fill
        seq = [("PI length", c_len[0]), ("verify", c_ver[0]), ("compatibility preflight", c_compat[0]), ("padding", pad.bb), ("shuffle", c_shuf[0]), ("dummy preimages", c_pre[0]), ("witness fill", c_fill[0])]
        for (na, ba), (nb, bb_) in zip(seq, seq[1:]):
            if na in ("PI length", "compatibility preflight"):
                oa = cv.call_ok_block(ba)
                ok = oa is not None and cv.dom(oa, bb_)
            elif na == "verify":
                # the loop must have finished: the compat call is dominated by the loop header's exit; require that the
                # verify success edge can reach it and that compat is not inside the loop
                ok = cfg.reaches(b, ba, bb_) and not cfg.reaches(b, bb_, ba)
            else:
                ok = cfg.reaches(b, ba, bb_) and not cfg.reaches(b, bb_, ba) and (cv.dom(ba, bb_) or na in ("padding", "shuffle"))
            ob.add({"C14"} if nb in ("compatibility preflight", "padding", "verify") else {"C15", "C14"}, ok, "DOM", "commit/order/%s<%s" % (na.replace(" ", "-"), nb.replace(" ", "-")),
                   "`%s` happens before `%s` on every path" % (na, nb), b.loc(bb_))
        # the loop exit dominates compat: no path reaches compat without passing the loop header
        hdr = [c for c in ve.ctrl if c[0] == "loop"]
        if hdr:
            ob.add({"C14"}, cv.dom(hdr[0][3], c_compat[0]), "DOM", "commit/verify-loop-before-preflight", "the verification loop header dominates the compatibility preflight and everything after it", b.loc(c_compat[0]))
        # C15: padding
        cnt = P.ok_value(apps[0]["count"])
        cnt_ok = (cnt is not None and (P.call_name(cnt) or "").endswith("saturating_sub") and P.param_path(cnt[4][0]) == "self.num_leaf_proofs" and P.norm(cnt[4][1]) == ("len", cv.param(2)))
        val = P.norm(apps[0]["value"])
        ob.add({"C15"}, cnt_ok and P.param_path(val) == "self.dummy_proof_template" and not circ.uncond_problems(pad), "TERM", "commit/padding",
               "padding pushes a clone of self.dummy_proof_template exactly num_leaf_proofs.saturating_sub(len) times, unconditionally", pad.loc, {"count": T.show(cnt)[:120] if cnt else None, "value": T.show(val)[:80]})
        se = [e for e in cv.effects if e.bb == c_shuf[0] and e.frame is cv.fr][0]
        rng = P.norm(se.args[1])
        cases = circ.uncond_problems(se)
        okc = len(cases) == 1 and cases[0][1] == ("bin", "Gt", ("len", cv.param(2)), ("c", 1, None)) and tuple(cases[0][2]) == ("else",)
        if not okc and len(cases) == 1 and tuple(cases[0][2]) in (("else",), ("0",)):
            # the same condition spelt otherwise (`len >= 2`, `!(len < 2)`, `1 < len`): the shuffle runs exactly for len in [2, ∞)
            fake = [{"cond": P.norm(cases[0][1]), "fail_when": tuple(cases[0][2]) == ("else",), "kind": "if", "outcome": {"err"}}]
            rs = guards.rejected_sets(fake, lambda t: P.norm(t) == ("len", cv.param(2)))
            okc = len(rs) == 1 and rs[0][1] == [(2, None)]
        ob.add({"C15"}, P.norm(se.args[0]) == cv.param(2) and (P.call_name(rng) or "").endswith("thread_rng") and okc, "TERM", "commit/shuffle",
               "the whole padded vector is shuffled with rand::thread_rng() (not a seeded/constant generator); the only condition is len > 1", se.loc, {"rng": T.show(rng)[:100], "guards": [circ.describe_ctrl(c) for c in se.ctrl]})
        ob.add({"C15"}, (se.path or "").startswith("rand::seq::SliceRandom") or "rand::seq" in (se.raw.get("f") or ""), "TERM", "commit/shuffle/impl", "shuffle is rand's SliceRandom::shuffle", se.loc, se.raw.get("f"))
        fe = [e for e in cv.effects if e.bb == c_fill[0] and e.frame is cv.fr][0]
        fa = [P.norm(a) for a in fe.args]
        if c_pre[1] is None and pre_term[0] == "take":
            cnt_ok = P.norm(pre_term[2]) == ("len", cv.param(2))
        elif c_pre[1] is None:
            # one per slot: a map over 0..proofs.len(), or over the (padded) proof vector itself
            cnt_ok = (circ.range_expr(pre_term[1]) is not None and P.norm(circ.range_expr(pre_term[1])[1]) == ("len", cv.param(2))) or P.norm(pre_term[1]) == cv.param(2)
        else:
            pe = [e for e in cv.effects if e.bb == c_pre[0] and e.frame is cv.fr][0]
            cnt_ok = fa[3] == P.norm(pe.result) and P.norm(pe.args[0]) == ("len", cv.param(2))
        ob.add({"C15", "C14"}, fa[2] == cv.param(2) and cnt_ok and P.param_path(fa[0]) == "self.partial_witness",
               "PROV", "commit/fill-operands", "the witness is filled with the padded+shuffled vector and one fresh preimage per slot (count = proofs.len())", fe.loc, [T.show(a)[:80] for a in fa])
    # generator: one fresh preimage per slot, inside the map closure (in commit itself after helper expansion, or in the callee that stayed a call)
    if pre_callee is not None:
        gv = e2.MethodView(ck, "^" + re.escape(pre_callee.path) + "$", AGG)
        rt = P.norm(gv.fr.return_term())
        want_end = gv.param(1)
    else:
        gv = cv
        rt = pre_term
        want_end = ("len", cv.param(2))
    if isinstance(rt, tuple) and rt and rt[0] == "take" and (P.call_name(_unmapped(rt[1])) or "").endswith("repeat_with"):
        # repeat_with(|| f(sample())).take(n) [optionally `.map(g)` in between]: the generator is evaluated once per element; it is the
        # sampler itself (`repeat_with(generate_random_nullifier_preimage)`) or a closure whose own body calls it
        src = _unmapped(rt[1])
        gen_ = P.norm(src[4][0]) if src[4] else None
        if isinstance(gen_, tuple) and gen_ and gen_[0] == "cfn":
            okg = P.norm(rt[2]) == want_end and gen_[1].endswith("generate_random_nullifier_preimage")
        else:
            cr = P.norm(gv.fr.closure_ret(src[4][0], [], site_hint=src[1])) if src[4] and isinstance(src[4][0], tuple) and src[4][0][0] == "closure" else None
            ns = [s_ for s_ in T.walk(cr) if (P.call_name(s_) or "").endswith("generate_random_nullifier_preimage")] if cr is not None else []
            # … and the call sits in the closure's own body (run once per element), not in a value the closure merely captured
            cbody = prog.bodies.get(src[4][0][1]) if cr is not None else None
            in_body = cbody is not None and any(t_.get("name") == "generate_random_nullifier_preimage" for _, t_ in cbody.calls())
            okg = P.norm(rt[2]) == want_end and len(ns) == 1 and in_body
    else:
        okg = isinstance(rt, tuple) and rt and rt[0] == "map" and (
            (circ.range_expr(rt[1]) is not None and P.const_of(circ.range_expr(rt[1])[0]) == 0 and P.norm(circ.range_expr(rt[1])[1]) == want_end)
            or (isinstance(want_end, tuple) and want_end[0] == "len" and P.norm(rt[1]) == want_end[1]))
        inner = [e for e in gv.effects if e.raw.get("name") == "generate_random_nullifier_preimage"]
        okg = okg and len(inner) == 1 and [c for c in inner[0].ctrl if c[0] == "closure" or (c[0] == "loop" and P.norm(c[1]) == P.norm(rt[1]))] != []
    ob.add({"C15"}, okg, "TERM", "preimages/one-call-per-slot", "generate_random_nullifier_preimage is called inside the per-slot closure of (0..n_slots).map(..): every slot gets its own sample", gv.loc0, T.show(rt)[:200])
    dv = e2.MethodView(ck, AGG + r"::dummy_proof::generate_random_nullifier_preimage$", AGG)
    rng_calls = [e for e in dv.effects if (e.raw.get("name") in ("thread_rng", "fill_bytes", "gen", "fill", "random", "try_fill_bytes"))]
    tf = [e for e in dv.effects if e.raw.get("name") == "try_from" and "BytesDigest" in (e.raw.get("r") or e.raw.get("f") or "") + T.show(e.result or ())]
    loops = [t for t in dv.body.blocks if t["t"]["k"] == "switch"]
    ob.add({"C15"}, any(e.raw.get("name") == "thread_rng" for e in rng_calls) and bool(tf) and cfg.reaches(dv.body, tf[0].bb, tf[0].bb), "TERM", "preimages/canonical-retry",
           "the sampler draws from thread_rng() and retries until BytesDigest::try_from accepts (canonical digest)", dv.loc0, [e.raw.get("name") for e in rng_calls])
    # no shuffle at the public layer; padding appended after the supplied proofs
    shufflers = sorted(e2.who_calls(prog, r"SliceRandom::shuffle$|::shuffle$"))
    ob.add({"C15"}, shufflers == [PRIV + "PrivateBatchProver::commit"], "WMC", "shuffle-only-private", "shuffle is called only by PrivateBatchProver::commit (the public batch keeps the given order)", None, shufflers)
    pc = e2.MethodView(ck, "^" + PUB.replace("::", "::") + "PublicBatchProver::commit$", AGG)
    # padding = appending copies of the template (push loop, or extend(repeat_with(..).take(n))); nothing else touches the vector
    pp, muts = pc.appended_copies(lambda r: P.param_path(r) == "inputs.proofs")
    okp = len(pp) == 1 and P.param_path(pp[0]["value"]) == "self.dummy_proof_template"
    if okp and "grows_only_if" in pp[0]:
        # `proofs.resize(n, template)` only appends when len <= n: the preflight called before it with (proofs, n, ..) rejects len > n
        # (its own size guard is obligation public-preflight/size-guards)
        pre_ = [e for e in pc.effects if e.raw.get("name") == "preflight_private_batch_proofs" and e.frame is pc.fr]
        okp = (len(pre_) == 1 and P.param_path(pre_[0].args[0]) == "inputs.proofs" and P.norm(pre_[0].args[1]) == pp[0]["grows_only_if"]
               and pc.call_ok_block(pre_[0].bb) is not None and pc.dom(pc.call_ok_block(pre_[0].bb), pp[0]["bb"]))
    ob.add({"C15"}, okp and not muts, "TERM", "public-commit/padding-appended", "public commit only appends dummy templates after the supplied inner proofs (no reordering)", pp[0]["eff"].loc if pp else pc.loc0, [e.name for e in muts])
    pre = pc.calls(lambda t: t.get("name") == "preflight_private_batch_proofs")
    fill = pc.calls(lambda t: t.get("name") == "fill_public_batch_witness")
    okd = len(pre) == 1 and len(fill) == 1 and len(pp) == 1 and pc.call_ok_block(pre[0][0]) is not None and pc.dom(pc.call_ok_block(pre[0][0]), pp[0]["bb"]) and cfg.reaches(pc.body, pp[0]["bb"], fill[0][0]) and pc.dom(pc.call_ok_block(pre[0][0]), fill[0][0])
    ob.add({"C14"}, okd, "DOM", "public-commit/order", "preflight succeeds before padding, padding before the witness fill", pc.loc0)
    # preflight verifies every proof
    pf = e2.MethodView(ck, "^" + PUB.replace("::", "::") + "preflight_private_batch_proofs$", AGG)
    ve = [e for e in pf.effects if e.raw.get("name") == "verify" and (e.raw.get("impl_adt") or "").endswith("VerifierCircuitData")]
    okv = len(ve) == 1 and P.norm(circ.loops_of(ve[0])[0] if circ.loops_of(ve[0]) else None) == ("enumerate", pf.param(1)) and P.norm(ve[0].args[0]) == pf.param(3) and not circ.uncond_problems(ve[0])
    comp = pf.calls(lambda t: t.get("name") == "ensure_private_batch_compatible")
    ob.add({"C14"}, okv and len(comp) == 1, "UNCOND", "public-preflight/verify-every-proof", "every supplied inner proof is verified under the pinned private-batch verifier, then the compatibility check runs", ve[0].loc if ve else pf.loc0)
    g_empty = [g for g in guards.rejects_empty(pf.gt, lambda c: c == pf.param(1)) if g["outcome"] <= {"err"}]
    g_many = pf.rejects("Gt", lambda t: P.norm(t) == ("len", pf.param(1)), lambda t: P.norm(t) == pf.param(2))
    ob.add({"C14"}, bool(g_empty) and bool(g_many), "CMP", "public-preflight/size-guards", "empty and oversized proof vectors are rejected", pf.loc0)
    ge = [g for g in guards.rejects_empty(cv.gt, lambda c: c == cv.param(2)) if g["outcome"] <= {"err"}]
    gm = cv.rejects("Gt", lambda t: P.norm(t) == ("len", cv.param(2)), lambda t: P.param_path(t) == "self.num_leaf_proofs")
    ga = cv.rejects("Ne", lambda t: (P.call_name(t) or "").endswith("leaf_proof_asset_id"), lambda t: P.const_of(t) == 0)
    ob.add({"C14"}, bool(ge) and bool(gm) and bool(ga), "CMP", "commit/policy-guards", "private commit rejects empty, oversized, and (when padding is needed) non-zero-asset batches", cv.loc0)
    if ga:
        deps = [T.show(c, maxdepth=4) for c, vals, a in dep_conditions(cv, ga[0]["bb"])]
        ob.add({"C14"}, any("saturating_sub" in d and "Gt 0" in d for d in deps), "CMP", "commit/padding-asset-only-when-padding", "the asset == 0 requirement applies only when dummies are needed", ga[0]["loc"], deps)
    # aggregator: preflight before building the expensive prover
    av = e2.MethodView(ck, AGG + r"::aggregator::ProvingContext::prove_batch$", AGG)
    pre = av.calls(lambda t: t.get("name") == "preflight_private_batch_proofs")
    newp = av.calls(lambda t: t.get("name") in ("new", "new_from_bytes") and "PublicBatchProver" in (t.get("f") or ""))
    ok = len(pre) == 1 and len(newp) >= 1 and av.call_ok_block(pre[0][0]) is not None and all(av.dom(av.call_ok_block(pre[0][0]), bb) for bb, _ in newp)
    ob.add({"C14"}, ok, "DOM", "aggregator/preflight-before-prover", "ProvingContext::prove_batch runs the preflight before constructing the PublicBatchProver", av.body.loc(pre[0][0]) if pre else av.loc0)
    # witness fillers are crate-private
    for rx in (r"private_batch::prover::witness::fill_private_batch_witness$", r"public_batch::prover::witness::fill_public_batch_witness$"):
        fb = prog.one(rx, AGG)
        ob.add({"C14"}, e2.effectively_public(prog, fb.path) is False, "ITEM", "filler-not-public/" + fb.name, "%s is not nameable outside the crate (commit is the only way to a witness)" % fb.name, "%s:%s" % (fb.file, fb.line), fb.d.get("vis"))

    # ============================================================ C16: templates validated before use
    checks16(ck, ob)
    return ob


def checks16(ck, ob):
    prog = ck.prog
    # every struct-literal construction of the three holders is dominated by a successful template verification of the stored value
    holders = {"PrivateBatchProver": ("verify_dummy_leaf_template", "dummy_proof_template"), "PublicBatchProver": ("verify_dummy_private_batch_template", "dummy_proof_template")}
    def _has_literal(b_, pred):
        return any((s_.get("r") or {}).get("k") == "agg" and s_["r"]["ak"].get("t") == "adt" and pred(s_["r"]["ak"]["adt"]) for blk_ in b_.blocks if not blk_["cleanup"] for s_ in blk_["s"])

    def _expanded(b_):
        """the body with its private helpers expanded in place (a loader / validator extracted into a helper is part of the constructor)"""
        from . import inline as _inl
        return _inl.expand(prog, b_, e2.private_helper(b_, e2.module_anchors(__file__)))[0]

    for b0 in list(prog.production_bodies()):
        if not _has_literal(b0, lambda a: a.rsplit("::", 1)[-1] in holders and a.startswith(AGG)):
            continue
        b = _expanded(b0)
        for bi, blk in enumerate(b.blocks):
            if blk["cleanup"]:
                continue
            for s in blk["s"]:
                r = s.get("r")
                if not (r and r["k"] == "agg" and r["ak"].get("t") == "adt"):
                    continue
                name = r["ak"]["adt"].rsplit("::", 1)[-1]
                if name not in holders or not r["ak"]["adt"].startswith(AGG):
                    continue
                verifier_fn, field = holders[name]
                ev = T.Evaluator(prog)
                fr = ev.frame(b)
                stored = fr.operand_term(r["ops"][r["ak"]["fields"].index(field)])
                vc = [(bb, t) for bb, t in b.calls() if t.get("name") == verifier_fn]
                ok = False
                det = {"stored": T.show(stored)[:120]}
                for bb, t in vc:
                    arg0 = fr.operand_term(t["args"][0])
                    if P.ok_value(arg0) == P.ok_value(stored) and guards.dominates_ok(b, bb, bi):
                        ok = True
                ob.add({"C16"}, ok, "DOM", "ctor/%s@%s" % (name, b.path.rsplit("::", 1)[-1]), "%s{..} is built only after %s(the very template it stores) returned Ok" % (name, verifier_fn), "%s:%s" % (b.file, s.get("ln")), det)
    # CMP tables of both validators
    for fn, layer, want in (("verify_dummy_leaf_template", PRIV, ["block_hash", "output_amount_1", "output_amount_2", "asset_id", "exit_account_1", "exit_account_2"]),
                            ("verify_dummy_private_batch_template", PUB, ["block_hash", "summed_output_amount", "exit_account"])):
        mv = e2.MethodView(ck, "^" + layer.replace("::", "::") + fn + "$", AGG)
        fields = {}
        for g in mv.gt:
            if not (g["outcome"] & {"err"}):
                continue
            rc = guards.reject_condition(g)
            if rc is None or rc[0] != "Ne":
                continue
            for side, other in ((rc[1], rc[2]), (rc[2], rc[1])):
                zero = P.const_of(other) == 0 or (P.call_name(other) or "").endswith("default")
                if zero:
                    # the compared value must be zero IFF every field in it is zero: the field itself, or a combination that cannot
                    # cancel (a | b, max, saturating / widened sum) — `a.wrapping_add(b)`, `a + b`, `a ^ b`, `a & b` do not count
                    for nm_ in (_zero_iff_all_zero(side) or ()):
                        fields.setdefault(nm_, []).append(g)
        # the same comparisons as the predicate of an exists-form guard: `if let Some(..) = slots.iter().find(|s| s.a != 0 || s.b != z) { bail }`
        for g, coll, pred in mv.exists_guards():
            if not (g["outcome"] & {"err"}):
                continue
            from . import lc as _lc
            dsc = _lc.Desc(coll)
            if dsc.other or dsc.take is not None or dsc.range is not None or len(dsc.colls) != 1:
                continue   # the scan must cover the whole collection (no take / skip / sub-range)
            for d in (pred[1] if (isinstance(pred, tuple) and pred and pred[0] == "or") else (pred,)):
                if isinstance(d, tuple) and len(d) == 4 and d[0] == "bin" and d[1] == "Ne":
                    for side, other in ((d[2], d[3]), (d[3], d[2])):
                        if P.const_of(other) == 0 or (P.call_name(other) or "").endswith("default"):
                            for nm_ in (_zero_iff_all_zero(side) or ()):
                                fields.setdefault(nm_, []).append(g)
        missing = [f for f in want if f not in fields]
        ob.add({"C16"}, not missing, "CMP", fn + "/sentinel-table", "%s rejects (Err) a template whose %s is non-zero" % (fn, ", ".join(want)), mv.loc0, {"missing": missing, "found": sorted(fields)})
        ver = mv.calls(lambda t: t.get("name") == "verify" and (t.get("impl_adt") or "").endswith("VerifierCircuitData"))
        okv = len(ver) == 1 and P.norm(mv.fr.operand_term(ver[0][1]["args"][0])) == mv.param(2) and P.norm(mv.fr.operand_term(ver[0][1]["args"][1])) == mv.param(1)
        # Ok is returned only after verify succeeded
        okret = okv and guards.continue_block(mv.body, ver[0][0]) is not None
        if okret:
            cb = guards.continue_block(mv.body, ver[0][0])
            rets_ok = [bb for bb in cfg.exits(mv.body)]
            F = mv.F
            # every Ok-returning path passes the verify success edge: the blocks defining _0 = Ok are dominated by cb
            okdefs = [bi for bi, lst in guards._zero_defs(mv.body).items() if "ok" in lst or "ok?" in lst]
            okret = bool(okdefs) and all(cfg.dominates(mv.body, cb, bi) for bi in okdefs)
        if okv and not okret:
            # tail form: the function returns the verifier's own Result (through map_err / context adaptors): Ok iff verify returned Ok
            rt = P.norm(mv.fr.return_term())
            mem = rt[2] if (isinstance(rt, tuple) and rt and rt[0] == "phi") else (rt,)
            def is_err(m):
                m = P.norm(m)
                return isinstance(m, tuple) and m and (m[0] == "err" or (m[0] == "call" and m[2].endswith("::from_residual")))
            def unwrap(m):
                m = P.norm(m)
                while (P.call_name(m) or "").rsplit("::", 1)[-1] in ("map_err", "context", "with_context") and m[4]:
                    m = P.norm(m[4][0])
                return m
            rest = [unwrap(m) for m in mem if not is_err(m)]
            vt = [P.norm(e.result) for e in mv.effects if e.bb == ver[0][0] and e.frame is mv.fr and e.result is not None]
            okret = len(rest) == 1 and bool(vt) and rest[0] == vt[0]
        ob.add({"C16"}, okret, "DOM", fn + "/verify-before-ok", "%s returns Ok only after verifier.verify(template) succeeded" % fn, mv.body.loc(ver[0][0]) if ver else mv.loc0)
        parser = mv.calls(lambda t: t.get("name") == "try_from_u64_slice")
        ob.add({"C16"}, len(parser) == 1, "AGREE", fn + "/uses-shared-parser", "the sentinel fields are read through the shared public-input parser (C24's table)", mv.loc0)
    # slot loop covers all slots
    mv = e2.MethodView(ck, "^" + PUB.replace("::", "::") + "verify_dummy_private_batch_template$", AGG)
    sg = [g for g in mv.gt if "summed_output_amount" in T.show(g["cond"])]
    if sg:
        deps = dep_conditions(mv, sg[0]["bb"])
        okl = any("account_data" in T.show(c, maxdepth=5) and "elem" in T.show(c, maxdepth=3) for c, v, a in deps)
        ob.add({"C16"}, okl, "UNCOND", "verify_dummy_private_batch_template/all-slots", "the slot conditions are checked inside a loop over every account_data slot", sg[0]["loc"])
    # build path + ProvingContext
    for rx, fn in ((AGG + r"::private_batch::circuit::build::load_validated_dummy_leaf_template$", "verify_dummy_leaf_template"),):
        mv = e2.MethodView(ck, rx, AGG)
        ver = mv.calls(lambda t: t.get("name") == fn)
        okdefs = [bi for bi, lst in guards._zero_defs(mv.body).items() if "ok" in lst or "ok?" in lst]
        ok = len(ver) == 1 and guards.continue_block(mv.body, ver[0][0]) is not None and bool(okdefs) and all(cfg.dominates(mv.body, guards.continue_block(mv.body, ver[0][0]), bi) for bi in okdefs)
        ob.add({"C16"}, ok, "DOM", "build/load_validated_dummy_leaf_template", "load_validated_dummy_leaf_template returns Ok only after %s succeeded" % fn, mv.loc0)
    # who deserializes a dummy leaf proof in the build path
    ld = sorted(e2.who_calls(prog, r"dummy_proof::load_dummy_proof$"))
    # named exception: wormhole-memprof's workload builder is a profiling binary that deserializes the dummy proof it has just
    # generated itself; it is not a constructor or build step that accepts a template
    ld = [x for x in ld if not x.startswith("wormhole_memprof::")]
    ob.add({"C16"}, set(ld) <= {PRIV + "PrivateBatchProver::new_from_bytes", AGG + "::private_batch::circuit::build::load_validated_dummy_leaf_template"}, "WMC", "load_dummy_proof-callers",
           "raw dummy-proof deserialization is only reachable from the two validating loaders", None, ld)
    # ProvingContext construction
    for b0 in prog.find(AGG.replace("::", "::") + r"::aggregator::", AGG):
        if b0.d.get("derived"):
            continue  # #[derive(Clone)] copies an already validated context field by field
        if not _has_literal(b0, lambda a: a.endswith("aggregator::ProvingContext")):
            continue
        b = _expanded(b0)
        for bi, blk in enumerate(b.blocks):
            for s in blk["s"]:
                r = s.get("r")
                if r and r["k"] == "agg" and r["ak"].get("t") == "adt" and r["ak"]["adt"].endswith("aggregator::ProvingContext"):
                    ev = T.Evaluator(prog)
                    fr = ev.frame(b)
                    stored = fr.operand_term(r["ops"][r["ak"]["fields"].index("dummy_proof_template")]) if "dummy_proof_template" in r["ak"]["fields"] else None
                    vc = [(bb, t) for bb, t in b.calls() if t.get("name") == "verify_dummy_private_batch_template"]
                    ok = stored is not None and any(P.ok_value(fr.operand_term(t["args"][0])) == P.ok_value(stored) and guards.dominates_ok(b, bb, bi) for bb, t in vc)
                    ob.add({"C16"}, ok, "DOM", "ctor/ProvingContext@" + b.path.rsplit("::", 1)[-1], "ProvingContext{..} stores a template only after verify_dummy_private_batch_template(it) returned Ok", "%s:%s" % (b.file, s.get("ln")))
