"""E2 helpers: failing edges (error return / panic), guard tables (CMP rule), dominance between call sites (DOM rule),
must-pass-through (MPT), effect sets."""
import re
from . import cfg
from . import terms as T
from . import pat as P


def _zero_defs(body):
    """block -> list of ('err'|'ok') for definitions of _0 in that block, in order"""
    out = {}
    for bi, b in enumerate(body.blocks):
        if b["cleanup"]:
            continue
        lst = []
        for s in b["s"]:
            if "d" in s and s["d"]["l"] == 0:
                r = s["r"]
                kind = "ok"
                if r["k"] == "agg" and r["ak"].get("t") == "adt":
                    ak = r["ak"]
                    if ak["adt"] == "core::result::Result" and ak["variant"] == "Err":
                        kind = "err"
                    elif ak["adt"] == "core::option::Option" and ak["variant"] == "None":
                        kind = "err"
                elif r["k"] == "use" and "k" in r["a"] and r["a"]["k"].get("ty", "").startswith("core::option::Option") :
                    kind = "ok"
                if s["d"]["p"]:
                    # writes into a variant of _0, e.g. ((_0 as Err).0) = ..
                    pj = s["d"]["p"]
                    if pj and isinstance(pj[0], dict) and pj[0].get("dc") in ("Err", "None"):
                        kind = "err"
                    elif pj and isinstance(pj[0], dict) and pj[0].get("dc") in ("Ok", "Some"):
                        kind = "ok"
                lst.append(kind)
            if "setdiscr" in s and s["setdiscr"]["l"] == 0:
                pass
        t = b["t"]
        if t["k"] == "call" and t["dest"]["l"] == 0 and not t["dest"]["p"]:
            nm = t.get("name")
            f = t.get("f", "")
            if nm == "from_residual":
                lst.append("err")
            elif nm in ("from_output",):
                lst.append("ok")
            else:
                lst.append("ok?")   # result of a call stored directly into _0: unknown (treated as not-an-error)
        if lst:
            out[bi] = lst
    return out


class Fail:
    """per body: which switch edges lead only to an error return or a panic"""

    def __init__(self, body):
        self.body = body
        self.succ = cfg.succs(body)
        self.zd = _zero_defs(body)
        self._memo = {}

    def outcomes(self, b, state="unset"):
        """set of outcomes reachable from the entry of block b with last-def state `state`:
        'err', 'ok', 'ok?', 'unset' (a return with that last definition of _0) or 'panic' (diverges)"""
        key = (b, state)
        if key in self._memo:
            return self._memo[key]
        # collect the reachable (block, last-def state) graph, then solve outcome sets to a fixpoint (loops!)
        nodes = {}
        order = []
        stack = [key]
        while stack:
            n = stack.pop()
            if n in nodes:
                continue
            blk, st = n
            for k in self.zd.get(blk, []):
                st = k
            t = self.body.blocks[blk]["t"]
            base = set()
            nxt = []
            if t["k"] == "return":
                base.add(st)
            elif not self.succ[blk]:
                base.add("panic")
            else:
                nxt = [(s, st) for s in self.succ[blk]]
            nodes[n] = (base, nxt)
            order.append(n)
            for m in nxt:
                if m not in nodes:
                    stack.append(m)
        res = {n: set(nodes[n][0]) for n in nodes}
        changed = True
        while changed:
            changed = False
            for n in reversed(order):
                acc = res[n]
                before = len(acc)
                for m in nodes[n][1]:
                    acc |= res[m]
                if len(acc) != before:
                    changed = True
        for n in nodes:
            self._memo.setdefault(n, res[n])
        return res[key]

    def edge_fails(self, a, b):
        o = self.outcomes(b, "unset")
        # propagate the state at `a` is not needed: a failing edge defines _0 itself (Err) or panics
        return bool(o) and o <= {"err", "panic"}

    def edge_outcomes(self, a, b):
        return self.outcomes(b, "unset")


def guard_table(frame):
    """list of dicts {cond, fail_when, bb, loc, kind}: switch conditions with exactly one failing side.
    cond is the term of the switch operand; fail_when is True/False (the boolean value of cond that fails) for bool switches,
    or the list of discriminant values for others."""
    body = frame.body
    F = Fail(body)
    out = []
    for bi in cfg.rpo(body):
        blk = body.blocks[bi]
        if blk["cleanup"]:
            continue
        t = blk["t"]
        if t["k"] == "assert":
            cond = frame.operand_term(t["c"])
            out.append({"cond": cond, "fail_when": (not t["exp"]), "bb": bi, "loc": body.loc(bi), "kind": "assert:" + t.get("msg", ""), "outcome": {"panic"}})
            continue
        if t["k"] != "switch":
            continue
        succ = cfg.succs(body)[bi]
        fails = [s for s in succ if F.edge_fails(bi, s)]
        oks = [s for s in succ if s not in fails]
        if not fails or not oks:
            continue
        cond = frame.operand_term(t["d"])
        vals = []
        for s in fails:
            vals += cfg.switch_edge_value(body, bi, s)
        oc = set()
        for s in fails:
            oc |= F.edge_outcomes(bi, s)
        if t.get("dty") == "bool":
            fw = None
            if vals == ["0"]:
                fw = False
            elif vals == ["else"]:
                fw = True
            threaded, tfw = _thread_bool(frame, bi, t, fw) if fw is not None else (None, fw)
            if threaded:
                # `ensure!(a || b)` / `if !(a && b)`: the condition was materialised in a temporary assigned on several paths;
                # each non-constant assignment is its own guard, sitting in the block that computes it (control dependent on `a`)
                for (dbb, val, own_fw) in threaded:
                    c2, fw2 = _strip_not(val, tfw if own_fw is None else own_fw)
                    out.append({"cond": c2, "fail_when": fw2, "bb": dbb, "sbb": bi, "loc": body.loc(dbb), "kind": "if", "outcome": oc, "vals": vals})
                continue
            c2, fw2 = _strip_not(cond, fw)
            out.append({"cond": c2, "fail_when": fw2, "bb": bi, "sbb": bi, "loc": body.loc(bi), "kind": "if", "outcome": oc, "vals": vals})
        else:
            out.append({"cond": cond, "fail_when": vals, "bb": bi, "sbb": bi, "loc": body.loc(bi), "kind": "match", "outcome": oc, "vals": vals,
                        "arms": [a_[0] for a_ in t.get("arms", [])], "dty": t.get("dty")})
    return out


def _strip_not(cond, fw):
    """`!c` failing when v  ==  `c` failing when !v  (ensure!(!x) and if x { bail } are one guard)"""
    while isinstance(cond, tuple) and cond and cond[0] == "un" and cond[1] == "Not" and isinstance(fw, bool):
        cond = cond[2]
        fw = not fw
    return cond, fw


def _thread_bool(frame, sbb, term, fw):
    """if the switch operand is a temporary assigned on >= 2 paths that all fall straight into the switch block, return
    [(def block, value term)] for the non-constant assignments; constant assignments equal to the failing value make the whole
    thing unthreadable (returns None), constant assignments of the passing value contribute no guard"""
    op = term["d"]
    pl = op.get("c") or op.get("m")
    if pl is None or pl["p"]:
        return None, fw
    body = frame.body
    local = pl["l"]
    join = sbb
    # the switch may test `!tmp`, `not(tmp)` (anyhow's ensure!) or a copy of tmp: chase single definitions next to the switch
    for _ in range(3):
        defs = frame.defs.get(local, [])
        if len(defs) == 1 and defs[0][0] == "rv" and defs[0][1] == join:
            r = body.blocks[join]["s"][defs[0][2]]["r"]
            src = None
            if r["k"] == "un" and r["op"] == "Not":
                src, fw = r["a"], (not fw)
            elif r["k"] == "use":
                src = r["a"]
            spl = (src.get("c") or src.get("m")) if src else None
            if spl is None or spl["p"]:
                return None, fw
            local = spl["l"]
            continue
        if len(defs) == 1 and defs[0][0] == "call":
            cb = defs[0][1]
            ct = body.blocks[cb]["t"]
            if ct.get("name") == "not" and len(ct.get("args", [])) == 1 and ct.get("t") == join and not body.blocks[join]["s"] and len(cfg.preds(body)[join]) == 1:
                spl = ct["args"][0].get("c") or ct["args"][0].get("m")
                if spl is None or spl["p"]:
                    return None, fw
                local, fw, join = spl["l"], (not fw), cb
                continue
        break
    defs = frame.defs.get(local, [])
    if len(defs) < 2:
        return None, fw
    out = []
    sbb = join
    for (kind, bi, si) in defs:
        if kind == "call":
            # the value is a call result (`a == b` on a non-primitive type is a PartialEq::eq call): the call's continuation must fall
            # straight into the switch block
            cur, steps = body.blocks[bi]["t"].get("t"), 0
            while cur is not None and cur != sbb and steps < 3:
                s_ = cfg.succs(body)[cur]
                if len(s_) != 1 or body.blocks[cur]["t"]["k"] not in ("goto", "drop") or body.blocks[cur]["s"]:
                    return None, fw
                cur = s_[0]
                steps += 1
            if cur != sbb:
                return None, fw
            out.append((bi, frame.call_term(bi), None))
            continue
        # straight-line into the switch block
        cur, steps = bi, 0
        while cur != sbb and steps < 3:
            s = cfg.succs(body)[cur]
            tt = body.blocks[cur]["t"]
            if len(s) != 1 or tt["k"] not in ("goto", "drop"):
                return None, fw
            cur = s[0]
            steps += 1
        if cur != sbb:
            return None, fw
        val = frame.rvalue_term(body.blocks[bi]["s"][si]["r"])
        if isinstance(val, tuple) and val and val[0] == "c":
            if bool(val[1]) == fw:
                # `ensure!(a && b)`: the temporary is set to the failing constant on the path where `a` already decided; that path is
                # taken on one edge of the branch on `a` — which is therefore a guard of its own (fails when `a` takes that edge)
                ps = cfg.preds(body)[bi]
                if len(ps) != 1 or body.blocks[ps[0]]["t"]["k"] != "switch" or body.blocks[ps[0]]["t"].get("dty") != "bool" or body.blocks[bi]["s"][:si]:
                    return None, fw
                ev = cfg.switch_edge_value(body, ps[0], bi)
                if ev not in (["0"], ["else"]):
                    return None, fw
                out.append((ps[0], frame.operand_term(body.blocks[ps[0]]["t"]["d"]), ev == ["else"]))
            continue
        out.append((bi, val, None))
    return (out or None), fw


NEG = {"Lt": "Ge", "Le": "Gt", "Gt": "Le", "Ge": "Lt", "Eq": "Ne", "Ne": "Eq"}
FLIP = {"Lt": "Gt", "Le": "Ge", "Gt": "Lt", "Ge": "Le", "Eq": "Eq", "Ne": "Ne"}


def reject_condition(g):
    """normalise a guard to 'rejects when (a OP b)': returns (op, a, b) or None"""
    c = g["cond"]
    fw = g["fail_when"]
    if g.get("kind") == "match" and isinstance(fw, list) and g.get("arms") is not None and not (isinstance(c, tuple) and c and c[0] == "discr") and str(g.get("dty") or "").lstrip("ui").isdigit() or (
            g.get("kind") == "match" and isinstance(fw, list) and g.get("arms") is not None and g.get("dty") in ("usize", "isize", "u8", "u16", "u32", "u64", "u128", "i32", "i64") and not (isinstance(c, tuple) and c and c[0] == "discr")):
        # `match n { K => ok, other => fail }` on an integer is `n != K`; `match n { K => fail, _ => ok }` is `n == K`
        arms = [int(a) for a in g["arms"]]
        if fw == ["else"] and len(arms) == 1:
            return ("Ne", c, ("c", arms[0], None))
        if "else" not in fw and len(fw) == 1 and len(arms) >= 1:
            return ("Eq", c, ("c", int(fw[0]), None))
        return None
    if g.get("kind") == "match" and isinstance(fw, list) and isinstance(c, tuple) and len(c) == 2 and c[0] == "discr" and isinstance(c[1], tuple) and c[1] and c[1][0] == "call":
        # `match uM::try_from(x) { Ok(..) => .., Err(_) => fail }` on unsigned integers fails exactly when x > uM::MAX
        m_ = re.search(r"TryFrom<(u\d+|usize)> for (u\d+|usize)>::try_from$", c[1][2])
        if m_ and "1" in fw and "0" not in fw and len(c[1][4]) == 1:
            bits = lambda ty: 64 if ty == "usize" else int(ty[1:])
            if bits(m_.group(1)) > bits(m_.group(2)):
                return ("Gt", c[1][4][0], ("c", (1 << bits(m_.group(2))) - 1, None))
        return None
    neg = False
    while isinstance(c, tuple) and c and c[0] == "un" and c[1] == "Not":
        c = c[2]
        neg = not neg
    if not (isinstance(c, tuple) and c and c[0] == "bin" and c[1] in NEG):
        return None
    op, a, b = c[1], c[2], c[3]
    if fw is None or not isinstance(fw, bool):
        return None
    truth = fw
    if neg:
        truth = not truth
    if not truth:
        op = NEG[op]
    return (op, a, b)


def rejects(table, op, a_pred, b_pred):
    """guards that reject when (a OP b) up to operand flipping; a_pred/b_pred are predicates over terms"""
    hits = []
    for g in table:
        rc = reject_condition(g)
        if rc is None:
            continue
        o, a, b = rc
        if o == op and a_pred(a) and b_pred(b):
            hits.append(g)
        elif FLIP[o] == op and a_pred(b) and b_pred(a):
            hits.append(g)
    return hits


def _range_bounds(t):
    """(lo, hi_exclusive, [const terms]) of a Range / RangeInclusive value term with constant bounds, else None"""
    t = P.norm(t)
    if isinstance(t, tuple) and t and t[0] == "adt" and t[1].endswith(("ops::range::Range", "ops::range::RangeInclusive")):
        d = dict(t[3])
        lo, hi = P.const_of(d.get("start")), P.const_of(d.get("end"))
        if lo is not None and hi is not None:
            return lo, hi + (1 if t[1].endswith("RangeInclusive") else 0), [d.get("start"), d.get("end")]
    n = P.call_name(t)
    if n and n.endswith("RangeInclusive::<Idx>::new") or n and n.endswith("RangeInclusive::new"):
        lo, hi = P.const_of(t[4][0]), P.const_of(t[4][1])
        if lo is not None and hi is not None:
            return lo, hi + 1, [t[4][0], t[4][1]]
    return None


def rejected_sets(table, var_pred):
    """[(guard, intervals, const terms)]: for every guard that compares a term satisfying var_pred with integer constants, the set of
    values of that (unsigned) variable the guard rejects, as closed intervals (lo, hi) with hi None = unbounded.  Handles every
    comparison operator in either operand order and either polarity (`x == 0`, `x < 1`, `!(x >= 1)`, `MAX < x`, `x > MAX`,
    `!(1..=MAX).contains(&x)` …)."""
    out = []
    for g in table:
        fw = g["fail_when"]
        if not isinstance(fw, bool) and not (g.get("kind") == "match" and reject_condition(g) is not None):
            continue
        rc = reject_condition(g)
        if rc is not None:
            op, a, b = rc
            if var_pred(b) and not var_pred(a):
                op, a, b = FLIP[op], b, a
            c = P.const_of(b)
            if not var_pred(a) or c is None:
                continue
            iv = {"Eq": [(c, c)], "Ne": ([(0, c - 1)] if c > 0 else []) + [(c + 1, None)], "Lt": [(0, c - 1)] if c > 0 else [],
                  "Le": [(0, c)], "Gt": [(c + 1, None)], "Ge": [(c, None)]}[op]
            out.append((g, iv, [b]))
            continue
        c = g["cond"]
        n = P.call_name(c)
        if n and n.rsplit("::", 1)[-1] == "is_empty" and len(c[4]) == 1 and var_pred(("len", P.norm(c[4][0]))):
            # x.is_empty()  ==  x.len() == 0
            out.append((g, [(0, 0)] if fw else [(1, None)], []))
            continue
        if n and n.rsplit("::", 1)[-1] == "contains" and len(c[4]) == 2 and var_pred(c[4][1]):
            rb = _range_bounds(c[4][0])
            if rb is None:
                continue
            lo, hi, cts = rb
            inside = [(lo, hi - 1)] if hi > lo else []
            outside = ([(0, lo - 1)] if lo > 0 else []) + [(hi, None)]
            out.append((g, inside if fw else outside, cts))
    return out


def rejects_empty(table, coll_pred):
    """guards that fail (only) when a collection satisfying coll_pred is empty: `c.is_empty()`, `c.len() == 0`, `c.len() < 1`, …"""
    return [g for g, ivs, _ in rejected_sets(table, lambda t: isinstance(t, tuple) and len(t) == 2 and t[0] == "len" and coll_pred(P.norm(t[1]))) if ivs == [(0, 0)]]


def union_intervals(ivs):
    """normalised union of closed integer intervals (hi None = unbounded)"""
    ivs = sorted(ivs, key=lambda x: x[0])
    out = []
    for lo, hi in ivs:
        if out and (out[-1][1] is None or lo <= out[-1][1] + 1):
            if out[-1][1] is not None:
                out[-1] = (out[-1][0], None if hi is None else max(out[-1][1], hi))
        else:
            out.append((lo, hi))
    return out


def call_blocks(body, pred):
    """[(bb, terminator)] of calls whose terminator satisfies pred"""
    return [(bb, t) for bb, t in body.calls() if pred(t)]


def name_is(*names):
    def f(t):
        return t.get("name") in names
    return f


def path_matches(rx):
    import re
    r = re.compile(rx)

    def f(t):
        return bool(r.search(t.get("f", ""))) or bool(t.get("r") and r.search(t["r"]))
    return f


def continue_block(body, bb):
    """for a fallible call at `bb` consumed by `?` (Try::branch + switch) or by a match on its Result:
    the block reached only when the call succeeded; None if the result is not branched on"""
    # follow: call -> (branch call) -> switch(discr) ; pick the edge whose outcome is not err-only
    F = Fail(body)
    cur = bb
    for _ in range(6):
        s = cfg.succs(body)[cur]
        if len(s) != 1:
            break
        cur = s[0]
        t = body.blocks[cur]["t"]
        if t["k"] == "switch":
            oks = [x for x in cfg.succs(body)[cur] if not F.edge_fails(cur, x) and body.blocks[x]["t"]["k"] != "unreachable"]
            if len(oks) == 1:
                return oks[0]
            return None
    return None


def dominates_ok(body, a_bb, b_bb):
    """the *success* of the fallible call at a_bb dominates block b_bb (DOM rule); if the call's result is not
    branched on, falls back to plain dominance of the call block"""
    cb = continue_block(body, a_bb)
    if cb is not None:
        return cfg.dominates(body, cb, b_bb)
    return False


def plain_dominates(body, a_bb, b_bb):
    return a_bb != b_bb and cfg.dominates(body, a_bb, b_bb)


def bool_disjuncts(frame):
    """conditions (negation-free terms with polarity folded in) such that the boolean function of `frame` returns true iff at least
    one of them holds — for a body whose result is assigned on several paths by short-circuit evaluation (`a != 0 || b != z`):
    a constant-true assignment contributes the branch condition that leads to it, a non-constant assignment its value; a constant-false
    assignment contributes nothing.  A single assignment gives [value].  None when the shape is anything else."""
    body = frame.body
    defs = frame.defs.get(0, [])
    if len(defs) == 1:
        return [frame.return_term()]
    if len(defs) < 2:
        return None
    out = []
    for (kind, bi, si) in defs:
        if kind == "call":
            out.append(frame.call_term(bi))
            continue
        val = frame.rvalue_term(body.blocks[bi]["s"][si]["r"])
        if isinstance(val, tuple) and val and val[0] == "c":
            if not val[1]:
                continue
            # constant true: the edge that leads here
            cur, steps = bi, 0
            ps = cfg.preds(body)[cur]
            while len(ps) == 1 and body.blocks[ps[0]]["t"]["k"] in ("goto", "drop") and steps < 3:
                cur = ps[0]
                ps = cfg.preds(body)[cur]
                steps += 1
            if len(ps) != 1 or body.blocks[ps[0]]["t"]["k"] != "switch" or body.blocks[ps[0]]["t"].get("dty") != "bool":
                return None
            ev = cfg.switch_edge_value(body, ps[0], cur)
            if ev not in (["0"], ["else"]):
                return None
            cond = frame.operand_term(body.blocks[ps[0]]["t"]["d"])
            c2, pol = _strip_not(cond, ev == ["else"])
            if pol is False:
                if isinstance(c2, tuple) and len(c2) == 4 and c2[0] == "bin" and c2[1] in NEG:
                    c2 = ("bin", NEG[c2[1]], c2[2], c2[3])
                else:
                    c2 = ("un", "Not", c2)
            out.append(c2)
            continue
        out.append(val)
    return out
