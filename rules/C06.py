"""C06 — private-batch output is exactly the specified aggregate (DESIGN.md §5 C06)."""
from . import pb


def run(ck):
    ck.explanation = ("C06: ordered-append structure of the registered output vector of build_private_batch_constraints and the term shape of "
                      "every appended item (header references, masked/grouped exit slots, selected+sorted nullifiers, zero padding); offsets by value")
    ck.not_decided = ["numeric value of the outputs on concrete batches (plonky2 evaluation)", "sort_digests4 / bytes_digest_eq internals are C31 / C10"]
    ob, v = pb.analyse(ck)
    ob.emit(ck, "C06")
    ck.floor("ORDER", "pb/obligations", len([1 for it in ob.items if "C06" in it[0]]), 25, "C06 obligations evaluated")
