"""C16 — padding templates accepted only with the complete sentinel (DESIGN.md §5 C16)."""
from . import provers


def run(ck):
    ck.explanation = """C16: every struct-literal construction of PrivateBatchProver / PublicBatchProver / ProvingContext is dominated by a successful verify_dummy_*_template of the very value it stores; comparison tables of both validators (each sentinel field, Err edge) and verify-before-Ok; raw dummy-proof deserialization reachable only from validating loaders"""
    ck.not_decided = ["""value facts about a concrete template"""]
    ob = provers.analyse(ck)
    ob.emit(ck, "C16")
    ck.floor("INV", "provers/obligations", len([1 for it in ob.items if "C16" in it[0]]), 10, "C16 obligations evaluated")
