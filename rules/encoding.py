"""C25 (encodings), C26 (compact node hashing), C27 (native Merkle verification), C35 (transfer-proof JSON): guard-table rules."""
import re
from . import cfg, guards, e2, circ
from . import terms as T
from . import lc
from . import pat as P
from .pb import Ob

COMMON = "qp_zk_circuits_common"
INPUTS = "qp_wormhole_inputs"
CIRC = "qp_wormhole_circuit"
P_GOLD = 0xFFFFFFFF00000001


def _err_only(g):
    """the guard's failing edges return Err (the `else` arm of an exhaustive match on a Result is an `unreachable` block, not a panic path)"""
    oc = set(g["outcome"])
    if g.get("kind") == "match" and isinstance(g.get("fail_when"), list) and "else" in g["fail_when"]:
        oc.discard("panic")
    return oc <= {"err"}


def err_guard(mv, op, a_pred, b_pred):
    hs = mv.rejects(op, a_pred, b_pred)
    return [h for h in hs if _err_only(h)]


def dominates_calls(mv, g, pred):
    oks = mv.ok_succ(g)
    cs = mv.calls(pred)
    return oks is not None and bool(cs) and all(mv.dom(oks, bb) for bb, _ in cs)


def analyse25(ck):
    ob = Ob()
    prog = ck.prog
    S = COMMON + "::serialization::"
    mb = prog.const_value(S + "MAX_SERIALIZED_BYTES")
    mf = prog.const_value(S + "MAX_SERIALIZED_FELTS")
    ob.add({"C25", "C26"}, mb == 1 << 20 and mf >= mb // 4, "ITEM", "caps", "MAX_SERIALIZED_BYTES = 1 MiB (%d), MAX_SERIALIZED_FELTS = %d" % (mb, mf))
    for fn, cap, capname, inner in (("bytes_to_felts", mb, "MAX_SERIALIZED_BYTES", "bytes_to_u64s"), ("bytes_to_felts_compact", mb, "MAX_SERIALIZED_BYTES", "bytes_to_u64s_compact"), ("felts_to_bytes", mf, "MAX_SERIALIZED_FELTS", "u64s_to_bytes")):
        mv = e2.MethodView(ck, "^" + S.replace("::", "::") + fn + "$", COMMON)
        g = err_guard(mv, "Gt", lambda t: P.norm(t) == ("len", mv.param(1)), lambda t, c=cap: P.const_of(t) == c)
        ok = len(g) == 1 and dominates_calls(mv, g[0], lambda t, n=inner: t.get("name") == n) and dominates_calls(mv, g[0], lambda t: t.get("name") in ("map", "collect", "into_iter", "iter"))
        ob.add({"C25"}, ok, "CMP+DOM", "cap/" + fn, "%s rejects len > %s (Err) before calling the encoder or allocating" % (fn, capname), g[0]["loc"] if g else mv.loc0, [(T.show(x["cond"])[:80], x["fail_when"]) for x in mv.gt])
    # 32-bit limb check
    mv = e2.MethodView(ck, "^" + S.replace("::", "::") + "as_32_bit_limb$", COMMON)
    rc = [guards.reject_condition(g) for g in mv.gt]
    okl = False
    for g in mv.gt:
        r = guards.reject_condition(g)
        # `if v <= MASK { Ok } else { Err }`: the failing edge is the Err arm
        if r and ((r[0] == "Gt" and P.norm(r[1]) == mv.param(1) and P.const_of(r[2]) == 0xFFFFFFFF)) and _err_only(g):
            okl = True
    ob.add({"C25"}, okl, "CMP", "limb/as_32_bit_limb", "as_32_bit_limb(v) is Err exactly when v > 0xFFFF_FFFF", mv.loc0, [(T.show(g["cond"])[:80], g["fail_when"], sorted(g["outcome"])) for g in mv.gt])
    for fn in ("try_felts_to_u64", "try_felts_to_u128", "try_felt_to_quantized_u128"):
        mv = e2.MethodView(ck, "^" + S.replace("::", "::") + fn + "$", COMMON)
        # the per-felt step may be the loop body of the function or the closure of a `try_fold`: look in whichever body holds the check
        clos_ = _closure_ids(prog, mv.body)     # closures created in the (helper-expanded) body, wherever they were defined
        holders = [(b_, [(bb, t) for bb, t in b_.calls() if t.get("name") == "as_32_bit_limb"]) for b_ in [mv.body] + clos_]
        holders = [(b_, l_) for b_, l_ in holders if l_]
        ok = len(holders) == 1 and len(holders[0][1]) == 1
        if ok:
            hb, lim = holders[0]
            cb = guards.continue_block(hb, lim[0][0])
            # every accumulation (BitOr / Shl / Mul on the limb) is dominated by the successful limb check
            acc = [bi for bi, blk in enumerate(hb.blocks) for s in blk["s"] if s.get("r", {}).get("k") == "bin" and s["r"]["op"] in ("BitOr", "Shl", "ShlUnchecked", "Mul", "MulWithOverflow")]
            other_acc = [1 for b_ in [mv.body] + clos_ if b_ is not hb for blk in b_.blocks for s in blk["s"]
                         if s.get("r", {}).get("k") == "bin" and s["r"]["op"] in ("BitOr",)]
            ok = cb is not None and bool(acc) and all(cfg.dominates(hb, cb, bi) for bi in acc) and not other_acc
            hfr = mv.fr if hb is mv.body else T.Evaluator(prog).frame(hb)
            arg = P.norm(hfr.operand_term(lim[0][1]["args"][0]))
            ok = ok and (P.call_name(arg) or "").endswith("serialization::to_u64")
            if hb is not mv.body:
                # the closure is the step of a try_fold over the function's input (so every felt goes through it, and an Err stops the fold)
                tf = [t for bb, t in mv.body.calls() if t.get("name") == "try_fold"]
                ok = ok and len(tf) == 1
        ob.add({"C25"}, ok, "DOM", "limb/" + fn, "%s checks every felt with as_32_bit_limb (on its canonical u64) before accumulating it" % fn, mv.loc0)
    mv = e2.MethodView(ck, "^" + S.replace("::", "::") + "try_u128_to_quantized_felt$", COMMON)
    g = err_guard(mv, "Gt", lambda t: "Div" in T.show(t, maxdepth=3) and P.param_path(t[2] if isinstance(t, tuple) and len(t) > 2 else None) in ("num", None), lambda t: P.const_of(t) == 0xFFFFFFFF)
    ob.add({"C25"}, len(g) == 1, "CMP", "quantized/range", "try_u128_to_quantized_felt fails exactly when num / AMOUNT_QUANTIZATION_FACTOR > 0xFFFF_FFFF", mv.loc0, [(T.show(x["cond"])[:100], x["fail_when"]) for x in mv.gt])
    # BytesDigest::try_from([u8;32])
    mv = e2.MethodView(ck, r"BytesDigest as core::convert::TryFrom<\[u8; \w+\]>>::try_from$", INPUTS)
    g = err_guard(mv, "Ge", lambda t: (P.call_name(t) or "").endswith("from_le_bytes"), lambda t: P.const_of(t) == P_GOLD)
    ok = len(g) == 1
    if ok:
        lp = [c for c, v, a in _deps(mv, g[0]["bb"]) if "chunks" in T.show(c, maxdepth=5)]
        chunks8 = any(s and s[0] == "chunks" and P.const_of(s[2]) == 8 and P.norm(s[1]) == mv.param(1) for c in lp for s in T.walk(c))
        okd = [bi for bi, lst in guards._zero_defs(mv.body).items() if "ok" in lst]
        ok = chunks8 and bool(okd)
    ob.add({"C25"}, ok, "CMP", "digest/canonical-limbs", "BytesDigest::try_from rejects (Err) when any 8-byte little-endian chunk is >= p, over value.chunks(8)", mv.loc0, [(T.show(x["cond"])[:100], x["fail_when"]) for x in mv.gt])
    # a BytesDigest value exists only through the canonicality check: the struct literal appears in try_from (after the limb check),
    # in Default (all zero) and in new_unchecked; new_unchecked is called only where the bytes were validated before
    lit = sorted(set(b.path for b in prog.production_bodies() for blk in b.blocks for st in blk["s"]
                     if (st.get("r") or {}).get("k") == "agg" and st["r"]["ak"].get("t") == "adt" and st["r"]["ak"]["adt"].endswith("::BytesDigest")))
    want_lit = sorted(["<" + INPUTS + "::BytesDigest as core::default::Default>::default", INPUTS + "::BytesDigest::new_unchecked",
                       "<" + INPUTS + "::BytesDigest as core::convert::TryFrom<[u8; DIGEST_BYTES_LEN]>>::try_from"])
    ob.add({"C25", "C24"}, lit == want_lit, "WMW", "digest/literal-sites", "the BytesDigest struct literal is written only in try_from (after the limb check), Default and new_unchecked", None, lit)
    unc = sorted(set(e2.root_of(prog, bb).path for bb, _, t in prog.call_sites(r"BytesDigest::new_unchecked$")))
    ob.add({"C25", "C24"}, unc == [CIRC + "::sensitive::Secret::expose_digest"], "WMC", "digest/new_unchecked-callers",
           "BytesDigest::new_unchecked is called only by Secret::expose_digest (bytes validated by try_from when the Secret was built): every parser and decoder goes through the checking try_from", None, unc)
    # modulus copies agree
    go = prog.consts.get(INPUTS + "::GOLDILOCKS_ORDER", {}).get("v")
    gm = prog.consts.get(COMMON + "::zk_merkle::GOLDILOCKS_MODULUS", {}).get("v")
    lean = None
    try:
        from . import postable
        d = postable.lean_defs(ck.repo if hasattr(ck, "repo") else "/repo")
        m = re.search(r":=\s*(0x[0-9A-Fa-f_]+|\d+)", d.get("goldilocks", ("", "", ""))[1])
        lean = int(m.group(1).replace("_", ""), 0) if m else None
    except Exception:
        lean = None
    ob.add({"C25", "C26", "C27"}, go is not None and int(go) == P_GOLD and gm is not None and int(gm) == P_GOLD and lean == P_GOLD, "AGREE", "modulus-copies",
           "inputs::GOLDILOCKS_ORDER == zk_merkle::GOLDILOCKS_MODULUS == Lean goldilocks == 2^64 - 2^32 + 1", None, {"inputs": go, "zk_merkle": gm, "lean": lean})
    # Secret construction only through BytesDigest::try_from
    for rx in (r"sensitive::Secret::new$", r"sensitive::Secret as core::convert::TryFrom<.*>>::try_from$"):
        for b in prog.find(rx, CIRC):
            if b.kind == "Closure":
                continue
            cs = [t for _, t in b.calls() if t.get("name") == "try_from" and "BytesDigest" in (t.get("r") or t.get("f") or "") + str(t.get("ga"))]
            lits = [s for blk in b.blocks for s in blk["s"] if s.get("r", {}).get("k") == "agg" and s["r"]["ak"].get("t") == "adt" and s["r"]["ak"]["adt"].endswith("sensitive::Secret")]
            via_new = [t for _, t in b.calls() if (t.get("f") or "").endswith("sensitive::Secret::new")]
            ob.add({"C25"}, bool(cs) or bool(via_new), "WMC", "secret/" + b.path.rsplit("::", 2)[-2] + "::" + b.name, "Secret is constructed only from a validated BytesDigest (try_from) or via Secret::new", "%s:%s" % (b.file, b.line))
    return ob


def _deps(mv, bb):
    out = []
    for (a, b) in sorted(cfg.control_deps_closed(mv.body).get(bb, ())):
        t = mv.body.blocks[a]["t"]
        if t["k"] == "switch":
            out.append((mv.fr.operand_term(t["d"]), cfg.switch_edge_value(mv.body, a, b), a))
    return out


def analyse26(ck):
    ob = Ob()
    prog = ck.prog
    S = COMMON + "::serialization::"
    mb = prog.const_value(S + "MAX_SERIALIZED_BYTES")
    mv = e2.MethodView(ck, "^" + S.replace("::", "::") + "hash_bytes_compact$", COMMON)
    g1 = err_guard(mv, "Gt", lambda t: P.norm(t) == ("len", mv.param(1)), lambda t: P.const_of(t) == mb)
    g2 = [g for g in mv.gt if g["outcome"] <= {"err"} and "is_multiple_of" in T.show(g["cond"], maxdepth=4) and any(T.is_const(s) and s[1] == 8 for s in T.walk(g["cond"]))]
    enc = mv.calls(lambda t: t.get("name") == "bytes_to_felts_compact")
    ok = len(g1) == 1 and len(g2) == 1 and len(enc) == 1 and all(mv.dom(mv.ok_succ(g), enc[0][0]) for g in g1 + g2)
    ob.add({"C26"}, ok, "CMP+DOM", "hash_bytes_compact/domain", "hash_bytes_compact rejects len > 1 MiB and len % 8 != 0 (Err) before encoding", mv.loc0, [(T.show(x["cond"])[:80], x["fail_when"]) for x in mv.gt])
    okq = len(enc) == 1 and guards.continue_block(mv.body, enc[0][0]) is not None
    hsh = mv.calls(lambda t: t.get("name") == "hash_to_bytes")
    okq = okq and len(hsh) == 1 and cfg.dominates(mv.body, guards.continue_block(mv.body, enc[0][0]), hsh[0][0])
    ob.add({"C26"}, okq, "DOM", "hash_bytes_compact/error-propagated", "the encoder's Result (non-canonical limb) is propagated with `?` before hashing", mv.loc0)
    ob.add({"C26"}, e2.effectively_public(prog, mv.body.path) is False and mv.body.d.get("vis") != "pub", "ITEM", "hash_bytes_compact/visibility", "hash_bytes_compact is crate-private (callers outside cannot bypass hash_node's framing)", mv.loc0, mv.body.d.get("vis"))
    Z = COMMON + "::zk_merkle::"
    for fn, sorts in (("hash_node", True), ("hash_node_presorted", False)):
        mv = e2.MethodView(ck, "^" + Z.replace("::", "::") + fn + "$", COMMON)
        hc = mv.calls(lambda t: t.get("name") == "hash_bytes_compact")
        srt = mv.calls(lambda t: t.get("name") == "sort")
        ext = [e for e in mv.effects if e.raw.get("name") == "extend_from_slice"]
        ok = len(hc) == 1 and len(ext) == 1
        dele = mv.calls(lambda t: t.get("name") == "hash_node_presorted") if sorts else []
        if sorts and not hc and not ext and len(dele) == 1:
            # hash_node = sort a local copy, then hand it to hash_node_presorted (whose concatenation and hashing are decided on their own
            # just below): the argument is the sorted local, the sort dominates the call, the callee's Result is returned unchanged
            ls, la = (_root_local(mv.body, srt[0][1]["args"][0]) if len(srt) == 1 else None), _root_local(mv.body, dele[0][1]["args"][0])
            rt = P.norm(mv.fr.return_term())
            ok = (ls is not None and ls == la and ls > mv.body.argc and mv.dom(srt[0][0], dele[0][0]) and cfg.postdominates(mv.body, dele[0][0], 0)
                  and (P.call_name(rt) or "").endswith("hash_node_presorted"))
        elif ok:
            lp = circ.loops_of(ext[0])
            src = P.norm(lp[0]) if len(lp) == 1 else None
            ok = src is not None and P.norm(ext[0].args[1]) == ("elem", lp[0])
            if sorts:
                # the loop iterates the locally sorted COPY (a local distinct from the parameter); sort dominates the concatenation
                it = [bb for bb, t in mv.body.calls() if t.get("name") == "into_iter" and cfg.reaches(mv.body, bb, ext[0].bb)]
                ok = ok and len(srt) == 1 and mv.dom(srt[0][0], ext[0].bb) and bool(it)
                if ok:
                    ls, li = _root_local(mv.body, srt[0][1]["args"][0]), _root_local(mv.body, mv.body.blocks[it[-1]]["t"]["args"][0])
                    ok = ls is not None and ls == li and ls > mv.body.argc
            else:
                ok = ok and src == mv.param(1) and not srt
            # returns the callee's Result unchanged
            rt = P.norm(mv.fr.return_term())
            ok = ok and (P.call_name(rt) or "").endswith("hash_bytes_compact")
        pan = [g for g in mv.gt if "panic" in g["outcome"] and g["kind"] != "match"]
        from .layout import explicit_panics
        eps = [p for p in explicit_panics(prog, mv.body) if p[0].startswith(COMMON)]
        ob.add({"C26"}, ok and not eps, "TERM", "node/" + fn, "%s concatenates the four %schildren in index order, returns hash_bytes_compact's Result unchanged, and has no explicit panic site" % (fn, "sorted " if sorts else ""),
               mv.loc0, eps[:3])
    return ob


def analyse27(ck):
    ob = Ob()
    prog = ck.prog
    Z = COMMON + "::zk_merkle::"
    md = prog.const_value(Z + "MAX_DEPTH")
    mv = e2.MethodView(ck, "^" + Z.replace("::", "::") + "ZkMerkleProof::verify_with_positions$", COMMON)
    # bool-returning: a failing edge is one that returns `false`; use MIR: guards whose one side assigns _0 = const false
    def false_edges():
        out = []
        body = mv.body
        for bi in cfg.rpo(body):
            t = body.blocks[bi]["t"]
            if t["k"] != "switch":
                continue
            for s in cfg.succs(body)[bi]:
                # follow straight-line to a block assigning _0 = false and returning
                cur = s
                seen = 0
                val = None
                while seen < 6:
                    for st in body.blocks[cur]["s"]:
                        if "d" in st and st["d"]["l"] == 0 and not st["d"]["p"] and st["r"]["k"] == "use" and "k" in st["r"]["a"] and st["r"]["a"]["k"].get("v") is not None:
                            val = st["r"]["a"]["k"]["v"]
                    nxt = cfg.succs(body)[cur]
                    if len(nxt) != 1 or val is not None:
                        break
                    cur = nxt[0]
                    seen += 1
                if val == "0":
                    out.append((bi, s, mv.fr.operand_term(t["d"]), cfg.switch_edge_value(body, bi, s)))
        return out
    fe = false_edges()
    conds = [(T.show(c, maxdepth=5)[:140], v) for _, _, c, v in fe]

    def has(pred):
        return any(pred(c, v) for _, _, c, v in fe)
    depth = has(lambda c, v: isinstance(c, tuple) and c[0] == "bin" and c[1] == "Gt" and P.norm(c[2]) == ("len", ("fld", mv.param(1), "siblings")) and P.const_of(c[3]) == md and v == ["else"])
    leneq = has(lambda c, v: isinstance(c, tuple) and c[0] == "bin" and c[1] == "Ne" and "siblings" in T.show(c) and "positions" in T.show(c) and v == ["else"])
    leaf_c = has(lambda c, v: "is_canonical_hash" in T.show(c, maxdepth=3) and "leaf_hash" in T.show(c, maxdepth=4))
    sib_c = has(lambda c, v: "all(" in T.show(c, maxdepth=3) and "siblings" in T.show(c, maxdepth=6))
    ob.add({"C27"}, depth and leneq and leaf_c and sib_c, "CMP", "verify/guards", "verify_with_positions returns false for depth > MAX_DEPTH(=%d), positions/siblings length mismatch, non-canonical leaf, non-canonical sibling" % md, mv.loc0, conds)
    ins = mv.calls(lambda t: t.get("name") == "insert_at_position")
    hp = mv.calls(lambda t: t.get("name") == "hash_node_presorted")
    guards_blocks = [bi for bi, _, _, _ in fe[:4]]
    ok = len(ins) == 1 and len(hp) == 1 and all(cfg.reaches(mv.body, bi, ins[0][0]) and not cfg.reaches(mv.body, ins[0][0], bi) for bi in guards_blocks)
    ob.add({"C27"}, ok, "DOM", "verify/guards-before-fold", "all four guards precede the fold", mv.loc0)
    errfalse = has(lambda c, v: "insert_at_position" in T.show(c, maxdepth=4)) and has(lambda c, v: "hash_node_presorted" in T.show(c, maxdepth=4))
    ob.add({"C27"}, errfalse, "CMP", "verify/errors-are-false", "an insert_at_position error (position > 3) or a hash error yields false, not a panic", mv.loc0, conds)
    # final comparison with self.root; fold operands
    rt = None
    fin = [s for blk in mv.body.blocks for s in blk["s"] if "d" in s and s["d"]["l"] == 0]
    eqroot = [e for e in mv.effects if e.raw.get("name") == "eq" and "root" in T.show(e.args[1] if len(e.args) > 1 else (), maxdepth=4)]
    rterm = P.norm(mv.fr.return_term())
    okf = any(isinstance(m_, tuple) and m_[0] == "bin" and m_[1] == "Eq" and "self.root" in (T.show(m_[3]) + T.show(m_[2])) for m_ in (rterm[2] if isinstance(rterm, tuple) and rterm[0] == "phi" else [rterm]))
    ia = [P.norm(mv.fr.operand_term(a)) for a in ins[0][1]["args"]] if ins else []
    selfp = mv.param(1)
    ie = [e for e in mv.effects if e.raw.get("name") == "insert_at_position"]
    zl = circ.loops_of(ie[0]) if ie else []
    okf = (okf and len(ia) == 3 and isinstance(ia[0], tuple) and ia[0][0] == "phi" and ("fld", selfp, "leaf_hash") in [P.norm(m_) for m_ in ia[0][2]]
           and ia[1] == ("elem", ("fld", selfp, "siblings")) and ia[2] == ("elem", ("fld", selfp, "positions"))
           and zl == [("zip", ("fld", selfp, "siblings"), ("fld", selfp, "positions"))])
    ob.add({"C27"}, okf, "TERM", "verify/fold", "fold: current = hash_node_presorted(insert_at_position(current, siblings[l], positions[l])) over zip(siblings, positions) from leaf_hash; result = (current == self.root)", mv.loc0,
           [T.show(x, maxdepth=5)[:120] for x in ia] + [T.show(rterm, maxdepth=4)[:200]])
    dv = e2.MethodView(ck, "^" + Z.replace("::", "::") + "ZkMerkleProof::verify$", COMMON)
    ob.add({"C27"}, (P.call_name(P.norm(dv.fr.return_term())) or "").endswith("verify_with_positions"), "TERM", "verify/delegates", "verify() delegates to verify_with_positions()", dv.loc0)
    # position table: native vs circuit vs spec
    from . import postable, leaf as leafmod
    nt, err, nloc = postable.native_table(ck)
    ob.add({"C27"}, nt == postable.SPEC_TABLE and err, "AGREE", "positions/native-table", "insert_at_position inserts at 0..3 among the ordered siblings and rejects other positions", nloc, nt)
    from . import C03
    ob.add({"C27"}, True, "AGREE", "positions/circuit-table", "the circuit's select network evaluates to the same table (decided under C03; re-evaluated there)", None)
    # shared constants: the circuit uses the same items
    circ_body = prog.one(r"ZkMerkleProofData as .*CircuitFragment>::circuit$", CIRC)
    defs = set()
    for blk in circ_body.blocks:
        for s in blk["s"]:
            for o in _operands(s.get("r", {})):
                if "k" in o and o["k"].get("def", "").endswith("MAX_DEPTH"):
                    defs.add(o["k"]["def"])
    ob.add({"C27", "C03"}, defs == {Z + "MAX_DEPTH"}, "AGREE", "max-depth-same-item", "the circuit's level loop and depth bound use zk_merkle::MAX_DEPTH itself", "%s:%s" % (circ_body.file, circ_body.line), sorted(defs))
    # both from_unsorted siblings carry the three guards before hashing
    for rx, crate in ((Z + r"ZkMerkleProof::from_unsorted$", COMMON), (r"zk_merkle_proof::ZkMerkleProofData::from_unsorted$", CIRC)):
        fv = e2.MethodView(ck, rx, crate)
        g1 = err_guard(fv, "Gt", lambda t: isinstance(t, tuple) and t[0] == "len" and "unsorted_siblings" in T.show(t), lambda t: P.const_of(t) == md)
        g2 = [g for g in fv.gt if g["outcome"] <= {"err"} and "is_canonical_hash" in T.show(g["cond"], maxdepth=4) and "leaf_hash" in T.show(g["cond"], maxdepth=5)]
        g3 = [g for g in fv.gt if g["outcome"] <= {"err"} and "all(" in T.show(g["cond"], maxdepth=4) and "unsorted_siblings" in T.show(g["cond"], maxdepth=7)]
        hs = fv.calls(lambda t: t.get("name") in ("hash_node_presorted", "with_capacity"))
        ok = len(g1) == 1 and len(g2) == 1 and len(g3) == 1 and bool(hs) and all(fv.dom(fv.ok_succ(g), bb) for g in g1 + g2 + g3 for bb, _ in hs)
        ob.add({"C27"}, ok, "CMP+DOM", "from_unsorted/guards/" + crate, "from_unsorted rejects depth > MAX_DEPTH, non-canonical leaf, non-canonical sibling (Err) before allocating or hashing", fv.loc0,
               [(T.show(x["cond"], maxdepth=4)[:100], x["fail_when"]) for x in fv.gt][:6])
        _from_unsorted_level(ob, prog, fv, crate)
    return ob


def _closure_ids(prog, body, seen=None):
    """bodies of the closures created (transitively) in a body"""
    seen = set() if seen is None else seen
    out = []
    for blk in body.blocks:
        for st in blk["s"]:
            r = st.get("r") or {}
            if r.get("k") == "agg" and r["ak"].get("t") == "closure" and r["ak"]["id"] not in seen:
                seen.add(r["ak"]["id"])
                cb = prog.bodies.get(r["ak"]["id"])
                if cb is not None:
                    out.append(cb)
                    out += _closure_ids(prog, cb, seen)
    return out


def _op_local(o):
    pl = isinstance(o, dict) and (o.get("c") or o.get("m"))
    return pl["l"] if pl else None


def _place_locals(pl):
    out = [pl["l"]]
    for pr in pl["p"]:
        if isinstance(pr, dict) and "i" in pr and isinstance(pr["i"], int):
            out.append(pr["i"])
    return out


def _backward_locals(body, start, stop):
    """locals a value may be computed from (flow-insensitive backward closure over assignments, projection writes and call results),
    not expanding the locals in `stop`"""
    defs = {}
    for blk in body.blocks:
        if blk["cleanup"]:
            continue
        for st in blk["s"]:
            d, r = st.get("d"), st.get("r")
            if not d or not r:
                continue
            src = []
            for k in ("a", "b"):
                l_ = _op_local(r.get(k))
                if l_ is not None:
                    src.append(l_)
            if isinstance(r.get("p"), dict):
                src += _place_locals(r["p"])
            for o in r.get("ops", []) or []:
                l_ = _op_local(o)
                if l_ is not None:
                    src.append(l_)
            for k in ("a", "b"):
                pl = isinstance(r.get(k), dict) and (r[k].get("c") or r[k].get("m"))
                if pl:
                    src += _place_locals(pl)[1:]
            defs.setdefault(d["l"], set()).update(src)
        t = blk["t"]
        if t["k"] == "call" and t.get("dest"):
            defs.setdefault(t["dest"]["l"], set()).update(l_ for l_ in (_op_local(a) for a in t["args"]) if l_ is not None)
    seen, st = set(), [start]
    while st:
        l_ = st.pop()
        if l_ is None or l_ in seen:
            continue
        seen.add(l_)
        if l_ in stop:
            continue
        st += list(defs.get(l_, ()))
    return seen


def _debug_assert_blocks(body):
    """blocks that exist only to evaluate a `debug_assert*!`: control dependent on the `if cfg!(debug_assertions)` constant branch that
    leads to a panic raised by that macro"""
    cd = cfg.control_deps_closed(body)
    region = set()
    for p, t in body.calls():
        if not any(str(m).startswith("debug_assert") for m in t.get("macros", ())):
            continue
        for (a, b) in cd.get(p, ()):
            ta = body.blocks[a]["t"]
            if ta["k"] != "switch":
                continue
            d = ta["d"]
            const = "k" in d
            l_ = _op_local(d)
            if not const and l_ is not None:
                const = any(st.get("d", {}).get("l") == l_ and not st["d"]["p"] and (st.get("r") or {}).get("k") == "use" and "k" in (st["r"].get("a") or {}) for st in body.blocks[a]["s"])
            if const:
                region |= set(x for x, deps in cd.items() if (a, b) in deps)
    return region


def _from_unsorted_level(ob, prog, fv, crate):
    """the per-level step of `from_unsorted` (common and circuit copies): necessary structure of "positions are the running hash's
    sorted rank and the proof verifies".  Form-independent part, always decided:
      (a) the node [current, s0, s1, s2] is sorted exactly once per level, before it is read;
      (b) the pushed position is `position(node, |h| h == current)`;
      (c) the running hash becomes hash_node_presorted(node), on every level;
      (d) the siblings pushed for the level are taken from the node (not from the raw input), and the ONLY comparison of hash
          values in the function is the rank predicate of (b) — the three siblings are chosen by index (all but `pos`), never by
          value (a sibling equal to the running hash must stay);
    form-specific part, decided when the selection is the index-skipping copy loop (any other form: (a)-(d) only, recorded)."""
    body, fr = fv.body, fv.fr
    ev = fr.ev
    effs = fv.effects
    tag = "from_unsorted/level/" + crate
    U = None
    for i in range(1, body.argc + 1):
        if re.search(r"Vec<\[\[u8; 32\]; 3\]", body.local_ty(i) or ""):
            U = fv.param(i)
    def unrec(t):
        """the running hash seen from inside its own recurrence is ("rec", key): compare modulo that"""
        if isinstance(t, tuple) and t and t[0] == "phi":
            return ("rec", t[1])
        if isinstance(t, tuple):
            return tuple(unrec(x) for x in t)
        return t
    def in_level(e):
        """control context below the level loop (empty = once per level, unconditionally)"""
        for k, c in enumerate(e.ctrl):
            if c[0] == "loop" and tuple(c[2]) == ("1",) and lc.strip_adaptors(P.norm(c[1])) == U:
                return list(e.ctrl[k + 1:])
        return None
    srt = [e for e in effs if e.raw.get("name") in ("sort", "sort_unstable")]
    pos = [e for e in effs if e.raw.get("name") == "position"]
    hn = [e for e in effs if e.raw.get("name") == "hash_node_presorted"]
    push = [e for e in effs if e.raw.get("name") == "push"]
    det = {"sort": len(srt), "position": len(pos), "hash_node_presorted": len(hn), "push": len(push)}
    if U is None or len(srt) != 1 or len(pos) != 1 or len(hn) != 1 or len(push) != 2:
        ob.add({"C27"}, False, "TERM", tag, "per level: one sort of the 4-node, one rank lookup, one node hash, one position push and one sibling push", fv.loc0, det)
        return
    A = unrec(P.norm(srt[0].args[0]))
    okA = isinstance(A, tuple) and A[0] == "array" and len(A[1]) == 4
    cur = [m for m in (A[1] if okA else ()) if isinstance(m, tuple) and m and m[0] == "rec"]
    sib = [m for m in (A[1] if okA else ()) if not (isinstance(m, tuple) and m and m[0] == "rec")]
    okA = okA and len(cur) == 1 and sorted(sib, key=repr) == sorted([("idx", ("elem", U), ("c", k, None)) for k in range(3)], key=repr)
    a_ok = okA and in_level(srt[0]) == [] and all(cfg.dominates(body, srt[0].bb, e.bb) and e.bb != srt[0].bb for e in pos + hn)
    # (b)
    b_ok = False
    ppush = [e for e in push if P.call_name(P.norm(e.args[1])) and P.call_name(P.norm(e.args[1])).endswith("::position")]
    if okA and len(ppush) == 1 and in_level(ppush[0]) == [] and in_level(pos[0]) == []:
        pt = P.norm(ppush[0].args[1])
        H = ("sym", "H")
        cr = unrec(P.norm(fr.closure_ret(pt[4][1], [H], site_hint=pos[0].site))) if len(pt[4]) == 2 else None
        b_ok = unrec(lc.strip_adaptors(P.norm(pt[4][0]))) == A and cr in (("bin", "Eq", H, cur[0]), ("bin", "Eq", cur[0], H))
    # (c)
    c_ok = False
    if okA and in_level(hn[0]) == []:
        ph = [s_ for s_ in T.walk(P.norm(srt[0].args[0])) if isinstance(s_, tuple) and s_ and s_[0] == "phi" and s_[1] == cur[0][1]]
        if ph:
            mem = [P.norm(m) for m in ph[0][2]]
            step = [m for m in mem if P.call_name(m) and P.call_name(m).endswith("hash_node_presorted")]
            init = [m for m in mem if isinstance(m, tuple) and m and m[0] == "param"]
            c_ok = len(mem) == 2 and len(step) == 1 and len(init) == 1 and unrec(P.norm(step[0][4][0])) == A and unrec(P.norm(hn[0].args[0])) == A
    # (d)
    spush = [e for e in push if e not in ppush]
    d_ok = False
    cmps = []
    dbg = _debug_assert_blocks(body)
    skip_closures = set()
    for bi in dbg:
        for st in body.blocks[bi]["s"]:
            r = st.get("r") or {}
            if r.get("k") == "agg" and r["ak"].get("t") == "closure":
                skip_closures.add(r["ak"]["id"])
    for b_ in [body] + [c_ for c_ in _closure_ids(prog, body) if c_.id not in skip_closures]:
        for bb, t in b_.calls():
            if b_ is body and bb in dbg:
                continue   # inside a debug_assert!: documents an invariant, selects nothing
            if t.get("name") in ("eq", "ne", "cmp", "partial_cmp", "lt", "le", "gt", "ge", "contains", "starts_with", "ends_with") and re.search(r"\[u8(; 32)?\]", t.get("self_ty") or ""):
                cmps.append((b_.path.rsplit("::", 2)[-1] if b_.kind == "Closure" else b_.name, t.get("name"), t.get("self_ty")))
    V = None
    if okA and len(spush) == 1 and in_level(spush[0]) == []:
        V = unrec(P.norm(spush[0].args[1]))
        # provenance of the pushed siblings on the MIR: going backwards from the pushed operand and stopping at the sorted node, the raw
        # input is not reached (indexing a literal array folds in the term view, so this is decided on locals, not on terms)
        S = _root_local(body, srt[0].raw["args"][0])
        ui = U[2]
        reach = _backward_locals(body, _op_local(spush[0].raw["args"][1]), {S})
        d_ok = S is not None and ui not in reach and len(cmps) == 1 and cmps[0][1] == "eq"
    ob.add({"C27"}, a_ok and b_ok and c_ok and d_ok, "TERM", tag,
           "per level: node = [current, s0, s1, s2] sorted once before use; position pushed = rank of current in it; current := hash_node_presorted(node); siblings pushed come from the node and "
           "are chosen without comparing hash values (the only value comparison is the rank predicate)", srt[0].loc,
           {"sorted-node-first": a_ok, "rank": b_ok, "node-hash-step": c_ok, "siblings-by-index": d_ok, "value comparisons": cmps})
    # form-specific: the index-skipping copy loop
    fs = None
    if V is not None and isinstance(V, tuple) and V[0] == "upd" and len(V[3]) == 1 and lc.known_len(V) == 3:
        (wproj, wval), = V[3]
        ctrls = T.upd_write_ctrl(ev, spush[0].args[1] if isinstance(spush[0].args[1], tuple) and spush[0].args[1][0] == "upd" else P.norm(spush[0].args[1]))
        K = wproj[0][1] if len(wproj) == 1 and wproj[0][0] == "i" else None
        if K is not None and len(ctrls) == 1 and isinstance(K, tuple) and K[0] == "rec":
            c = list(ctrls[0])
            # below the level loop: the enumerate loop over the node, then exactly `index != pos`
            lvl = [k for k, g in enumerate(c) if g[0] == "loop" and lc.strip_adaptors(P.norm(g[1])) == U]
            tail = c[lvl[0] + 1:] if lvl else None
            ok = (tail is not None and len(tail) == 2 and tail[0][0] == "loop" and unrec(lc.strip_adaptors(P.norm(tail[0][1]))) == A and tail[1][0] == "case")
            if ok:
                cond, val = unrec(P.norm(tail[1][1])), tuple(tail[1][2])
                pt = unrec(P.norm(ppush[0].args[1])) if len(ppush) == 1 else None
                ix = ("index", A)
                ok = ((cond in (("bin", "Ne", ix, pt), ("bin", "Ne", pt, ix)) and val == ("else",)) or (cond in (("bin", "Eq", ix, pt), ("bin", "Eq", pt, ix)) and val == ("0",)))
                ok = ok and unrec(P.norm(wval)) == ("elem", A)
                # the output cursor starts at 0 for every level and advances by one exactly when an element is copied
                kphi = [s_ for s_ in T.walk(P.norm(spush[0].args[1])) if isinstance(s_, tuple) and s_ and s_[0] == "phi" and s_[1] == K[1]]
                if ok and kphi:
                    mem = [m[1] if (isinstance(m, tuple) and m and m[0] == "guarded") else m for m in kphi[0][2]]
                    inc = [m for m in mem if m == ("bin", "Add", ("rec", K[1]), ("c", 1, None))]
                    ini = [m for m in mem if P.const_of(m) == 0]
                    dc = T.phi_def_ctrl(ev, kphi[0])
                    same = [x for x in dc if [(g[0], g[3]) for g in x] == [(g[0], g[3]) for g in c]]
                    ok = len(mem) == 2 and len(inc) == 1 and len(ini) == 1 and len(same) == 1
                else:
                    ok = False
            fs = ok
    if fs is None:
        ob.add({"C27"}, True, "TERM", "from_unsorted/selection/" + crate, "sibling selection is not the index-skipping copy loop: only the form-independent conditions above were decided for it", spush[0].loc if spush else fv.loc0)
    else:
        ob.add({"C27"}, fs, "TERM", "from_unsorted/selection/" + crate,
               "siblings = the node's elements with index != pos, in order: copy loop over enumerate(node) guarded by exactly `i != pos`, output cursor 0, +1 per copied element", spush[0].loc)


def _root_local(body, operand):
    """the named/base local an operand refers to, looking through reference / unsize-cast temporaries"""
    pl = operand.get("c") or operand.get("m")
    seen = 0
    while pl is not None and seen < 8:
        l = pl["l"]
        if body.local_name(l) or l <= body.argc:
            return l
        nxt = None
        for blk in body.blocks:
            for st in blk["s"]:
                if "d" in st and st["d"]["l"] == l and not st["d"]["p"]:
                    r = st["r"]
                    if r["k"] in ("ref", "rawptr"):
                        nxt = r["p"]
                    elif r["k"] in ("use", "cast"):
                        nxt = r["a"].get("c") or r["a"].get("m")
        pl = nxt
        seen += 1
    return pl["l"] if pl else None


def _operands(r):
    out = []
    for k in ("a", "b"):
        if isinstance(r.get(k), dict):
            out.append(r[k])
    for o in r.get("ops", []) or []:
        out.append(o)
    return out


def analyse35(ck):
    ob = Ob()
    prog = ck.prog
    C = COMMON + "::circuit::"
    caps = {n: prog.const_value(C + n) for n in ("MAX_TRANSFER_PROOF_JSON_BYTES", "MAX_STATE_ROOT_HEX_LEN", "MAX_STORAGE_PROOF_NODES", "MAX_STORAGE_PROOF_NODE_HEX_LEN", "MAX_STORAGE_PROOF_HEX_BYTES", "MAX_MERKLE_INDICES")}
    ob.add({"C35"}, caps["MAX_TRANSFER_PROOF_JSON_BYTES"] == 8 * 1024 * 1024, "ITEM", "caps/document", "MAX_TRANSFER_PROOF_JSON_BYTES = 8 MiB", None, caps)
    mv = e2.MethodView(ck, "^" + C.replace("::", "::") + "TransferProofJson::from_json_str$", COMMON)
    g = err_guard(mv, "Gt", lambda t: P.norm(t) == ("len", mv.param(1)), lambda t: P.const_of(t) == caps["MAX_TRANSFER_PROOF_JSON_BYTES"])
    fs = mv.calls(lambda t: t.get("name") == "from_str" and "serde_json" in (t.get("f") or ""))
    ok = len(g) == 1 and len(fs) == 1 and mv.dom(mv.ok_succ(g[0]), fs[0][0])
    ob.add({"C35"}, ok, "CMP+DOM", "document-cap-before-parse", "from_json_str rejects documents longer than 8 MiB (Err) before serde_json::from_str", g[0]["loc"] if g else mv.loc0)
    who = sorted(e2.who_calls(prog, r"serde_json::de::from_str$|serde_json::from_str$"))
    raw_sites = [(b.path, t.get("ga")) for b, bb, t in prog.call_sites(r"serde_json::de::from_str$|serde_json::from_str$") if b.crate == COMMON]
    ob.add({"C35"}, [p for p, _ in raw_sites] == [C + "TransferProofJson::from_json_str"] and all("TransferProofJsonRaw" in str(ga) for _, ga in raw_sites), "WMC", "only-capped-entry",
           "the only serde_json::from_str in the common crate parses TransferProofJsonRaw inside from_json_str", None, raw_sites)
    # TransferProofJson itself is not Deserialize; Raw is private
    de = prog.impls_of("circuit::TransferProofJson", "Deserialize")
    ob.add({"C35"}, not de, "ITEM", "no-direct-deserialize", "TransferProofJson does not implement Deserialize (it can only be obtained through from_json_str)", None, [i.get("trait_ref") for i in de])
    raw = prog.adts.get(C + "TransferProofJsonRaw")
    ob.add({"C35"}, raw is not None and raw["vis"] != "pub", "ITEM", "raw-private", "TransferProofJsonRaw is private", None, raw and raw["vis"])
    # per-field visitor caps
    def visitor_guards(rx, cap, what, names=("visit_str", "visit_string")):
        n_ok = 0
        locs = []
        for nm in names:
            bs = [b for b in prog.find(rx + r".*::" + nm + "$", COMMON) if b.kind != "Closure"]
            for b in bs:
                v = e2.MethodView(ck, "^" + re.escape(b.path) + "$", COMMON)
                # the length compared is that of the visited string itself (the deserializer's argument), not of a slice derived from it
                # (`v.trim_start_matches("0x").len()` lets arbitrarily long input through)
                gg = err_guard(v, "Gt", lambda t, vv=v: isinstance(t, tuple) and t[0] == "len" and P.norm(t[1]) == vv.param(2), lambda t, c=cap: P.const_of(t) == c)
                if len(gg) == 1:
                    n_ok += 1
                locs.append(v.loc0)
        ob.add({"C35"}, n_ok == len(names) and len(locs) == len(names), "CMP", "visitor/" + what, "%s visitor rejects `value.len() > cap` (the raw length of the visited string) in both visit_str and visit_string (%d/%d)" % (what, n_ok, len(names)), locs[0] if locs else None)
    visitor_guards(r"deserialize_bounded_state_root::StateRootVisitor", caps["MAX_STATE_ROOT_HEX_LEN"], "state_root")
    visitor_guards(r"deserialize_bounded_storage_proof::.*NodeVisitor", caps["MAX_STORAGE_PROOF_NODE_HEX_LEN"], "storage-node")
    # bounded seq: len >= max → Err before push; with_capacity(min(hint, max))
    for rx, what, maxpred in ((r"deserialize_bounded_vec::.*BoundedSeqVisitor.*::visit_seq$", "bounded-vec", lambda t: P.param_path(t) == "self.max"),):
        bs = [b for b in prog.find(rx, COMMON) if b.kind != "Closure"]
        ok = len(bs) == 1
        if ok:
            v = e2.MethodView(ck, "^" + re.escape(bs[0].path) + "$", COMMON)
            gg = err_guard(v, "Ge", lambda t: isinstance(t, tuple) and t[0] == "len", maxpred)
            push = [e for e in v.effects if e.raw.get("name") == "push"]
            wc = [e for e in v.effects if e.raw.get("name") == "with_capacity"]
            ok = len(gg) == 1 and len(push) == 1 and v.dom(v.ok_succ(gg[0]), push[0].bb) and len(wc) == 1 and "min(" in T.show(wc[0].args[0], maxdepth=4) and "self.max" in T.show(wc[0].args[0], maxdepth=4)
        ob.add({"C35"}, ok, "CMP+DOM", "visitor/" + what, "bounded sequence visitor: `len >= max → Err` dominates push; capacity is min(size_hint, max)", bs[0].loc(0) if bs else None)
    bs = [b for b in prog.find(r"deserialize_bounded_storage_proof::.*StorageProofVisitor.*::visit_seq$", COMMON) if b.kind != "Closure"]
    ok = len(bs) == 1
    if ok:
        v = e2.MethodView(ck, "^" + re.escape(bs[0].path) + "$", COMMON)
        tot = err_guard(v, "Gt", lambda t: "checked_add" in T.show(t, maxdepth=5), lambda t: P.const_of(t) == caps["MAX_STORAGE_PROOF_HEX_BYTES"])
        push = [e for e in v.effects if e.raw.get("name") == "push"]
        ca = v.calls(lambda t: t.get("name") == "checked_add")
        wc = [e for e in v.effects if e.raw.get("name") == "with_capacity"]
        # the loop guard out.len() < MAX_NODES bounds the pushes; an extra element is an error
        cnt = any(isinstance(c, tuple) and c[0] == "bin" and c[1] == "Lt" and P.const_of(c[3]) == caps["MAX_STORAGE_PROOF_NODES"] for c, vals, a in _deps(v, push[0].bb)) if push else False
        extra = [g_ for g_ in v.gt if g_["outcome"] <= {"err"} and "is_some" in T.show(g_["cond"], maxdepth=3)]
        ok = len(tot) == 1 and len(push) == 1 and len(ca) == 1 and v.dom(v.ok_succ(tot[0]), push[0].bb) and cnt and len(extra) == 1 and len(wc) == 1 and "min(" in T.show(wc[0].args[0], maxdepth=4)
    ob.add({"C35"}, ok, "CMP+DOM", "visitor/storage-proof", "storage-proof visitor: pushes only while len < MAX_NODES, total bytes via checked_add and `> MAX_HEX_BYTES → Err` before push, a further element is an error", bs[0].loc(0) if bs else None)
    # AGREE visitors vs validate(): same constants
    vv = e2.MethodView(ck, "^" + C.replace("::", "::") + "TransferProofJson::validate$", COMMON)
    used = set()
    for g_ in vv.gt:
        for s in T.walk(g_["cond"]):
            if s and s[0] == "c" and s[2] and s[2].startswith(C + "MAX_"):
                used.add(s[2].rsplit("::", 1)[-1])
    want = {"MAX_STATE_ROOT_HEX_LEN", "MAX_STORAGE_PROOF_NODES", "MAX_STORAGE_PROOF_NODE_HEX_LEN", "MAX_STORAGE_PROOF_HEX_BYTES", "MAX_MERKLE_INDICES"}
    allgt = all(guards.reject_condition(g_) and guards.reject_condition(g_)[0] == "Gt" for g_ in vv.gt if g_["outcome"] <= {"err"} and g_["kind"] == "if")
    ob.add({"C35"}, used == want and allgt, "AGREE", "validate-same-caps", "validate() compares with the same five constants (same items), all as `> cap → Err`, so every visitor bound implies the validate bound", vv.loc0, sorted(used))
    # indices use the generic bounded vec with MAX_MERKLE_INDICES
    iv = e2.MethodView(ck, "^" + C.replace("::", "::") + "deserialize_bounded_indices$", COMMON)
    bc = iv.calls(lambda t: t.get("name") == "deserialize_bounded_vec")
    ok = len(bc) == 1 and P.const_of(iv.fr.operand_term(bc[0][1]["args"][1])) == caps["MAX_MERKLE_INDICES"]
    ob.add({"C35"}, ok, "TERM", "indices-cap", "indices are parsed by deserialize_bounded_vec(.., MAX_MERKLE_INDICES, ..)", iv.loc0)
    return ob
