"""Whole-leaf-circuit view: the constructor `WormholeCircuit::new_internal` (or `new_profiled`) expanded through
every function of the circuit crate, so that each constraint site's operands are terms over the target-creation
sites. Gadgets of the `common` crate stay opaque (they are decided on their own by C10/C30/C31)."""
from . import terms as T
from . import pat as P
from . import circ, lc
from .facts import AnchorMissing

CIRCUIT_CRATE = "qp_wormhole_circuit"


def split_pair(e, ta, tb):
    """canonical (base_a, index_a, base_b, index_b, nest) of two operand terms of effect e (loop form independent, see lc.py)"""
    nest = lc.Nest(e)
    a, ia = lc.split_indexed(nest, ta)
    b, ib = lc.split_indexed(nest, tb)
    return a, ia, b, ib, nest


def all_limbs(nest, ia, ib, n=4):
    """both sides are indexed by the same loop variable and that loop visits every limb 0..n"""
    return lc.same_var_covering(nest, ia, ib, n)


def each_form(view, k, t, e):
    """("each", S, body) when a sequence item appends body(x) for every element x of S, in order: push(body(x)) in a single loop
    streaming exactly S, or extend/collect of S.map(body). Returns ("each", S, body, v): in `body` the element is ("idx", S, v)."""
    t = P.norm(t)
    if k == "one" and e is not None:
        nest = lc.Nest(e)
        if nest.depth() == 1:
            d = nest.desc[0]
            if not d.other and d.range is None and len(d.colls) == 1 and d.take is None:
                return ("each", d.colls[0], nest.canon(t), nest.var(0))
    if k == "all" and isinstance(t, tuple) and t and t[0] == "map":
        inner = t
        while isinstance(inner, tuple) and inner and inner[0] == "map":
            inner = inner[1]
        d = lc.Desc(inner)
        if not d.other and d.range is None and len(d.colls) == 1 and d.take is None and inner == d.colls[0]:
            dm = d.domain()
            return ("each", inner, lc.canon(view.frame.elem(t)), ("lv", dm[0], dm[1], 0))
    return None


class LeafView:
    def __init__(self, ck, prog=None, entry=r"WormholeCircuit::new_internal$"):
        prog = prog or ck.prog
        self.prog = prog
        body = prog.one(entry, CIRCUIT_CRATE)
        ck.saw(body)

        def inline(path):
            return path.startswith(CIRCUIT_CRATE + "::") or path.startswith("<" + CIRCUIT_CRATE + "::")

        self.ev = T.Evaluator(prog, inline=inline, max_depth=8, names=False)
        self.frame = self.ev.frame(body)
        self.effects = self.frame.effects()
        for e in self.effects:
            ck.saw(e.frame.body)
        self.ret = self.frame.return_term()
        # role table: field path of the returned WormholeCircuit.targets -> term
        self.roles = {}
        tg = None
        if isinstance(self.ret, tuple) and self.ret[0] == "adt":
            tg = dict(self.ret[3]).get("targets")
            self.builder = dict(self.ret[3]).get("builder")
        if tg is None:
            raise AnchorMissing("the leaf constructor does not return a struct with a `targets` field")
        self._walk_roles(tg, "")
        self.inv = {}
        for p, t in self.roles.items():
            self.inv.setdefault(t, []).append(p)

    def _walk_roles(self, t, prefix):
        if isinstance(t, tuple) and t and t[0] == "adt":
            for name, sub in t[3]:
                self._walk_roles(sub, prefix + "." + name if prefix else name)
        else:
            self.roles[prefix] = t

    def role(self, path):
        if path not in self.roles:
            raise AnchorMissing("leaf target %s not found in the constructor's target tree" % path)
        return self.roles[path]

    def role_of(self, t):
        """role path(s) denoted by a term: exact role, `.elements` of a hash role, indexed element of an array role"""
        t = P.norm(t)
        out = []
        base = t
        suffix = ""
        while True:
            if base in self.inv:
                return [p + suffix for p in self.inv[base]]
            if isinstance(base, tuple) and base and base[0] == "fld":
                suffix = "." + base[2] + suffix
                base = base[1]
            elif isinstance(base, tuple) and base and base[0] == "idx":
                i = base[2]
                suffix = "[%s]" % (i[1] if T.is_const(i) else "*") + suffix
                base = base[1]
            elif isinstance(base, tuple) and base and base[0] == "elem":
                suffix = "[*]" + suffix
                base = base[1]
            else:
                return out

    def constraint_effects(self):
        names = circ.CONSTRAINT_NAMES
        return [e for e in self.effects if e.name in names or e.name.endswith("::enforce_target_less_than_const")]

    def free_effects(self):
        return [e for e in self.effects if e.name in circ.FREE_NAMES or e.name.endswith("BoolTarget::new_unsafe")]


def expand_items(view, x):
    """terms denoted by a range-check style operand: a single term, or every element of a loop sequence"""
    x = P.norm(x)
    if isinstance(x, tuple) and x and x[0] == "elem":
        seq = x[1]
        nm = P.call_name(seq) or ""
        if nm.endswith(("Vec::<T>::new", "Vec::<T>::with_capacity")):
            # a vector built by appends (push / extend_from_slice) instead of a chain(..).collect(): its contents, when every append is
            # unconditional and outside loops
            cs = T.contents(view.effects, seq)
            if cs and all(k in ("one", "all") and e is not None and not circ.loops_of(e) and not circ.uncond_problems(e) for k, _, e in cs):
                # `extend_from_slice(&[a, b])` / `extend([a, b])` append the elements of the literal, one by one
                flat = []
                for k, t, e in cs:
                    tt = P.norm(t)
                    if k == "all" and isinstance(tt, tuple) and tt and tt[0] == "array":
                        flat += [("one", x) for x in tt[1]]
                    else:
                        flat.append((k, t))
                return [t for _, t in flat], [k for k, _ in flat]
        return [it[1] for it in T.seq_items(seq)], [it[0] for it in T.seq_items(seq)]
    return [x], ["one"]


# ---- shared structural queries on the leaf view ---------------------------------------------------

from .pat import V, K, Cb, Any


def gated_equalities(view):
    """connect(mul(sub(A, B), G), zero) sites -> list of dict(A,B,G,e)"""
    out = []
    pat = Cb("cb.mul", Cb("cb.sub", V("A"), V("B")), V("G"))
    for e in view.effects:
        if e.name == "cb.connect":
            x, y = circ.cb_operands(e)[:2]
            for (p, q) in ((x, y), (y, x)):
                if P.const_of(q) == 0:
                    b = P.match(pat, p)
                    if b:
                        out.append({"A": b["A"], "B": b["B"], "G": b["G"], "e": e})
        elif e.name == "cb.assert_zero":
            b = P.match(pat, circ.cb_operands(e)[0])
            if b:
                out.append({"A": b["A"], "B": b["B"], "G": b["G"], "e": e})
    return out


def flag_definition(view):
    """(flag_term, connect effect) for connect(zk_merkle_proof.is_not_dummy.target, flag)"""
    role = view.role("zk_merkle_proof.is_not_dummy")
    for e in view.effects:
        if e.name == "cb.connect":
            x, y = [P.norm(t) for t in circ.cb_operands(e)[:2]]
            if x == role:
                return y, e
            if y == role:
                return x, e
    return None, None


def and_leaves(t):
    """flatten a tree of cb.and into its leaves"""
    a = P.cb_args(t, "cb.and")
    if a is None:
        return [P.norm(t)]
    return and_leaves(a[0]) + and_leaves(a[1])


def and_leaves_expanded(view, t):
    """conjunction leaves with `_true` dropped and folds unrolled: `acc = true; for x in c { acc = and(acc, p(x)) }` over a collection
    of known small length contributes p(c[0]) … p(c[n-1]) (the same leaves an explicit and-tree has)"""
    nest = lc.Nest(loops=[], fallback=lc.frame_nest(view.frame))
    out = []
    for lf in and_leaves(t):
        if P.const_of(lf) == 1:
            continue
        if isinstance(lf, tuple) and lf and lf[0] == "phi" and len(lf[2]) == 2 and any(P.const_of(m) == 1 for m in lf[2]):
            step = [m for m in lf[2] if P.const_of(m) != 1][0]
            sl = [P.norm(x) for x in and_leaves(step)]
            rec = [x for x in sl if isinstance(x, tuple) and x and x[0] in ("rec", "phi")]
            rest = [x for x in sl if not (isinstance(x, tuple) and x and x[0] in ("rec", "phi"))]
            if len(rec) == 1 and rest:
                done = True
                inst = []
                for x in rest:
                    cx = P.norm(nest.canon(x))
                    vs = set(s for s in T.walk(cx) if isinstance(s, tuple) and len(s) == 4 and s[0] == "lv")
                    if len(vs) != 1:
                        done = False
                        break
                    v = vs.pop()
                    if not (v[1] == 0 and isinstance(v[2], int) and 0 < v[2] <= 16):
                        done = False
                        break
                    inst += [P.norm(T.subst(cx, v, ("c", k, None))) for k in range(v[2])]
                if done:
                    out += inst
                    continue
        out.append(lf)
    return out


def split_indexed(t):
    """X[i] or X.elements[i] -> (base, index) else (t, None)"""
    t = P.norm(t)
    if isinstance(t, tuple) and t and t[0] == "idx":
        return t[1], t[2]
    if isinstance(t, tuple) and t and t[0] == "elem":
        return t[1], ("elem*",)
    return t, None


def double_hash_preimage(t):
    """if t == hash(hash(PRE).elements).elements  ->  PRE else None"""
    t = P.norm(t)
    if isinstance(t, tuple) and t and t[0] == "fld" and t[2] == "elements":
        t = t[1]
    a = P.cb_args(t, "cb.hash_n_to_hash_no_pad_p2")
    if a is None:
        return None
    inner = P.norm(a[0])
    if isinstance(inner, tuple) and inner and inner[0] == "fld" and inner[2] == "elements":
        inner = inner[1]
    a2 = P.cb_args(inner, "cb.hash_n_to_hash_no_pad_p2")
    if a2 is None:
        return None
    return a2[0]


def single_hash_preimage(t):
    t = P.norm(t)
    if isinstance(t, tuple) and t and t[0] == "fld" and t[2] == "elements":
        t = t[1]
    a = P.cb_args(t, "cb.hash_n_to_hash_no_pad_p2")
    return a[0] if a is not None else None


def sequence_of(view, pre, effects=None):
    """ordered [(kind, term)] of a preimage operand: either a chain/array sequence term or a Vec built by appends"""
    pre = P.norm(pre)
    n = P.call_name(pre)
    if n and (n.endswith("Vec::<T>::new") or n.endswith("::with_capacity") or n.endswith("::new")) and "vec" in n.lower():
        cs = T.contents(effects if effects is not None else view.effects, pre)
        return [(k, t, e) for (k, t, e) in cs]
    # an initialised container (`xs.iter().map(f).collect()`, `vec![..]`, a chain) followed by appends to that same value
    init = [(k, t, None) for (k, t) in T.seq_items(pre)]
    return init + [(k, t, e) for (k, t, e) in T.contents(effects if effects is not None else view.effects, pre)]
