"""C31 — the digest sorting gadget (DESIGN.md §5 C31)."""
from . import gadgets_rules


def run(ck):
    ck.explanation = ("C31: canonical split at ingress with hi-before-lo half order, lexicographic halves comparator, compare-and-swap with ONE flag for both selects "
                      "(permutation by construction), odd-even transposition network bounds, egress recombination")
    ck.not_decided = ["that n rounds of odd-even transposition sort every list (classical result about the network shape that is checked)", "u32_lt correctness beyond its term shape"]
    ob = gadgets_rules.analyse(ck)
    ob.emit(ck, "C31")
    ck.floor("TERM", "gadget/obligations", len([1 for it in ob.items if "C31" in it[0]]), 11, "C31 obligations evaluated")
