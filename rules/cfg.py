"""Per-body CFG utilities: successors, dominators, post-dominators, control dependence, reachability.

Unwind edges are not part of the facts (the driver drops them); cleanup blocks are ignored.
"""


def succs(body):
    if body._succ is not None:
        return body._succ
    out = []
    for b in body.blocks:
        t = b["t"]
        k = t["k"]
        if b["cleanup"]:
            out.append([])
        elif k == "goto" or k == "drop":
            out.append([t["t"]])
        elif k == "call":
            out.append([t["t"]] if t["t"] is not None else [])
        elif k == "assert":
            out.append([t["t"]])
        elif k == "switch":
            s = []
            for _, tgt in t["arms"]:
                if tgt not in s:
                    s.append(tgt)
            if t["else"] not in s:
                s.append(t["else"])
            out.append(s)
        else:
            out.append([])
    body._succ = out
    return out


def preds(body):
    if body._pred is not None:
        return body._pred
    s = succs(body)
    p = [[] for _ in s]
    for i, ss in enumerate(s):
        for j in ss:
            p[j].append(i)
    body._pred = p
    return p


def rpo(body):
    if body._rpo is not None:
        return body._rpo
    s = succs(body)
    seen = set()
    order = []
    stack = [(0, iter(s[0]))]
    seen.add(0)
    while stack:
        n, it = stack[-1]
        adv = False
        for m in it:
            if m not in seen:
                seen.add(m)
                stack.append((m, iter(s[m])))
                adv = True
                break
        if not adv:
            order.append(n)
            stack.pop()
    order.reverse()
    body._rpo = order
    return order


def _idom_generic(n_nodes, entry, succ_of, pred_of):
    # Cooper-Harvey-Kennedy
    seen = set([entry])
    order = []
    stack = [(entry, iter(succ_of(entry)))]
    while stack:
        n, it = stack[-1]
        adv = False
        for m in it:
            if m not in seen:
                seen.add(m)
                stack.append((m, iter(succ_of(m))))
                adv = True
                break
        if not adv:
            order.append(n)
            stack.pop()
    order.reverse()
    num = {n: i for i, n in enumerate(order)}
    idom = {entry: entry}
    changed = True
    while changed:
        changed = False
        for n in order[1:]:
            ps = [p for p in pred_of(n) if p in idom]
            if not ps:
                continue
            new = ps[0]
            for p in ps[1:]:
                a, b = p, new
                while a != b:
                    while num[a] > num[b]:
                        a = idom[a]
                    while num[b] > num[a]:
                        b = idom[b]
                new = a
            if idom.get(n) != new:
                idom[n] = new
                changed = True
    return idom


def idoms(body):
    if body._dom is None:
        s = succs(body)
        p = preds(body)
        body._dom = _idom_generic(len(s), 0, lambda n: s[n], lambda n: p[n])
    return body._dom


def dominates(body, a, b):
    """block a dominates block b (reflexive); unreachable b -> True vacuously is NOT assumed: returns False"""
    idom = idoms(body)
    if b not in idom or a not in idom:
        return False
    n = b
    while True:
        if n == a:
            return True
        if idom[n] == n:
            return False
        n = idom[n]


EXIT = -1


def exits(body):
    """blocks that leave the function normally (return) — diverging calls / unreachable are not exits"""
    return [i for i, b in enumerate(body.blocks) if not b["cleanup"] and b["t"]["k"] == "return"]


def ipdoms(body, include_diverging=False):
    """immediate post-dominators w.r.t. a virtual exit joined from returns (and, optionally,
    from diverging blocks: calls with no target, unreachable, abort)"""
    if body._pdom is not None and not include_diverging:
        return body._pdom
    s = succs(body)
    p = preds(body)
    reach = set(rpo(body))
    ex = []
    for i in reach:
        if not s[i]:
            k = body.blocks[i]["t"]["k"]
            if k == "return" or include_diverging:
                ex.append(i)

    def succ_of(n):  # reversed graph
        if n == EXIT:
            return ex
        return [x for x in p[n] if x in reach]

    def pred_of(n):
        r = list(s[n]) if n != EXIT else []
        if n in ex:
            r = r + [EXIT]
        return r

    res = _idom_generic(len(s) + 1, EXIT, succ_of, pred_of)
    if not include_diverging:
        body._pdom = res
    return res


def postdominates(body, a, b):
    """a post-dominates b"""
    ip = ipdoms(body)
    if a not in ip or b not in ip:
        return False
    n = b
    while True:
        if n == a:
            return True
        if n == EXIT or ip[n] == n:
            return False
        n = ip[n]


def control_deps(body):
    """block -> list of (switch_block, successor taken) it is control dependent on (transitively closed:
    full chain up to entry)."""
    ip = ipdoms(body)
    s = succs(body)
    direct = {i: set() for i in range(len(s))}
    for a in range(len(s)):
        if len(s[a]) < 2 or a not in ip:
            continue
        for b in s[a]:
            # walk from b up the post-dominator tree until ipdom(a)
            n = b
            stop = ip[a]
            guard = 0
            while n != stop and n != EXIT and guard < 100000:
                direct[n].add((a, b))
                if n not in ip or ip[n] == n:
                    break
                n = ip[n]
                guard += 1
    return direct


def control_deps_closed(body, intra_iteration=False):
    """transitive closure of control dependence (least fixpoint). With intra_iteration=True a dependence of a loop
    header on a branch inside its own loop body (carried by the back edge: "the previous iteration did not bail out")
    is not followed, so the result describes one iteration."""
    direct = control_deps(body)
    if intra_iteration:
        filt = {}
        for n, deps in direct.items():
            filt[n] = set((a, b) for (a, b) in deps if not (a != n and dominates(body, n, a)))
        direct = filt
    closed = {n: set(d) for n, d in direct.items()}
    changed = True
    while changed:
        changed = False
        for n in closed:
            acc = closed[n]
            before = len(acc)
            for (a, b) in list(direct[n]):
                acc |= closed.get(a, set())
            if len(acc) != before:
                changed = True
    return closed


def reachable_from(body, start, avoid=()):
    """set of blocks reachable from `start` (inclusive) without passing through blocks in `avoid`"""
    s = succs(body)
    avoid = set(avoid)
    seen = set()
    st = [start]
    while st:
        n = st.pop()
        if n in seen or n in avoid:
            continue
        seen.add(n)
        st.extend(s[n])
    return seen


def reaches(body, a, b, avoid=()):
    """is there a path a ->+ b (at least one edge) avoiding `avoid`"""
    s = succs(body)
    seen = set()
    st = list(s[a])
    avoid = set(avoid)
    while st:
        n = st.pop()
        if n in seen or n in avoid:
            continue
        if n == b:
            return True
        seen.add(n)
        st.extend(s[n])
    return False


def switch_edge_value(body, a, b):
    """for switch block a and successor b: the list of discriminant values leading to b ('else' for otherwise)"""
    t = body.blocks[a]["t"]
    if t["k"] != "switch":
        return None
    vals = [v for v, tgt in t["arms"] if tgt == b]
    if t["else"] == b:
        vals.append("else")
    return vals


def natural_loops(body):
    """[(header, nodes, latches)] of the natural loops of a body (one per header; back edge t -> h with h dominating t),
    innermost (smallest) first"""
    s = succs(body)
    p = preds(body)
    by_header = {}
    for t in range(len(s)):
        for h in s[t]:
            if dominates(body, h, t):
                by_header.setdefault(h, set()).add(t)
    out = []
    for h, latches in by_header.items():
        nodes = {h}
        st = list(latches)
        while st:
            n = st.pop()
            if n in nodes:
                continue
            nodes.add(n)
            st.extend(p[n])
        out.append((h, nodes, set(latches)))
    out.sort(key=lambda x: len(x[1]))
    return out


def every_iteration_passes(body, def_blocks, live=None):
    """For every natural loop that contains one of `def_blocks`: does every path from the loop header to a latch (one completed
    iteration) pass through a def block — or through the header of an inner loop that contains def blocks and is itself clean (an
    inner loop that runs zero times contributes the identity of a fold)?  Returns {header: bool} for the loops that contain defs.
    Paths that leave the loop (`?`, bail, return, panic) complete no iteration and are not considered."""
    s = succs(body)
    loops = natural_loops(body)
    clean = {}
    defs = set(def_blocks)
    for h, nodes, latches in loops:
        if not (nodes & defs):
            continue
        inner = [h2 for (h2, n2, _) in loops if h2 != h and h2 in nodes and n2 < nodes and (n2 & defs)]
        if any(not clean.get(h2, False) for h2 in inner):
            clean[h] = False
            continue
        stops = (defs | set(inner)) - {h}
        seen, st, ok = set(), [h], True
        while st and ok:
            n = st.pop()
            if n in seen:
                continue
            seen.add(n)
            if n in stops:
                continue
            if n in latches:
                ok = False
                break
            for m in s[n]:
                if m in nodes and m != h and (live is None or m in live):
                    st.append(m)
        clean[h] = ok
    return clean
