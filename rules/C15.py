"""C15 — padding and shuffling exact and uniform (DESIGN.md §5 C15)."""
from . import provers


def run(ck):
    ck.explanation = """C15: padding count term and template provenance, shuffle receiver / RNG provenance (thread_rng) and its only guard, one preimage sample per slot inside the per-slot closure with canonical retry, no shuffle at the public layer, dominance order of the steps"""
    ck.not_decided = ["""uniformity of rand's shuffle and independence of samples (probabilistic; rand is trusted)"""]
    ob = provers.analyse(ck)
    ob.emit(ck, "C15")
    ck.floor("INV", "provers/obligations", len([1 for it in ob.items if "C15" in it[0]]), 9, "C15 obligations evaluated")
