"""C28 (circuit-config policy) and C29 (per-layer proof counts)."""
import re
from . import cfg, guards, e2, circ
from . import terms as T
from . import pat as P
from .pb import Ob, eval_int

COMMON = "qp_zk_circuits_common"
AGG = "qp_wormhole_aggregator"
INPUTS = "qp_wormhole_inputs"

POLICY = [  # (field path suffix, reject-op, constant name or None, constant value)
    ("num_wires", "Lt", "MIN_NUM_WIRES", 135),
    ("num_routed_wires", "Lt", "MIN_NUM_ROUTED_WIRES", 37),
    ("max_quotient_degree_factor", "Lt", "MIN_MAX_QUOTIENT_DEGREE_FACTOR", 7),
    ("fri_config.rate_bits", "Gt", "MAX_RATE_BITS", 8),
    ("fri_config.cap_height", "Gt", "MAX_CAP_HEIGHT", 8),
]


def const_name(t):
    t = P.norm(t)
    if isinstance(t, tuple) and t and t[0] == "c" and t[2]:
        return t[2].rsplit("::", 1)[-1]
    return None


def analyse28(ck):
    ob = Ob()
    prog = ck.prog
    mv = e2.MethodView(ck, "^" + COMMON + r"::circuit::validate_circuit_config$", COMMON)
    cfgp = mv.param(1)
    table = []
    for g in mv.gt:
        rc = guards.reject_condition(g)
        table.append((T.show(g["cond"], maxdepth=5)[:140], g["fail_when"], sorted(g["outcome"])))
    for fld, op, cname, cval in POLICY:
        hits = mv.rejects(op, lambda t, f=fld: P.param_path(t) == "config." + f, lambda t, n=cname, v=cval: const_name(t) == n and P.const_of(t) == v)
        ok = len(hits) == 1 and hits[0]["outcome"] <= {"err"}
        ob.add({"C28"}, ok, "CMP", "policy/" + fld, "validate_circuit_config rejects (Err) when config.%s %s %s(=%d)" % (fld, {"Lt": "<", "Gt": ">"}[op], cname, cval), hits[0]["loc"] if hits else mv.loc0, table if not ok else None)
    h = mv.rejects("Gt", lambda t: P.param_path(t) == "config.num_routed_wires", lambda t: P.param_path(t) == "config.num_wires")
    ob.add({"C28"}, len(h) == 1 and h[0]["outcome"] <= {"err"}, "CMP", "policy/routed<=wires", "rejects num_routed_wires > num_wires", h[0]["loc"] if h else mv.loc0)
    h = mv.rejects("Lt", lambda t: P.param_path(t) == "config.fri_config.rate_bits",
                   lambda t: (P.call_name(t) or "").endswith("circuit::log2_ceil") and P.param_path(t[4][0]) == "config.max_quotient_degree_factor")
    ob.add({"C28"}, len(h) == 1 and h[0]["outcome"] <= {"err"}, "CMP", "policy/rate>=log2ceil(quotient)", "rejects rate_bits < log2_ceil(max_quotient_degree_factor)", h[0]["loc"] if h else mv.loc0)
    # positive knobs: loop over [(name, value); 3]
    # the rejected set of the (unsigned) knob value is exactly {0}, however the comparison is spelt (`!(v > 0)`, `v == 0`, `v < 1`)
    h = [g for g, ivs, _ in guards.rejected_sets(mv.gt, lambda t: isinstance(t, tuple) and t[0] == "fld" and t[2] == "1" and isinstance(t[1], tuple) and t[1][0] == "elem") if ivs == [(0, 0)]]
    if not h:
        # `if let Some((name, _)) = knobs.iter().find(|(_, v)| *v == 0) { bail }`
        for g_, coll_, pred_ in mv.exists_guards():
            pr_ = P.norm(pred_)
            if g_["outcome"] <= {"err"} and isinstance(pr_, tuple) and len(pr_) == 4 and pr_[0] == "bin" and pr_[1] in ("Eq", "Le", "Lt"):
                fake = [{"cond": pr_, "fail_when": True, "kind": "if", "outcome": g_["outcome"]}]
                if [1 for _, ivs, _ in guards.rejected_sets(fake, lambda t: isinstance(t, tuple) and t[0] == "fld" and t[2] == "1" and isinstance(t[1], tuple) and t[1][0] == "elem") if ivs == [(0, 0)]]:
                    h.append(dict(g_, cond=("tuple", (pr_, P.norm(coll_)))))
    okp = len(h) == 1 and h[0]["outcome"] <= {"err"}
    if okp:
        arr = h[0]["cond"]
        vals = set()
        for s in T.walk(arr):
            if s and s[0] == "array":
                for it in s[1]:
                    if isinstance(it, tuple) and it[0] == "tuple" and len(it[1]) == 2:
                        vals.add(P.param_path(it[1][1]))
        okp = vals == {"config.num_challenges", "config.security_bits", "config.fri_config.num_query_rounds"}
    ob.add({"C28"}, okp, "CMP", "policy/positive-knobs", "rejects num_challenges, security_bits or fri_config.num_query_rounds == 0 (loop over exactly these three)", h[0]["loc"] if h else mv.loc0)
    # rejection sites: `if c { Err }` guards, plus exists-form guards (`if let Some(..) = xs.iter().find(..) { Err }`), which are matches
    ex_sites = set(id(g_) for g_, _, _ in mv.exists_guards() if g_["outcome"] <= {"err"} and g_["kind"] != "if")
    n_err = len([g for g in mv.gt if g["outcome"] <= {"err"} and (g["kind"] == "if" or id(g) in ex_sites)])
    ob.add({"C28"}, n_err == 8, "INV", "policy/no-other-rule", "validate_circuit_config has exactly the 8 documented rejection sites (found %d): it accepts exactly the stated set" % n_err, mv.loc0, table)
    ob.add({"C28"}, not [g for g in mv.gt if "panic" in g["outcome"] and g["kind"] != "match"], "INV", "policy/no-panic", "no assertion / explicit panic in validate_circuit_config", mv.loc0)
    lv = e2.MethodView(ck, "^" + COMMON + r"::circuit::log2_ceil$", COMMON)
    rt = P.norm(lv.fr.return_term())
    n = lv.param(1)
    bad = [k for k in range(1, 70) if eval_log2(rt, n, k) != (k - 1).bit_length()]
    ob.add({"C28"}, not bad, "TERM", "log2_ceil", "log2_ceil(n) = BITS - leading_zeros(n - 1) = ceil(log2 n), evaluated on the extracted term for n in 1..70", lv.loc0, (T.show(rt), bad[:3]))

    # every production CircuitBuilder::new is preceded by validate_circuit_config on the same config
    sites = [(b, bb, t) for b, bb, t in prog.call_sites(r"circuit_builder::CircuitBuilder::<F, D>::new$") if t.get("impl_adt") == T.CB]
    ob.add({"C28"}, len(sites) == 3, "INV", "builders/count", "production CircuitBuilder::new sites: %d (leaf new_internal, private batch, public batch)" % len(sites), None, [b.path for b, _, _ in sites])
    for b, bb, t in sites:
        fr = T.Evaluator(prog).frame(b)
        cfg_arg = P.norm(fr.operand_term(t["args"][0]))
        key = "builders/" + b.path.split("::", 1)[1]
        vc = [(vb, vt) for vb, vt in b.calls() if vt.get("name") == "validate_circuit_config"]
        if vc:
            ok = any(P.norm(fr.operand_term(vt["args"][0])) == cfg_arg and guards.dominates_ok(b, vb, bb) for vb, vt in vc)
            first_call = min(bi for bi, _ in b.calls())
            ok = ok and vc[0][0] == first_call
            ob.add({"C28"}, ok, "MPT", key, "validate_circuit_config(config) is the first call and its success dominates CircuitBuilder::new(config)", b.loc(bb))
        else:
            # private helper: every caller validates the same value first
            callers = prog.callers().get(b.id, [])
            ok = bool(callers) and b.d.get("vis") != "pub" and cfg_arg[0] == "param"
            for cb, cbb, ct in callers:
                cfr = T.Evaluator(prog).frame(cb)
                passed = P.norm(cfr.operand_term(ct["args"][cfg_arg[2] - 1]))
                cvc = [(vb, vt) for vb, vt in cb.calls() if vt.get("name") == "validate_circuit_config"]
                ok = ok and any(P.norm(cfr.operand_term(vt["args"][0])) == passed and guards.dominates_ok(cb, vb, cbb) for vb, vt in cvc)
                ok = ok and cvc and cvc[0][0] == min(bi for bi, _ in cb.calls())
            ob.add({"C28"}, ok, "MPT", key, "private constructor: every caller (%s) validates the same config first, before anything else" % [c.path.rsplit("::", 1)[-1] for c, _, _ in callers], b.loc(bb))
    # memprof policy agreement
    av = e2.MethodView(ck, r"^wormhole_memprof::config::AggConfigArgs::validate$", "wormhole_memprof")
    want = {("rate_bits", "Gt", "MAX_RATE_BITS"), ("cap_height", "Gt", "MAX_CAP_HEIGHT"), ("num_wires", "Lt", "MIN_NUM_WIRES"),
            ("max_quotient_degree_factor", "Lt", "MIN_MAX_QUOTIENT_DEGREE_FACTOR"), ("num_routed_wires", "Lt", "MIN_NUM_ROUTED_WIRES")}
    got = set()
    for g in av.gt:
        rc = guards.reject_condition(g)
        if not rc or not (g["outcome"] <= {"err"}):
            continue
        op, a, b_ = rc
        for x, y, o in ((a, b_, op), (b_, a, guards.FLIP[op])):
            cn = const_name(y)
            pp = P.param_path(x)
            if cn and pp and pp.startswith("self."):
                got.add((pp[5:], o, cn))
    # … and the same comparisons written as the predicate of `if let Some(v) = self.flag.filter(|&v| v > MAX) { Err }`
    for g, coll, pred in av.exists_guards():
        if not (g["outcome"] <= {"err"}) or not (isinstance(pred, tuple) and len(pred) == 4 and pred[0] == "bin" and pred[1] in guards.FLIP):
            continue
        for x, y, o in ((pred[2], pred[3], pred[1]), (pred[3], pred[2], guards.FLIP[pred[1]])):
            cn = const_name(y)
            pp = P.param_path(x)
            if cn and pp and pp.startswith("self."):
                got.add((pp[5:], o, cn))
    ob.add({"C28"}, want <= got, "AGREE", "memprof/constants", "AggConfigArgs::validate compares the same flags with the same policy constants (same definitions) and operators as validate_circuit_config", av.loc0,
           {"missing": sorted(want - got), "found": sorted(got)})
    # those constants are the common crate's items (not local copies)
    defs = set()
    for g in list(av.gt) + [{"cond": pred} for _, _, pred in av.exists_guards()]:
        for s in T.walk(g["cond"]):
            if s and s[0] == "c" and s[2] and s[2].rsplit("::", 1)[-1] in ("MAX_RATE_BITS", "MAX_CAP_HEIGHT", "MIN_NUM_WIRES", "MIN_MAX_QUOTIENT_DEGREE_FACTOR", "MIN_NUM_ROUTED_WIRES"):
                defs.add(s[2])
    ob.add({"C28"}, bool(defs) and all(d.startswith(COMMON + "::circuit::") for d in defs), "AGREE", "memprof/constants-same-items", "the profiler uses the common crate's constants, not copies", av.loc0, sorted(defs))
    h1 = av.rejects("Lt", lambda t: "rate_bits" in T.show(t, maxdepth=6) and "unwrap_or" in T.show(t, maxdepth=3), lambda t: (P.call_name(t) or "").endswith("config::log2_ceil"))
    h2 = av.rejects("Gt", lambda t: "num_routed_wires" in T.show(t, maxdepth=6), lambda t: "num_wires" in T.show(t, maxdepth=6) and "unwrap_or" in T.show(t, maxdepth=4))
    # "some flag of the table is Some(0) → Err": a loop with an inner guard, `any`, or `find` + `if let Some`
    zero = [g for g, coll, pred in av.exists_guards() if g["outcome"] <= {"err"} and isinstance(pred, tuple) and pred[0] == "bin" and pred[1] == "Eq"
            and any(P.const_of(x) == 0 or (isinstance(x, tuple) and x and x[0] == "cdef") for x in (pred[2], pred[3]))   # `Some(0)` is a promoted constant
            and any(s == ("elem", coll) for s in T.walk(pred))]
    ob.add({"C28"}, len(h1) == 1 and len(h2) == 1 and len(zero) >= 1, "AGREE", "memprof/effective-values",
           "the rate/quotient and routed/wires rules are evaluated on the effective (flag or baseline) values; zero flags are rejected", av.loc0, [T.show(g["cond"], maxdepth=4)[:120] for g in av.gt])
    lg = e2.MethodView(ck, r"^wormhole_memprof::config::log2_ceil$", "wormhole_memprof")
    rt2 = P.norm(lg.fr.return_term())
    ob.add({"C28"}, not [k for k in range(1, 70) if eval_log2(rt2, lg.param(1), k) != (k - 1).bit_length()], "AGREE", "memprof/log2_ceil", "the profiler's log2_ceil equals the policy's", lg.loc0)
    mm = e2.MethodView(ck, r"^wormhole_memprof::main$", "wormhole_memprof")
    vcs = mm.calls(lambda t: t.get("name") == "validate" and "AggConfigArgs" in (t.get("f") or ""))
    bcs = mm.calls(lambda t: t.get("name") == "build" and "AggConfigArgs" in (t.get("f") or ""))
    ok = len(vcs) == 1 and len(bcs) >= 1
    if ok:
        # validate's Err leads to an error exit; build is only reachable on the Ok side
        gs = [g for g in mm.gt if isinstance(g["cond"], tuple) and g["cond"][0] == "discr" and (P.call_name(g["cond"][1]) or "").endswith("AggConfigArgs::validate")]
        ok = bool(gs) and all(mm.ok_succ(g) is not None and all(mm.dom(mm.ok_succ(g), bb) for bb, _ in bcs) for g in gs)
    ob.add({"C28"}, ok, "DOM", "memprof/validate-before-build", "main builds the config only after AggConfigArgs::validate returned Ok", mm.loc0)
    return ob


def eval_log2(t, n, k):
    t = P.norm(t)
    if t == n:
        return k
    if T.is_const(t):
        return t[1]
    if isinstance(t, tuple) and t[0] == "bin":
        a, b = eval_log2(t[2], n, k), eval_log2(t[3], n, k)
        if a is None or b is None:
            return None
        op = t[1].replace("WithOverflow", "")
        return {"Sub": a - b, "Add": a + b}.get(op)
    nm = P.call_name(t)
    if nm and nm.endswith("leading_zeros"):
        a = eval_log2(t[4][0], n, k)
        return None if a is None else 64 - a.bit_length()
    return None


# ------------------------------------------------------------------------------------------------ C29

VALIDATED_FIELDS = {"self.inner_num_leaves": ("pool::ProofPool", "inner_num_leaves"), "self.batch_size": ("pool::ProofPool", "batch_size")}
HELPER_RX = r"aggregated_output::\w+$|public_batch_pi::(pi_len|exit_slots_per_inner|nullifiers_per_inner|try_pi_len)$|public_batch::circuit::constants::\w+$|common::recursive::add_recursive_verifiers$"


def analyse29(ck):
    ob = Ob()
    prog = ck.prog
    mv = e2.MethodView(ck, "^" + INPUTS + r"::validate_proof_count$", INPUTS)
    cnt = mv.param(1)
    # IVL: the set of counts rejected by the function's guards, whatever comparison form they use (`== 0`, `< 1`, `> MAX`, `MAX < n`,
    # `!(1..=MAX).contains(&n)` …), must be exactly {0} ∪ [65, ∞); the upper bound must be the named constant, every rejection an Err
    rs = guards.rejected_sets(mv.gt, lambda t: P.norm(t) == cnt)
    rejected = guards.union_intervals([iv for _, ivs, _ in rs for iv in ivs])
    # the bound is the shared constant by name, or (a range *pattern* `1..=MAX_PROOF_COUNT` is compiled to its evaluated bounds, which
    # carry no name) by value — the interval comparison above already pins the value to MAX_PROOF_COUNT = 64
    named = any(const_name(c) == "MAX_PROOF_COUNT" for _, _, cs in rs for c in cs) or any(g.get("kind") == "match" for g, _, _ in rs)
    ob.add({"C29", "C24"}, rejected == [(0, 0), (65, None)] and named and all(g["outcome"] <= {"err"} for g, _, _ in rs) and prog.const_value(INPUTS + "::MAX_PROOF_COUNT") == 64, "CMP", "validate_proof_count",
           "validate_proof_count rejects 0 and anything above MAX_PROOF_COUNT = 64 with Err (rejected set %s)" % rejected, mv.loc0, [(T.show(g["cond"])[:80], g["fail_when"]) for g in mv.gt])
    other = [g for g in mv.gt if (g["outcome"] & {"err", "panic"}) and not any(g is g2 for g2, _, _ in rs)]
    ob.add({"C29"}, not other, "INV", "validate_proof_count/exact", "no rejection other than the count bounds: accepts exactly 1..=64", mv.loc0, [(T.show(g["cond"])[:80], g["fail_when"]) for g in other])
    vcs = prog.call_sites(r"qp_wormhole_inputs::validate_proof_count$")
    libs = [x for x in vcs if x[0].crate != "wormhole_memprof"]
    ob.add({"C29"}, len(libs) >= 19, "INV", "validators/floor", "%d library call sites of validate_proof_count (floor 19)" % len(libs))

    memo = {}

    def validated(b, term, site_bb, depth=0):
        """is `term` (in body b) validated before block site_bb"""
        key = (b.id, term, site_bb)
        if key in memo:
            return memo[key]
        memo[key] = False
        fr = T.Evaluator(prog).frame(b)
        res = False
        why = None
        for vb, vt in b.calls():
            if vt.get("name") == "validate_proof_count" and P.norm(fr.operand_term(vt["args"][0])) == term and guards.dominates_ok(b, vb, site_bb):
                res, why = True, "validated in " + b.name
        if not res and T.is_const(term):
            res, why = True, "constant"
        pp = P.param_path(term)
        if not res and pp in VALIDATED_FIELDS:
            res, why = True, "field validated at construction"
        if not res and isinstance(term, tuple) and term[0] == "param" and depth < 3 and e2.effectively_public(prog, b.path) is not True:
            callers = prog.callers().get(b.id, [])
            root_callers = [(cb, cbb, ct) for cb, cbb, ct in callers if cb.crate in ("qp_wormhole_aggregator", "qp_wormhole_inputs", "qp_wormhole_circuit", "qp_zk_circuits_common", "qp_wormhole_verifier", "qp_wormhole_prover", "qp_wormhole_circuit_builder", "wormhole_memprof")]
            if root_callers:
                allok = True
                for cb, cbb, ct in root_callers:
                    cfr = T.Evaluator(prog).frame(cb)
                    idx = term[2] - 1
                    if idx >= len(ct["args"]):
                        allok = False
                        break
                    passed = P.norm(cfr.operand_term(ct["args"][idx]))
                    if not validated(cb, passed, cbb, depth + 1):
                        allok = False
                res, why = allok, "all callers validate"
        memo[key] = res
        return res

    n_sites = 0
    for b, bb, t in prog.call_sites(HELPER_RX):
        if b.d.get("const_fn") or not t["args"]:
            continue
        fr = T.Evaluator(prog).frame(b)
        callee = (t.get("f") or "").rsplit("::", 1)[-1]
        for ai, a in enumerate(t["args"]):
            ty = None
            tm = P.norm(fr.operand_term(a))
            # only integer count operands
            if not (T.is_const(tm) or (isinstance(tm, tuple) and tm[0] in ("param", "fld", "bin"))):
                continue
            pl = a.get("c") or a.get("m")
            if pl is not None and not pl["p"] and b.local_ty(pl["l"]) != "usize":
                continue
            if pl is not None and pl["p"]:
                pass
            n_sites += 1
            ok = validated(b, tm, bb)
            ob.add({"C29"}, ok, "MPT", "helper-operand/%s@%s#%d" % (callee, b.path.split("::", 1)[1], ai),
                   "the count passed to the unchecked layout helper `%s` is validated by validate_proof_count on every path before the call (here or in every caller)" % callee, b.loc(bb), T.show(tm)[:80])
    ob.add({"C29"}, n_sites >= 14, "INV", "helper-operands/floor", "%d count operands of unchecked helpers analysed (floor 14)" % n_sites)
    # validated fields: every construction of ProofPool stores validated values
    for b in prog.production_bodies():
        for bi, blk in enumerate(b.blocks):
            for s in blk["s"]:
                r = s.get("r")
                if r and r["k"] == "agg" and r["ak"].get("t") == "adt" and r["ak"]["adt"].endswith("pool::ProofPool"):
                    fr = T.Evaluator(prog).frame(b)
                    for f in ("inner_num_leaves", "batch_size"):
                        val = P.norm(fr.operand_term(r["ops"][r["ak"]["fields"].index(f)]))
                        ob.add({"C29"}, validated(b, val, bi), "DOM", "pool-field/" + f, "ProofPool.%s is only ever initialised with a validated count" % f, "%s:%s" % (b.file, s.get("ln")))
    # allocation sized by a count parameter: validated first
    n_alloc = 0
    for b, bb, t in prog.call_sites(r"Vec::<T>::with_capacity$"):
        if b.crate not in (AGG, INPUTS, "qp_wormhole_circuit"):
            continue
        fr = T.Evaluator(prog).frame(b)
        tm = P.norm(fr.operand_term(t["args"][0]))
        counts = [s for s in T.walk(tm) if s and s[0] == "param" and fr.body.local_ty(s[2]) == "usize"]
        if not counts:
            continue
        root = e2.root_of(prog, b)
        for c in counts:
            n_alloc += 1
            ok = validated(b, c, bb)
            if not ok:
                # derived operand such as n * 2: the base parameter must be validated
                ok = False
            ob.add({"C29"}, ok, "MPT", "alloc/%s#%s" % (b.path.split("::", 1)[1], c[3]), "Vec::with_capacity sized by count parameter `%s` happens only after validate_proof_count on it" % c[3], b.loc(bb), T.show(tm)[:80])
    ob.add({"C29"}, n_alloc >= 4, "INV", "alloc/floor", "%d count-sized allocations analysed" % n_alloc)
    # checked arithmetic in try_pi_len
    tv = e2.MethodView(ck, INPUTS + r"::public_batch_pi::try_pi_len$", INPUTS)
    ops = [s for blk in tv.body.blocks for s in blk["s"] if s.get("r", {}).get("k") == "bin" and s["r"]["op"] in ("Add", "Mul", "Sub", "AddWithOverflow", "MulWithOverflow", "SubWithOverflow")]
    chk = [t for _, t in tv.body.calls() if (t.get("name") or "").startswith("checked_")]
    ob.add({"C29", "C24"}, not ops and len(chk) >= 4, "TERM", "try_pi_len/checked-arithmetic", "try_pi_len uses only checked_* arithmetic (%d checked ops, %d raw ops)" % (len(chk), len(ops)), tv.loc0)
    # config type and loader
    cv = e2.MethodView(ck, AGG + r"::config::CircuitBinsConfig::validate$", AGG)
    okc = len(cv.calls(lambda t: t.get("name") == "validate_proof_count")) == 2
    for fn in ("new", "load"):
        fv = e2.MethodView(ck, AGG + r"::config::CircuitBinsConfig::" + fn + "$", AGG)
        vcall = fv.calls(lambda t: t.get("name") == "validate" and "CircuitBinsConfig" in (t.get("f") or ""))
        okd = guards._zero_defs(fv.body)
        okblocks = [bi for bi, lst in okd.items() if "ok" in lst or "ok?" in lst]
        ok = len(vcall) == 1 and guards.continue_block(fv.body, vcall[0][0]) is not None and bool(okblocks) and all(cfg.dominates(fv.body, guards.continue_block(fv.body, vcall[0][0]), bi) for bi in okblocks)
        if not ok and len(vcall) == 1:
            # `self.validate().map(|()| self)`: the value is handed back through the validation's own Result
            ok = fv.ok_only_via(vcall[0][0])
        ob.add({"C29"}, ok and okc, "DOM", "config/" + fn, "CircuitBinsConfig::%s returns Ok only after validate() (which validates both counts) succeeded" % fn, fv.loc0)
    # the derived Deserialize field visitor maps both key names to the same field
    mapping = {}
    for b in prog.find(r"CircuitBinsConfig.*__FieldVisitor.*::visit_str$", AGG):
        for bi, blk in enumerate(b.blocks):
            t = blk["t"]
            if t["k"] != "call":
                continue
            ss = [a["k"]["s"] for a in t["args"] if "k" in a and "s" in a["k"]]
            if not ss or t["t"] is None:
                continue
            sw = b.blocks[t["t"]]["t"]
            if sw["k"] != "switch":
                continue
            for st in b.blocks[sw["else"]]["s"]:
                ak = st.get("r", {}).get("ak", {})
                if ak.get("t") == "adt" and ak["adt"].endswith("__Field"):
                    mapping[ss[0]] = ak["variant"]
    alias = mapping.get("num_layer0_proofs") is not None and mapping.get("num_layer0_proofs") == mapping.get("num_private_batch_proofs") != mapping.get("num_leaf_proofs")
    ob.add({"C29"}, alias, "ITEM", "config/legacy-alias", "the config deserializer maps the legacy key `num_layer0_proofs` and `num_private_batch_proofs` to the same field", None, mapping)
    return ob
