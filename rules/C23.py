"""C23 — artifact publication is atomic under failures and crashes (DESIGN.md §5 C23)."""
from . import typestate


def run(ck):
    ck.explanation = ("C23: typestate dataflow over the MIR CFG of commit_staging_dir_impl and generate_all_circuit_binaries: abstract filesystem state "
                      "(output / .old / staging) x the Result and bool locals the code branches on; each rename / remove_dir_all / exists / is_dir site classified by operand provenance; "
                      "both outcomes of every fallible operation and a partial remove_dir_all explored; the atomicity invariant checked at every reachable (program point, state) pair = every crash point; "
                      "success reported iff the new set is live; commit's return states fed into the caller's analysis")
    ck.not_decided = ["POSIX rename atomicity and directory semantics (modelled, trusted)", "'no staging directory behind' is required only when the best-effort cleanup itself succeeds", "a pre-existing `.old` sibling is assumed absent"]
    ob = typestate.analyse(ck)
    ob.emit(ck, "C23")
    ts = getattr(ck, "ts", {})
    ck.extra_cov = {"states": ts.get("states", 0), "transitions": ts.get("transitions", 0), "operations": ts.get("ops"), "return_states": ts.get("returns")}
    ck.floor("TS", "typestate/states", ts.get("states", 0), 60, "reachable (program point, state) pairs explored")
