"""C05 (leaf public-input layout + rejection guards) and C24 (public-input parsers: tables, guards, explicit panics)."""
import re
from . import cfg, guards, e2, circ, leaf
from . import terms as T
from . import pat as P
from .pb import Ob, eval_int

INPUTS = "qp_wormhole_inputs"
CIRC = "qp_wormhole_circuit"
AGG = "qp_wormhole_aggregator"

LEAF_LAYOUT = [("asset_id", 0, 1), ("output_amount_1", 1, 1), ("output_amount_2", 2, 1), ("volume_fee_bps", 3, 1), ("nullifier", 4, 4),
               ("exit_account_1", 8, 4), ("exit_account_2", 12, 4), ("block_hash", 16, 4), ("block_number", 20, 1)]
ROLE_OF = {"zk_merkle_proof.leaf.asset_id": "asset_id", "zk_merkle_proof.leaf.output_amount_1": "output_amount_1", "zk_merkle_proof.leaf.output_amount_2": "output_amount_2",
           "zk_merkle_proof.leaf.volume_fee_bps": "volume_fee_bps", "nullifier.hash": "nullifier", "exit_accounts.exit_account_1.address.elements": "exit_account_1",
           "exit_accounts.exit_account_2.address.elements": "exit_account_2", "block_header.block_hash": "block_hash", "block_header.header.block_number": "block_number"}


def registration_order(ck, view):
    """[(name, offset, width)] in the order the leaf constructor creates public-input targets"""
    out = []
    off = 0
    for e in view.effects:
        if e.name not in ("cb.add_virtual_public_input", "cb.add_virtual_hash_public_input", "cb.add_virtual_public_input_arr", "cb.register_public_input", "cb.register_public_inputs"):
            continue
        if e.name.startswith("cb.register"):
            out.append(("<explicit register_public_input>", off, 0))
            continue
        width = 4 if e.name == "cb.add_virtual_hash_public_input" else 1
        res = e.result
        roles = view.role_of(res)
        name = None
        if not roles:
            # created inside an array::from_fn closure that is itself a role
            b = e.frame.body
            for path, t in view.roles.items():
                for s in T.walk(t):
                    if s and s[0] == "from_fn" and len(s) > 2 and isinstance(s[1], tuple) and s[1][0] == "closure" and s[1][1] == b.id and e.site.startswith(s[2] + ">"):
                        roles = [path]
            if roles:
                # every from_fn over [Target; N]: N from the struct field type
                fty = _field_type(view.prog, roles[0]) or ""
                m = re.search(r";\s*(\d+)\]", fty)
                width = int(m.group(1)) if m else 0
                if not m:
                    # the struct field type names an external constant: read the evaluated length off the MIR local
                    # that receives the array::from_fn result
                    for fe in view.effects:
                        if fe.raw.get("name") == "from_fn" and fe.result == view.roles[roles[0]]:
                            lt = fe.frame.body.local_ty(fe.raw["dest"]["l"])
                            mm = re.search(r";\s*(\d+)\]", lt)
                            width = int(mm.group(1)) if mm else 0
        name = ROLE_OF.get(roles[0]) if roles else None
        out.append((name or "?%s" % (roles or T.show(res)[:40]), off, width))
        off += width
    return out, off


def _field_type(prog, role_path):
    parts = role_path.split(".")
    ty = "CircuitTargets"
    adt = None
    for p in parts:
        cands = [a for k, a in prog.adts.items() if k.endswith("::" + ty) and a["crate"] in (CIRC, "qp_plonky2_core")]
        if not cands:
            return None
        adt = cands[0]
        f = [f for f in adt["variants"][0]["fields"] if f["n"] == p]
        if not f:
            return None
        fty = f[0]["ty"]
        ty = fty.rsplit("::", 1)[-1]
    return fty


def parser_table(mv, pis):
    """field -> (start offset, width) from the Ok(struct) a leaf parser returns"""
    oks = [m for m in circ.ok_members(mv.fr.return_term()) if isinstance(m, tuple) and m[0] == "adt"]
    if len(oks) != 1:
        return None
    table = {}
    for fname, ft in oks[0][3]:
        hit = None
        for s in T.walk(ft):
            if s and s[0] == "idx" and P.norm(s[1]) == pis:
                i = s[2]
                if T.is_const(i):
                    hit = (i[1], 1)
                elif isinstance(i, tuple) and i[0] == "adt" and i[1].endswith("ops::range::Range"):
                    d = dict(i[3])
                    a, b = P.const_of(d.get("start")), P.const_of(d.get("end"))
                    if a is not None and b is not None:
                        hit = (a, b - a)
        table[fname] = hit
    return table


def analyse05(ck, with_profile=False):
    ob = Ob()
    prog = ck.prog
    view = leaf.LeafView(ck)
    order, total = registration_order(ck, view)
    ob.add({"C05", "C24"}, order == LEAF_LAYOUT and total == 21, "ORDER", "leaf/registration-order",
           "the leaf constructor registers public inputs in the order asset, out1, out2, fee, nullifier(4), exit1(4), exit2(4), block hash(4), block number = 21 felts", None, order)
    if with_profile:
        # the `profile` feature swaps in `new_profiled`; the circuit it builds must expose the same statement in the same order
        prog2 = ck.extract("profile")
        v2 = leaf.LeafView(ck, prog2, entry=r"WormholeCircuit::new_profiled$")
        o2, t2 = registration_order(ck, v2)
        ob.add({"C05"}, o2 == LEAF_LAYOUT and t2 == 21, "ORDER", "profile:leaf/registration-order",
               "the `profile` build's constructor (new_profiled) registers public inputs in the same order (21 felts)", "%s:%s" % (v2.frame.body.file, v2.frame.body.line), o2)
    cst = {n: prog.const_value(INPUTS + "::" + n) for n in ("ASSET_ID_INDEX", "OUTPUT_AMOUNT_1_INDEX", "OUTPUT_AMOUNT_2_INDEX", "VOLUME_FEE_BPS_INDEX", "NULLIFIER_START_INDEX", "NULLIFIER_END_INDEX",
                                                             "EXIT_ACCOUNT_1_START_INDEX", "EXIT_ACCOUNT_1_END_INDEX", "EXIT_ACCOUNT_2_START_INDEX", "EXIT_ACCOUNT_2_END_INDEX", "BLOCK_HASH_START_INDEX",
                                                             "BLOCK_HASH_END_INDEX", "BLOCK_NUMBER_INDEX", "PUBLIC_INPUTS_FELTS_LEN")}
    want_idx = {"ASSET_ID_INDEX": 0, "OUTPUT_AMOUNT_1_INDEX": 1, "OUTPUT_AMOUNT_2_INDEX": 2, "VOLUME_FEE_BPS_INDEX": 3, "NULLIFIER_START_INDEX": 4, "NULLIFIER_END_INDEX": 8, "EXIT_ACCOUNT_1_START_INDEX": 8,
                "EXIT_ACCOUNT_1_END_INDEX": 12, "EXIT_ACCOUNT_2_START_INDEX": 12, "EXIT_ACCOUNT_2_END_INDEX": 16, "BLOCK_HASH_START_INDEX": 16, "BLOCK_HASH_END_INDEX": 20, "BLOCK_NUMBER_INDEX": 20, "PUBLIC_INPUTS_FELTS_LEN": 21}
    ob.add({"C05", "C24"}, cst == want_idx, "AGREE", "leaf/index-constants", "qp_wormhole_inputs::*_INDEX constants equal the registration order", None, cst)
    ag = {n: prog.const_value("private_batch::circuit::constants::" + n) for n in ("LEAF_PI_LEN", "ASSET_ID_START", "OUTPUT_AMOUNT_1_START", "OUTPUT_AMOUNT_2_START", "VOLUME_FEE_BPS_START", "NULLIFIER_START",
                                                                                  "EXIT_1_START", "EXIT_2_START", "BLOCK_HASH_START", "BLOCK_NUMBER_START")}
    want_ag = {"LEAF_PI_LEN": 21, "ASSET_ID_START": 0, "OUTPUT_AMOUNT_1_START": 1, "OUTPUT_AMOUNT_2_START": 2, "VOLUME_FEE_BPS_START": 3, "NULLIFIER_START": 4, "EXIT_1_START": 8, "EXIT_2_START": 12,
               "BLOCK_HASH_START": 16, "BLOCK_NUMBER_START": 20}
    ob.add({"C05", "C24", "C06"}, ag == want_ag, "AGREE", "leaf/aggregator-offsets", "the aggregator's LEAF_PI_LEN / *_START constants equal the registration order", None, ag)
    want_tbl = {n: (o, w) for n, o, w in LEAF_LAYOUT}
    for rx, crate, key in ((INPUTS + r"::PublicCircuitInputs::try_from_u64_slice$", INPUTS, "u64"), (r"PublicCircuitInputs as .*ParsePublicInputs>::try_from_felts$", CIRC, "felts")):
        mv = e2.MethodView(ck, rx, crate)
        tbl = parser_table(mv, mv.param(1))
        ob.add({"C05", "C24"}, tbl == want_tbl, "AGREE", "leaf/parser-table/" + key, "the %s leaf parser reads every field at the registered offset and width" % key, mv.loc0, tbl)
        lg = mv.rejects("Ne", lambda t: P.norm(t) == ("len", mv.param(1)), lambda t: P.const_of(t) == 21)
        first = [bb for bb, t in mv.body.calls() if t.get("name") in ("index", "try_into", "hash_u64s_to_bytes_digest", "try_4_felts_to_bytes", "to_canonical_u64")]
        ok = len(lg) == 1 and lg[0]["outcome"] <= {"err"} and mv.ok_succ(lg[0]) is not None and all(mv.dom(mv.ok_succ(lg[0]), bb) for bb in first)
        ob.add({"C05", "C24"}, ok, "CMP+DOM", "leaf/parser-length/" + key, "the %s leaf parser rejects len != 21 before touching any element" % key, mv.loc0)
    # rejection guards of malformed shape inputs
    fw = e2.MethodView(ck, r"^qp_wormhole_prover::fill_witness$", "qp_wormhole_prover")
    md = prog.const_value("zk_merkle::MAX_DEPTH")
    # IVL: the values of the depth that each boundary rejects must be exactly (MAX_DEPTH, ∞), in whatever comparison form — a guard that
    # also turns away an honest depth <= MAX_DEPTH breaks completeness, one that lets MAX_DEPTH+1 through breaks the shape bound
    def exact_bound(mv, var_pred, limit):
        rs = guards.rejected_sets(mv.gt, var_pred)
        rej = guards.union_intervals([iv for _, ivs, _ in rs for iv in ivs])
        return rs, rej, (rej == [(limit + 1, None)] and all(g["outcome"] <= {"err"} for g, _, _ in rs))

    sib_len = lambda path: (lambda t: isinstance(t, tuple) and t[0] == "len" and P.param_path(t[1]) == path)
    g, rej, okg = exact_bound(fw, sib_len("circuit_inputs.private.zk_merkle_siblings"), md)
    others = [bb for bb, t in fw.body.calls() if t.get("name") in ("from", "try_from", "from_bytes", "fill_targets")]
    ob.add({"C05"}, okg and all(fw.ok_succ(x[0]) is not None and all(fw.dom(fw.ok_succ(x[0]), bb) for bb in others) for x in g) and len(others) >= 8, "CMP+DOM", "prover/depth-guard",
           "fill_witness rejects exactly depth > MAX_DEPTH(=%d) with Err before any conversion or target fill (rejected set %s)" % (md, rej), g[0][0]["loc"] if g else fw.loc0)
    tf = e2.MethodView(ck, r"ZkMerkleProofData as core::convert::TryFrom<&.*CircuitInputs>>::try_from$", CIRC)
    g1, rej1, ok1 = exact_bound(tf, sib_len("inputs.private.zk_merkle_siblings"), md)
    g2 = tf.rejects("Ne", lambda t: isinstance(t, tuple) and t[0] == "len" and "zk_merkle_positions" in T.show(t), lambda t: isinstance(t, tuple) and t[0] == "len" and "zk_merkle_siblings" in T.show(t))
    clones = [bb for bb, t in tf.body.calls() if t.get("name") == "clone"]
    ok = ok1 and len(g2) == 1 and all(g_["outcome"] <= {"err"} for g_ in g2) and len(clones) >= 2 and all(tf.dom(tf.ok_succ(g2[0]), bb) and all(tf.dom(tf.ok_succ(x[0]), bb) for x in g1) for bb in clones)
    ob.add({"C05"}, ok, "CMP+DOM", "try_from/guards-before-clone", "ZkMerkleProofData::try_from rejects exactly depth > MAX_DEPTH (rejected set %s) and positions.len() != siblings.len() before cloning either vector" % rej1, tf.loc0,
           [(T.show(g_["cond"])[:100], g_["fail_when"]) for g_ in tf.gt])
    ft = e2.MethodView(ck, r"ZkMerkleProofData as .*CircuitFragment>::fill_targets$", CIRC)
    g3, rej3, ok3 = exact_bound(ft, lambda t: "positions" in T.show(t, maxdepth=6) and not (isinstance(t, tuple) and t[0] == "len"), 3)
    setpos = [e for e in ft.effects if e.raw.get("name") == "set_target" and "positions" in T.show(e.args[1], maxdepth=5)]
    ok = ok3 and len(setpos) == 1 and all(ft.dom(ft.ok_succ(x[0]), setpos[0].bb) for x in g3)
    ob.add({"C05"}, ok, "CMP+DOM", "fill_targets/position-guard", "fill_targets rejects exactly a position > 3 with Err before assigning the position target (rejected set %s)" % rej3, g3[0][0]["loc"] if g3 else ft.loc0)
    g4, rej4, ok4 = exact_bound(ft, lambda t: P.param_path(t) == "self.depth", md)
    g5 = ft.rejects("Ne", lambda t: isinstance(t, tuple) and t[0] == "len" and P.param_path(t[1]) == "self.positions", lambda t: isinstance(t, tuple) and t[0] == "len" and P.param_path(t[1]) == "self.siblings")
    ob.add({"C05"}, ok4 and len(g5) == 1 and all(g_["outcome"] <= {"err"} for g_ in g5), "CMP", "fill_targets/shape-guards", "fill_targets re-checks exactly depth <= MAX_DEPTH (rejected set %s) and positions/siblings length equality (Err)" % rej4, ft.loc0)
    # the verifier loader part is shared with C17
    from . import loaders
    lo = loaders.analyse(ck)
    for it in lo.items:
        if it[3].startswith("verifier-crate/"):
            ob.items.append(({"C05"},) + tuple(it[1:]))
    return ob


def explicit_panics(prog, body, seen=None, depth=0):
    """explicit panic sites (unwrap/expect/panic!/unreachable!/assert!) reachable from `body` through workspace callees"""
    seen = seen if seen is not None else set()
    if body.id in seen or depth > 6:
        return []
    seen.add(body.id)
    out = []
    for bb, t in body.calls():
        f = t.get("f") or ""
        nm = t.get("name")
        if any(str(m).startswith("debug_assert") for m in t.get("macros", ())):
            continue   # compiled out of release builds; in debug builds it documents an invariant, it is not an input-dependent panic path
        if f.startswith(("core::panicking::", "std::rt::begin_panic", "core::option::expect_failed", "core::result::unwrap_failed", "core::option::unwrap_failed")) or \
                (nm in ("unwrap", "expect", "unwrap_unchecked", "expect_err", "unwrap_err") and f.startswith(("core::option::Option", "core::result::Result"))):
            out.append((body.path, body.loc(bb), nm or f.rsplit("::", 1)[-1]))
        cid = t.get("rid") or t.get("fid")
        cb = prog.bodies.get(cid) if cid else None
        if cb is not None:
            out += explicit_panics(prog, cb, seen, depth + 1)
        # closures passed along
        for a in t["args"]:
            pass
    for cl in prog.closures_of(body):
        out += explicit_panics(prog, cl, seen, depth + 1)
    return out


def analyse24(ck):
    ob = Ob()
    prog = ck.prog
    o5 = analyse05(ck)
    for it in o5.items:
        if "C24" in it[0]:
            ob.items.append(it)
    from . import limits
    for it in limits.analyse29(ck).items:
        if "C24" in it[0]:
            ob.items.append(it)
    # "canonical digests": every digest a parser returns is built by the checking constructor (decided with C25's digest rules)
    from . import encoding
    for it in encoding.analyse25(ck).items:
        if "C24" in it[0] and it[3].startswith("digest/"):
            ob.items.append(it)
    # ---- private-batch parsers (u64 and felts)
    for rx, crate, key in ((INPUTS + r"::PrivateBatchPublicInputs::try_from_u64_slice$", INPUTS, "u64"), (r"PrivateBatchPublicInputs as .*ParsePrivateBatchPublicInputs>::try_from_felts$", CIRC, "felts")):
        mv = e2.MethodView(ck, rx, crate)
        pis = mv.param(1)
        oks = [m for m in circ.ok_members(mv.fr.return_term()) if isinstance(m, tuple) and m[0] == "adt"]
        hdr = {}
        if len(oks) == 1:
            d = dict(oks[0][3])

            def first_index(t):
                for s in T.walk(t):
                    if s and s[0] == "idx" and P.norm(s[1]) == pis:
                        i = s[2]
                        if T.is_const(i):
                            return i[1]
                        if isinstance(i, tuple) and i[0] == "adt" and i[1].endswith("ops::range::Range"):
                            dd = dict(i[3])
                            return (P.const_of(dd.get("start")), P.const_of(dd.get("end")))
                return None
            hdr = {"num_exit_slots": first_index(d.get("num_exit_slots")), "asset_id": first_index(d.get("asset_id")), "volume_fee_bps": first_index(d.get("volume_fee_bps"))}
            bd = d.get("block_data")
            if isinstance(bd, tuple) and bd[0] == "adt":
                bdd = dict(bd[3])
                hdr["block_hash"] = first_index(bdd.get("block_hash"))
                hdr["block_number"] = first_index(bdd.get("block_number"))
        want = {"num_exit_slots": 0, "asset_id": 1, "volume_fee_bps": 2, "block_hash": (3, 7), "block_number": 7}
        ob.add({"C24"}, hdr == want, "AGREE", "private-batch/header-indices/" + key, "the %s private-batch parser reads the header at {0, 1, 2, 3..7, 7} (the writer's layout, C06)" % key, mv.loc0, hdr)
        vc = mv.calls(lambda t: t.get("name") == "validate_proof_count")
        allocs = [bb for bb, t in mv.body.calls() if t.get("name") in ("with_capacity",) or (t.get("name") == "take" and "iter" in (t.get("f") or ""))]
        loops = [bb for bb, t in mv.body.calls() if t.get("name") in ("next", "collect")]
        okv = len(vc) == 1 and guards.continue_block(mv.body, vc[0][0]) is not None and all(cfg.dominates(mv.body, guards.continue_block(mv.body, vc[0][0]), bb) for bb in allocs + loops) and bool(allocs + loops)
        nterm = P.norm(mv.fr.operand_term(vc[0][1]["args"][0])) if vc else None
        nval = [k for k in (8 + 21, 8 + 21 * 5, 8 + 21 * 64) if nterm is None or eval_len(nterm, pis, k) != (k - 8) // 21]
        ob.add({"C24", "C29"}, okv and not nval, "DOM", "private-batch/count-validated/" + key, "n = (len - 8) / 21 is validated by validate_proof_count before any allocation or loop", mv.loc0, T.show(nterm)[:120] if nterm else None)
        # 2n == num_exit_slots
        gs = [g for g in mv.gt if g["outcome"] <= {"err"} and guards.reject_condition(g) and guards.reject_condition(g)[0] == "Ne" and "Mul" in T.show(g["cond"], maxdepth=6)]
        ok2 = any(any(T.is_const(s) and s[1] == 2 for s in T.walk(g["cond"])) for g in gs)
        ob.add({"C24"}, ok2, "CMP", "private-batch/slot-count-check/" + key, "rejects when the header's num_exit_slots differs from 2 * n", mv.loc0)
        # length shape: len >= 8 and (len - 8) % 21 == 0
        shape = [g for g in mv.gt if g["outcome"] <= {"err"} and ("is_multiple_of" in T.show(g["cond"], maxdepth=6) or "Rem" in T.show(g["cond"], maxdepth=8) or "checked_sub" in T.show(g["cond"], maxdepth=8))]
        ob.add({"C24"}, bool(shape), "CMP", "private-batch/length-shape/" + key, "rejects lengths that are not 8 + 21 * n", mv.loc0, [T.show(g["cond"], maxdepth=5)[:120] for g in mv.gt][:6])
        # IVL: the guards' terms evaluated on a grid of (length, header[0]) reject exactly what the layout forbids — whatever the form of
        # the comparisons (a guard that rejects an admissible input is reported as well as one that lets a malformed one through)
        from . import evalt
        gl = [g for g in mv.gt if (g["outcome"] & {"err", "panic"})]
        vcs = [(bb, P.norm(mv.fr.operand_term(t["args"][0]))) for bb, t in vc]
        bad = []
        evaluated = 0
        for n_ in (0, 1, 2, 5, 63, 64, 65):
            for dl in (-1, 0, 1, 7):
                L = 8 + 21 * n_ + dl
                if L < 0:
                    continue
                for dh in (-1, 0, 1):
                    h0 = 2 * n_ + dh if dl == 0 else 2 * max(n_, 1)
                    if h0 < 0 or (dl != 0 and dh != 0):
                        continue
                    env = {("len", pis): L}
                    for k in range(0, 12):
                        env[("idx", pis, ("c", k, None))] = h0 if k == 0 else 0
                    want_reject = not (L >= 8 and (L - 8) % 21 == 0 and 1 <= (L - 8) // 21 <= 64 and h0 == 2 * ((L - 8) // 21))
                    verdicts = [evalt.guard_rejects(g, env, mv.fr) for g in gl]
                    for bb_, a_ in vcs:
                        v_ = evalt.ev(a_, env, mv.fr)
                        verdicts.append(None if v_ in (evalt.UNK, evalt.NONE, evalt.ERR) or isinstance(v_, bool) else not (1 <= v_ <= 64))
                    evaluated += 1
                    got = any(x is True for x in verdicts)
                    if got != want_reject:
                        bad.append({"len": L, "pis[0]": h0, "spec": "reject" if want_reject else "accept", "guards": "reject" if got else "no rejection found"})
        ob.add({"C24"}, not bad and evaluated >= 30, "IVL", "private-batch/acceptance-grid/" + key,
               "on a grid of %d (length, num_exit_slots) pairs around n = 0, 1, 2, 5, 63, 64, 65 the parser's guard terms reject exactly the inputs that are not 8 + 21n long with 1 <= n <= 64 and pis[0] = 2n" % evaluated,
               mv.loc0, bad[:6])
    # ---- public batch parser
    mv = e2.MethodView(ck, INPUTS + r"::PublicBatchPublicInputs::try_from_u64_slice$", INPUTS)
    pis = mv.param(1)
    vc = mv.calls(lambda t: t.get("name") == "validate_proof_count")
    tl = mv.calls(lambda t: t.get("name") == "try_pi_len")
    allocs = [bb for bb, t in mv.body.calls() if t.get("name") in ("with_capacity", "next")]
    ok = len(vc) == 2 and len(tl) == 1 and all(guards.continue_block(mv.body, b_) is not None for b_, _ in vc) and \
        all(cfg.dominates(mv.body, guards.continue_block(mv.body, b_), tl[0][0]) for b_, _ in vc) and all(cfg.dominates(mv.body, tl[0][0], bb) for bb in allocs) and bool(allocs)
    ob.add({"C24", "C29"}, ok, "DOM", "public-batch/counts-validated", "both counts are validated before try_pi_len, which precedes every allocation/loop", mv.loc0)
    lg = mv.rejects("Ne", lambda t: P.norm(t) == ("len", pis), lambda t: "try_pi_len" in T.show(t, maxdepth=4))
    ob.add({"C24"}, len(lg) == 1 and lg[0]["outcome"] <= {"err"}, "CMP", "public-batch/length", "rejects len != try_pi_len(M, N)", mv.loc0)
    te = mv.rejects("Ne", lambda t: True, lambda t: True)
    tot = [g for g in te if "checked_mul" in T.show(g["cond"], maxdepth=8) and "[11]" in T.show(g["cond"], maxdepth=8).replace("11=", "") or "11" in T.show(g["cond"], maxdepth=8)]
    ob.add({"C24"}, any("checked_mul" in T.show(g["cond"], maxdepth=8) for g in te), "CMP", "public-batch/total-slot-check", "rejects when the header's total_exit_slots differs from M * 2N", mv.loc0)
    oks = [m for m in circ.ok_members(mv.fr.return_term()) if isinstance(m, tuple) and m[0] == "adt"]
    hdr = {}
    if len(oks) == 1:
        d = dict(oks[0][3])

        def fi(t):
            for s in T.walk(t):
                if s and s[0] == "idx" and P.norm(s[1]) == pis:
                    i = s[2]
                    if T.is_const(i):
                        return i[1]
                    if isinstance(i, tuple) and i[0] == "adt" and i[1].endswith("ops::range::Range"):
                        dd = dict(i[3])
                        return (P.const_of(dd.get("start")), P.const_of(dd.get("end")))
            return None
        hdr = {k: fi(d.get(k)) for k in ("aggregator_address", "asset_id", "volume_fee_bps", "total_exit_slots")}
        bd = d.get("block_data")
        if isinstance(bd, tuple) and bd[0] == "adt":
            hdr["block_hash"] = fi(dict(bd[3]).get("block_hash"))
            hdr["block_number"] = fi(dict(bd[3]).get("block_number"))
    want = {"aggregator_address": (0, 4), "asset_id": 4, "volume_fee_bps": 5, "block_hash": (6, 10), "block_number": 10, "total_exit_slots": 11}
    ob.add({"C24"}, hdr == want, "AGREE", "public-batch/header-indices", "the public-batch parser reads the header at {0..4, 4, 5, 6..10, 10, 11} (the writer's layout, C12)", mv.loc0, hdr)
    # try_pi_len value table = 12 + m*2n*5 + m*n*4 evaluated by symbolic execution of its match arms is out of reach; compare pi_len instead
    pl = e2.MethodView(ck, INPUTS + r"::public_batch_pi::pi_len$", INPUTS)
    rt = P.norm(T.Evaluator(prog, inline=lambda p: "public_batch_pi::" in p).frame(pl.body).return_term())
    bad = [(m, n) for m in (1, 2, 64) for n in (1, 3, 64) if eval_int(rt, {pl.param(1): m, pl.param(2): n}) != 12 + m * 2 * n * 5 + m * n * 4]
    ob.add({"C24"}, not bad, "TERM", "public-batch/pi_len", "public_batch_pi::pi_len(M, N) = 12 + M*2N*5 + M*N*4 (evaluated on the extracted term)", pl.loc0, bad)
    # u32 / digest conversions go through fallible conversions
    for rx, crate in ((INPUTS + r"::PublicCircuitInputs::try_from_u64_slice$", INPUTS), (INPUTS + r"::PrivateBatchPublicInputs::try_from_u64_slice$", INPUTS), (INPUTS + r"::PublicBatchPublicInputs::try_from_u64_slice$", INPUTS)):
        mv = e2.MethodView(ck, rx, crate)
        casts = [s for blk in mv.body.blocks for s in blk["s"] if s.get("r", {}).get("k") == "cast" and s["r"]["ck"] == "IntToInt" and s["r"]["ty"] == "u32"]
        ti = mv.calls(lambda t: t.get("name") == "try_into" or t.get("name") == "try_from")
        ob.add({"C24"}, not casts and len(ti) >= 3, "TERM", "u32-conversions/" + mv.body.path.rsplit("::", 2)[-2], "u32 fields are produced by try_into (%d sites), never by a truncating cast" % len(ti), mv.loc0)
    # explicit panic inventory over the five parser entry points
    allow = {"qp_zk_circuits_common::utils::digest_to_bytes"}
    entries = [(INPUTS + r"::PublicCircuitInputs::try_from_u64_slice$", INPUTS), (INPUTS + r"::PrivateBatchPublicInputs::try_from_u64_slice$", INPUTS), (INPUTS + r"::PublicBatchPublicInputs::try_from_u64_slice$", INPUTS),
               (r"PublicCircuitInputs as .*ParsePublicInputs>::try_from_felts$", CIRC), (r"PrivateBatchPublicInputs as .*ParsePrivateBatchPublicInputs>::try_from_felts$", CIRC)]
    for rx, crate in entries:
        b = prog.one(rx, crate)
        ps = [p for p in explicit_panics(prog, b) if p[0] not in allow and not p[2].startswith(("panic_bounds_check", "panic_const", "panic_misaligned", "panic_nounwind", "slice_index", "slice_start", "slice_end"))]
        ob.add({"C24"}, not ps, "INV", "no-explicit-panic/" + b.path.rsplit("::", 2)[-2] + "::" + b.name, "no unwrap/expect/panic!/assert! reachable from this parser (allow-list: digest_to_bytes' unreachable expect)", "%s:%s" % (b.file, b.line), ps[:5])
    return ob


def eval_len(t, pis, k):
    t = P.norm(t)
    if t == ("len", pis):
        return k
    if T.is_const(t):
        return t[1]
    if isinstance(t, tuple) and t[0] == "bin":
        a, b = eval_len(t[2], pis, k), eval_len(t[3], pis, k)
        if a is None or b is None:
            return None
        op = t[1].replace("WithOverflow", "")
        try:
            return {"Sub": a - b, "Add": a + b, "Div": a // b, "Mul": a * b, "Rem": a % b}.get(op)
        except Exception:
            return None
    nm = P.call_name(t)
    if nm and (nm.endswith("checked_sub") or nm.endswith("filter")):
        if nm.endswith("checked_sub"):
            a, b = eval_len(t[4][0], pis, k), eval_len(t[4][1], pis, k)
            return None if a is None or b is None else a - b
        return eval_len(t[4][0], pis, k)
    return None
