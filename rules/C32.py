"""C32 — Debug output never reveals secret or deposit-identifying data (DESIGN.md §5 C32)."""
from . import secrets


def run(ck):
    ck.explanation = ("C32: table of sensitive (type, field) pairs; each such type has a hand-written Debug impl whose body never reads a sensitive field (the rendering of those fields is a literal), "
                      "implements no Display/Serialize/hex formatting; Secret and SensitiveFelts implement no rendering trait at all; no other type derives Debug over a raw secret-named field")
    ck.not_decided = ["formatting performed by callers outside the workspace on values they obtained through expose_*", "error strings elsewhere (e.g. fill_targets formats an invalid position > 3) are out of the property's scope"]
    ob = secrets.analyse32(ck)
    ob.emit(ck, "C32")
    ck.floor("ITEM", "secrets/obligations", len(ob.items), 45, "C32 obligations evaluated")
    if ck.tier == "thorough":
        from . import witnesses
        witnesses.run(ck, ["secret_no_debug", "sensitive_felts_no_debug"])
