"""Rules over artifact loading (aggregator/common/utils.rs, verifier/lib.rs, aggregator.rs): C17, C18."""
import re
from . import cfg, guards, e2, circ
from . import terms as T
from . import pat as P
from .pb import Ob

AGG = "qp_wormhole_aggregator"
VER = "qp_wormhole_verifier"
UT = AGG + "::common::utils::"

ARTIFACT_NAMES = {"common.bin", "verifier.bin", "dummy_proof.bin", "private_batch_common.bin", "private_batch_verifier.bin", "dummy_private_batch_proof.bin",
                  "public_batch_common.bin", "public_batch_verifier.bin", "config.json"}


def ok_def_blocks(body):
    return [bi for bi, lst in guards._zero_defs(body).items() if "ok" in lst or "ok?" in lst]


VERIFIER_SIDE_KINDS = ("CommonCircuitData", "VerifierOnlyCircuitData", "CommonVerifierData")


def artifact_kind(t):
    return re.search(r"circuit_data::(\w+)", t.get("r") or t.get("f")).group(1)


def is_prover_side(t):
    return artifact_kind(t) not in VERIFIER_SIDE_KINDS


def analyse(ck):
    ob = Ob()
    prog = ck.prog

    # ---------------------------------------------------------------- who reads files
    readers = prog.call_sites(r"^std::fs::(read|read_to_string|read_link)$|std::fs::File::open$|OpenOptions::open$|std::io::Read>::read_to_end$|::read_to_end$|::read_exact$")
    by_root = {}
    for b, bb, t in readers:
        by_root.setdefault(e2.root_of(prog, b).path, []).append((b, bb, t))
    allowed = {UT + "read_artifact_file", VER + "::read_artifact_file"}
    # named exception: the profiler samples its own RSS from the constant path /proc/self/status — not an artifact
    exc = "wormhole_memprof::memory::linux::proc_status"
    extra = [p for p in by_root if p not in allowed and p != exc]
    ob.add({"C17"}, not extra and allowed <= set(by_root), "WMC", "file-readers", "files are read only inside the two capped readers read_artifact_file (aggregator, verifier)", None, sorted(by_root))
    if exc in by_root:
        b, bb, t = by_root[exc][0]
        fr = T.Evaluator(prog).frame(b)
        a0 = fr.operand_term(t["args"][0])
        ob.add({"C17"}, a0 == ("cs", "/proc/self/status"), "WMC", "file-readers/memprof-exception", "memprof's only file read is the constant path /proc/self/status", b.loc(bb), T.show(a0))
    for rx, crate, capname, capval in ((UT + "read_artifact_file$", AGG, "common::utils::MAX_ARTIFACT_FILE_BYTES", 64 * 1024 * 1024), ("^" + VER + "::read_artifact_file$", VER, "MAX_VERIFIER_ARTIFACT_BYTES", 1024 * 1024)):
        mv = e2.MethodView(ck, rx, crate)
        rd = mv.calls(lambda t: (t.get("f") or "") == "std::fs::read")
        md = mv.calls(lambda t: (t.get("f") or "") == "std::fs::metadata")
        g = mv.rejects("Gt", lambda t: isinstance(t, tuple) and t and t[0] == "len" and (P.call_name(t[1]) or "") == "std::fs::metadata" and P.norm(t[1][4][0]) == mv.param(1),
                       lambda t: P.const_of(t) == capval)
        ok = len(rd) == 1 and len(md) == 1 and len(g) == 1 and g[0]["outcome"] <= {"err"} and mv.ok_succ(g[0]) is not None and mv.dom(mv.ok_succ(g[0]), rd[0][0])
        same_path = ok and mv.fr.operand_term(rd[0][1]["args"][0]) == mv.fr.operand_term(md[0][1]["args"][0]) == mv.param(1)
        ob.add({"C17"}, ok and same_path and prog.const_value(capname) == capval, "CMP+DOM", "capped-read/" + crate, "%s::read_artifact_file: metadata(path).len() > %d → Err dominates fs::read(path)" % (crate, capval),
               mv.body.loc(rd[0][0]) if rd else mv.loc0, [(T.show(x["cond"])[:120], x["fail_when"]) for x in mv.gt])
    # ---------------------------------------------------------------- who deserializes circuit data
    fb = [(b, bb, t) for b, bb, t in prog.call_sites(r"::from_bytes$") if re.search(r"circuit_data::\w+::<.*>::from_bytes$|circuit_data::\w+::from_bytes$", t.get("r") or t.get("f") or "")]
    kinds = {}
    for b, bb, t in fb:
        k = artifact_kind(t)
        kinds.setdefault(k, set()).add(e2.root_of(prog, b).path)
    bad_kinds = [k for k in kinds if k not in VERIFIER_SIDE_KINDS]
    ob.add({"C17"}, not bad_kinds, "WMC", "no-prover-artifact-deserialization", "no ProverCircuitData / ProverOnlyCircuitData / CircuitData is ever deserialized in production code", None, {k: sorted(v) for k, v in kinds.items()})
    sites = set()
    for v in kinds.values():
        sites |= v
    ob.add({"C17"}, sites == {UT + "load_verifier_data_from_bytes", VER + "::WormholeVerifier::new_from_bytes"}, "WMC", "verifier-data-deserializers",
           "Common/VerifierOnly circuit data are deserialized only in load_verifier_data_from_bytes and WormholeVerifier::new_from_bytes", None, sorted(sites))
    ob.add({"C17"}, len(fb) >= 4, "WMC", "verifier-data-deserializers/floor", "at least 4 circuit-data from_bytes sites (%d found)" % len(fb))
    callers = sorted(e2.who_calls(prog, r"common::utils::load_verifier_data_from_bytes$"))
    ob.add({"C17"}, callers == [AGG + "::aggregator::load_public_batch_verifier_from_bins"], "WMC", "load_verifier_data_from_bytes-callers", "the raw deserializer is only called by load_public_batch_verifier_from_bins", None, callers)
    # public batch: semantic match before use
    mv = e2.MethodView(ck, AGG + r"::aggregator::load_public_batch_verifier_from_bins$", AGG)
    ld = mv.calls(lambda t: t.get("name") == "load_verifier_data_from_bytes")
    en = mv.calls(lambda t: t.get("name") == "ensure_verifier_data_matches_canonical")
    cn = mv.calls(lambda t: t.get("name") == "canonical_public_batch_verifier_data")
    ok = len(ld) == 1 and len(en) == 1 and len(cn) == 1
    if ok:
        a = [P.norm(mv.fr.operand_term(x)) for x in en[0][1]["args"]]
        loaded = P.norm(mv.fr.call_term(ld[0][0]))
        canon = P.norm(mv.fr.call_term(cn[0][0]))
        okd = ok_def_blocks(mv.body)
        cb = guards.continue_block(mv.body, en[0][0])
        ok = a[0] == loaded and a[1] == canon and cb is not None and bool(okd) and all(cfg.dominates(mv.body, cb, bi) for bi in okd)
        cargs = [P.norm(mv.fr.operand_term(x)) for x in cn[0][1]["args"]]
        ok = ok and cargs == [mv.param(2), mv.param(4), mv.param(3)]
    ob.add({"C17"}, ok, "DOM+PROV", "public-batch/semantic-match-before-use", "the loaded public-batch verifier is returned only after ensure_verifier_data_matches_canonical(loaded, canonical rebuild for the configured shape) succeeded", mv.loc0)
    # ensure_verifier_data_matches_canonical / ensure_common_matches_canonical / ensure_config_is_canonical compare whole values
    for fn, want in (("ensure_verifier_data_matches_canonical", 1), ("ensure_common_matches_canonical", 1), ("ensure_config_is_canonical", 1), ("ensure_artifact_bytes_match_canonical", 2)):
        mv = e2.MethodView(ck, "^" + UT.replace("::", "::") + fn + "$", AGG)
        ne = [g for g in mv.gt if g["outcome"] <= {"err"} and guards.reject_condition(g) and guards.reject_condition(g)[0] == "Ne"]
        det = [(T.show(g["cond"], maxdepth=5)[:200], g["fail_when"]) for g in mv.gt]
        okn = len(ne) == want
        if fn == "ensure_artifact_bytes_match_canonical" and okn:
            # raw slice inequality between the caller's bytes and the canonical serialization (whole slices: length AND content)
            # by position, not by parameter name: parameter 1 (the common bytes) against to_bytes of parameter 3's `.common`,
            # parameter 2 (the verifier-only bytes) against to_bytes of parameter 3's `.verifier_only`
            seen = set()
            for g in ne:
                op, x, y = guards.reject_condition(g)
                for a_, b_ in ((P.norm(x), P.norm(y)), (P.norm(y), P.norm(x))):
                    for k_, fld_ in ((1, "common"), (2, "verifier_only")):
                        if a_ == mv.param(k_):
                            tb = [s_ for s_ in T.walk(b_) if (P.call_name(s_) or "").endswith("::to_bytes") and s_[4]]
                            if any(P.norm(s_[4][0]) == ("fld", mv.param(3), fld_) for s_ in tb):
                                seen.add(k_)
            okn = seen == {1, 2}
        if fn in ("ensure_verifier_data_matches_canonical", "ensure_common_matches_canonical", "ensure_config_is_canonical") and okn:
            # WHOLE values: parameter 1 against parameter 2 (for the verifier data: their `.verifier_only` parts), directly or through
            # their serialization — not one field of them (`.circuit_digest` alone leaves the Merkle cap unpinned)
            part = (lambda k_: ("fld", mv.param(k_), "verifier_only")) if fn == "ensure_verifier_data_matches_canonical" else (lambda k_: mv.param(k_))
            def whole(t_, k_):
                t_ = P.ok_value(t_)
                if (P.call_name(t_) or "").endswith("::to_bytes") and t_[4]:
                    t_ = P.norm(t_[4][0])
                return t_ == part(k_)
            op_, x_, y_ = guards.reject_condition(ne[0])
            okn = (whole(x_, 1) and whole(y_, 2)) or (whole(x_, 2) and whole(y_, 1))
        if fn == "ensure_verifier_data_matches_canonical" and okn:
            sub = mv.calls(lambda t: t.get("name") == "ensure_common_matches_canonical")
            okn = len(sub) == 1 and guards.continue_block(mv.body, sub[0][0]) is not None
        if fn == "ensure_common_matches_canonical" and okn:
            sub = mv.calls(lambda t: t.get("name") == "ensure_config_is_canonical")
            okn = len(sub) == 1
        okd = ok_def_blocks(mv.body)
        # Ok only after every comparison passed
        for g in ne:
            oks = mv.ok_succ(g)
            okn = okn and oks is not None and all(cfg.dominates(mv.body, oks, bi) for bi in okd)
        ob.add({"C17"}, okn, "CMP", "compare/" + fn, "%s rejects (Err) on inequality of the whole value(s) and returns Ok only after every comparison passed" % fn, mv.loc0, det)
    # load_canonical_*: returns the canonical rebuild after the byte pin
    for fn, canon_fn in (("load_canonical_leaf_verifier_data", "canonical_leaf_verifier_data"), ("load_canonical_private_batch_verifier_data", "canonical_private_batch_verifier_data")):
        mv = e2.MethodView(ck, "^" + UT.replace("::", "::") + fn + "$", AGG)
        cn = mv.calls(lambda t: t.get("name") == canon_fn)
        en = mv.calls(lambda t: t.get("name") == "ensure_artifact_bytes_match_canonical")
        ok = len(cn) == 1 and len(en) == 1
        if ok:
            canon = P.norm(mv.fr.call_term(cn[0][0]))
            a = [P.norm(mv.fr.operand_term(x)) for x in en[0][1]["args"]]
            oks = circ.ok_members(mv.fr.return_term())
            cb = guards.continue_block(mv.body, en[0][0])
            okd = ok_def_blocks(mv.body)
            ok = (a[0] == mv.param(1) and a[1] == mv.param(2) and a[2] == canon and len(oks) == 1 and P.norm(oks[0]) == canon
                  and cb is not None and bool(okd) and all(cfg.dominates(mv.body, cb, bi) for bi in okd))
        ob.add({"C17"}, ok, "PROV+DOM", "byte-pinned/" + fn, "%s returns the fresh canonical rebuild (never the parsed bytes), and only after the raw byte comparison of both parts succeeded" % fn, mv.loc0)
    # canonical rebuilds use the real constructors with the canonical configs
    for fn, ctor, cfgfn in (("canonical_leaf_verifier_data", "WormholeCircuit::new", "wormhole_leaf_circuit_config"), ("canonical_private_batch_verifier_data", "PrivateBatchCircuit::new", "wormhole_private_batch_circuit_config"),
                            ("canonical_public_batch_verifier_data", "PublicBatchCircuit::new", "wormhole_public_batch_circuit_config")):
        mv = e2.MethodView(ck, "^" + UT.replace("::", "::") + fn + "$", AGG)
        cs = mv.calls(lambda t: (t.get("f") or "").endswith(ctor))
        ok = len(cs) == 1 and (P.call_name(mv.fr.operand_term(cs[0][1]["args"][0])) or "").endswith(cfgfn)
        bv = mv.calls(lambda t: t.get("name") == "build_verifier")
        ob.add({"C17"}, ok and len(bv) == 1, "TERM", "canonical/" + fn, "%s = %s(%s(), …).build_verifier()" % (fn, ctor, cfgfn), mv.loc0)
    # verifier crate loader
    mv = e2.MethodView(ck, "^" + VER + r"::WormholeVerifier::new_from_bytes$", VER)
    kec = mv.calls(lambda t: t.get("name") == "keccak256")
    frb = mv.calls(lambda t: t.get("name") == "from_bytes")
    capg = mv.rejects("Gt", lambda t: "len" in T.show(t, maxdepth=3), lambda t: P.const_of(t) == 1024 * 1024)
    # the same test as the predicate of an exists-form guard: `if let Some(..) = [(l, a), (l, b)].into_iter().find(|(_, x)| x.len() > CAP) { Err }`
    for g_, coll_, pred_ in mv.exists_guards():
        pr_ = P.norm(pred_)
        if isinstance(pr_, tuple) and len(pr_) == 4 and pr_[0] == "bin" and pr_[1] == "Gt" and P.const_of(pr_[3]) == 1024 * 1024 and "len" in T.show(pr_[2], maxdepth=4):
            capg.append(dict(g_, cond=("tuple", (pr_, P.norm(coll_)))))
    pin = [g for g in mv.gt if g["outcome"] <= {"err"} and guards.reject_condition(g) and guards.reject_condition(g)[0] == "Ne" and "keccak256" in T.show(g["cond"], maxdepth=4)]
    ok = len(kec) == 2 and len(frb) == 2 and len(capg) >= 1 and len(pin) == 2
    det = [(T.show(g["cond"], maxdepth=4)[:140], g["fail_when"], sorted(g["outcome"])) for g in mv.gt]
    if ok:
        # size caps cover BOTH byte slices and precede hashing: one guard in a loop over [(label, verifier_bytes), (label, common_bytes)],
        # or one guard per slice (straight-line, or in a helper that was expanded in place)
        slices = set(mv.param(i) for i in range(1, mv.body.argc + 1) if re.match(r"^&(\'\w+ )?\[u8\]$", mv.body.local_ty(i) or ""))
        dep = __import__("rules.provers", fromlist=["dep_conditions"]).dep_conditions
        covered = set()
        before = True
        for g in capg:
            covered |= set(s_ for s_ in T.walk(g["cond"]) if s_ in slices)
            hdr = [a for c, v, a in dep(mv, g["bb"]) if "discr(elem" in T.show(c, maxdepth=2)]
            for kb, _ in kec:
                # every path to the hash passed this size test (the test block, or the header of the loop that runs it, dominates the hash),
                # and no hash happens before it
                before = before and (cfg.dominates(mv.body, g["bb"], kb) or (bool(hdr) and cfg.dominates(mv.body, hdr[0], kb))) and not cfg.reaches(mv.body, kb, g["bb"])
        ok = len(slices) == 2 and covered == slices and before and all(g["outcome"] <= {"err"} for g in capg)
        # pins: Ne(keccak256(X_bytes), CANONICAL const) and both precede both from_bytes
        for g in pin:
            oks = mv.ok_succ(g)
            ok = ok and oks is not None and all(cfg.dominates(mv.body, oks, fbb) for fbb, _ in frb if cfg.reaches(mv.body, g["bb"], fbb))
        last_pin = max(pin, key=lambda g: cfg.rpo(mv.body).index(g["bb"]))
        ok = ok and all(cfg.dominates(mv.body, mv.ok_succ(last_pin), fbb) for fbb, _ in frb)
        pins = sorted(T.show(guards.reject_condition(g)[1], maxdepth=3) + "|" + T.show(guards.reject_condition(g)[2], maxdepth=3) for g in pin)
        pinned = set(s_ for g in pin for s_ in T.walk(g["cond"]) if s_ in slices)
        ok = ok and pinned == slices
    ob.add({"C17"}, ok, "CMP+DOM", "verifier-crate/caps-pins-before-parse", "WormholeVerifier::new_from_bytes: both size caps precede hashing, and both keccak256 pins succeed before either from_bytes", mv.loc0, det)
    prof = mv.calls(lambda t: t.get("name") == "ensure_loaded_matches_canonical_leaf_profile")
    ob.add({"C17"}, len(prof) == 1 and guards.continue_block(mv.body, prof[0][0]) is not None and all(cfg.dominates(mv.body, guards.continue_block(mv.body, prof[0][0]), bi) for bi in ok_def_blocks(mv.body)),
           "DOM", "verifier-crate/profile-check", "the loaded common data's config and public-input count are checked before Ok", mv.loc0)
    # artifact names: none is a prover artifact
    names = set()
    for b, bb, t in prog.call_sites(r"std::path::Path::join$|PathBuf::join$|::join$"):
        if t.get("name") != "join" or "path" not in (t.get("f") or "").lower():
            continue
        fr = T.Evaluator(prog).frame(b)
        for a in t["args"][1:]:
            tm = fr.operand_term(a)
            if isinstance(tm, tuple) and tm[0] == "cs":
                names.add((tm[1], b.crate))
    agg_names = set(n for n, c in names if c in (AGG,))
    ob.add({"C17"}, agg_names <= ARTIFACT_NAMES and not any("prover" in n for n, _ in names), "WMC", "artifact-names", "file names joined to a bins directory by the aggregator are the known verifier-side artifacts; no name contains 'prover'", None, sorted(names))
    ob.add({"C17"}, len(agg_names) >= 6, "WMC", "artifact-names/floor", "at least 6 distinct artifact names found (%d)" % len(agg_names))

    # ---------------------------------------------------------------- C18
    mv = e2.MethodView(ck, AGG + r"::aggregator::ProvingContext::verify$", AGG)
    ln = mv.calls(lambda t: t.get("name") == "ensure_proof_public_input_len")
    t4 = mv.calls(lambda t: t.get("name") == "try_4_felts_to_bytes")
    vf = mv.calls(lambda t: t.get("name") == "verify" and (t.get("impl_adt") or "").endswith("VerifierCircuitData"))
    ag = mv.rejects("Ne", lambda t: (P.call_name(P.ok_value(t)) or "").endswith("try_4_felts_to_bytes"), lambda t: P.param_path(t) == "self.aggregator_address")
    ok = len(ln) == 1 and len(t4) == 1 and len(vf) == 1 and len(ag) == 1 and ag[0]["outcome"] <= {"err"}
    if ok:
        la = [P.norm(mv.fr.operand_term(x)) for x in ln[0][1]["args"]]
        lok = guards.continue_block(mv.body, ln[0][0])
        if lok is None:
            # the length check sits in a helper that was expanded without `?`-threading: its Result is matched by a guard of its own
            gl = [g for g in mv.gt if isinstance(g["cond"], tuple) and g["cond"][0] == "discr" and (P.call_name(P.norm(g["cond"][1])) or "").endswith("ensure_proof_public_input_len") and "err" in g["outcome"]]
            lok = mv.ok_succ(gl[0]) if len(gl) == 1 else None
        sl = P.norm(mv.fr.operand_term(t4[0][1]["args"][0]))
        addr_len = prog.const_value("public_batch_pi::AGGREGATOR_ADDRESS_LEN")
        rng_ok = False
        for s in T.walk(sl):
            if s and s[0] == "adt" and s[1].endswith("RangeTo"):
                rng_ok = P.const_of(dict(s[3]).get("end")) == addr_len == 4
            if s and s[0] == "fld" and s[2] == "0" and (P.call_name(P.norm(s[1])) or "").endswith("::split_at") and len(P.norm(s[1])[4]) == 2:
                rng_ok = P.const_of(P.norm(s[1])[4][1]) == addr_len == 4      # `pis.split_at(4).0` is `pis[..4]`
        va = [P.norm(mv.fr.operand_term(x)) for x in vf[0][1]["args"]]
        ok = (la[0] == mv.param(2) and P.param_path(la[1]) == "self.verifier.common.num_public_inputs" and lok is not None and mv.dom(lok, t4[0][0]) and rng_ok and "public_inputs" in T.show(sl, maxdepth=5)
              and mv.ok_succ(ag[0]) is not None and mv.dom(mv.ok_succ(ag[0]), vf[0][0]) and P.param_path(va[0]) == "self.verifier" and va[1] == mv.param(2))
        # the function's Ok comes only from verifier.verify
        okd = ok_def_blocks(mv.body)
        ok = ok and all(cfg.dominates(mv.body, vf[0][0], bi) for bi in okd)
    ob.add({"C18"}, ok, "CMP+DOM", "verify/length-then-address-then-proof", "ProvingContext::verify: PI-length check ≺ parse public_inputs[..4] ≺ (address != self.aggregator_address → Err) ≺ self.verifier.verify(proof); Ok only from the verifier", mv.loc0,
           [(T.show(g["cond"], maxdepth=4)[:140], g["fail_when"]) for g in mv.gt])
    mv = e2.MethodView(ck, AGG + r"::aggregator::ProvingContext::prove_batch$", AGG)
    adt = None
    for e in mv.effects:
        for a in e.args:
            for s in T.walk(a):
                if s and s[0] == "adt" and s[1].endswith("PublicBatchInputs"):
                    adt = dict(s[3])
    sv = mv.calls(lambda t: t.get("name") == "verify" and "ProvingContext" in (t.get("f") or ""))
    ok = adt is not None and P.param_path(adt.get("aggregator_address")) == "self.aggregator_address" and P.norm(adt.get("proofs")) == mv.param(2) and len(sv) == 1
    if ok:
        cb = guards.continue_block(mv.body, sv[0][0])
        okd = ok_def_blocks(mv.body)
        ok = cb is not None and bool(okd) and all(cfg.dominates(mv.body, cb, bi) for bi in okd) and P.param_path(mv.fr.operand_term(sv[0][1]["args"][0])) == "self"
    ob.add({"C18"}, ok, "PROV+DOM", "prove_batch/address-and-self-verify", "prove_batch commits PublicBatchInputs{aggregator_address: self.aggregator_address} and returns Ok(proof) only after self.verify(proof) succeeded", mv.loc0)
    # witness side: address targets are filled from the committed address
    cm = e2.MethodView(ck, AGG + r"::public_batch::prover::lib::PublicBatchProver::commit$", AGG)
    fl = cm.calls(lambda t: t.get("name") == "fill_public_batch_witness")
    ok = len(fl) == 1
    if ok:
        a = [P.norm(cm.fr.operand_term(x)) for x in fl[0][1]["args"]]
        ok = (P.call_name(a[3]) or "").endswith("bytes_to_digest") and P.param_path(a[3][4][0]) == "inputs.aggregator_address"
    ob.add({"C18"}, ok, "PROV", "commit/address-felts", "the witness filler receives bytes_to_digest(inputs.aggregator_address)", cm.loc0)
    fw = e2.MethodView(ck, AGG + r"::public_batch::prover::witness::fill_public_batch_witness$", AGG)
    sets = [e for e in fw.effects if e.raw.get("name") in ("set_target", "set_target_arr") and "aggregator_address" in T.show(e.args[1], maxdepth=5)]
    ok = len(sets) >= 1 and all(P.param_path(e.args[1]) in ("targets.aggregator_address", "targets.aggregator_address[*]") or "targets.aggregator_address" in T.show(e.args[1], maxdepth=6) for e in sets) and \
        all(fw.body.local_name(4) in T.show(e.args[2], maxdepth=6) for e in sets)
    ob.add({"C18"}, ok, "PROV", "witness/address-targets", "fill_public_batch_witness assigns targets.aggregator_address from its address parameter", fw.loc0, [[T.show(a, maxdepth=4)[:80] for a in e.args] for e in sets])
    return ob
