"""C08 — private batches conserve value (DESIGN.md §5 C08)."""
from . import pb, circ

MAX_AMOUNT_BITS = 32


def run(ck):
    ck.explanation = ("C08: the grouping term has the shape whose conservation the Lean theorem proves (sum over ALL masked pairs, first occurrence keeps, "
                      "later occurrences zeroed, dummies masked to zero) and the sums cannot wrap (interval bound from extracted constants)")
    ck.not_decided = ["the conservation identity itself is the Lean theorem RPrivateBatch_value_conservation (type-checked under C34)"]
    ob, v = pb.analyse(ck)
    ob.emit(ck, "C08")
    maxn = ck.prog.const_value("qp_wormhole_inputs::MAX_PROOF_COUNT")
    bound = 2 * maxn * (2 ** MAX_AMOUNT_BITS - 1)
    ck.require(bound < circ.GOLDILOCKS, "IVL", "pb/sum-no-wrap",
               "2 * MAX_PROOF_COUNT(=%d) * (2^32 - 1) = %d < p: a grouped sum of 32-bit child amounts cannot wrap the field before its 32-bit range check" % (maxn, bound))
    if ck.tier == "thorough":
        from . import lean
        lean.check_conservation_shape(ck)
