"""C20 — pool state invariants (DESIGN.md §5 C20)."""
from . import pool


def run(ck):
    ck.explanation = 'C20: who-may-write sets of buckets / nullifier_index, pairing of proof movement with index maintenance inside the same closure branch (push, both evictions, remove_bucket), empty-bucket removal, statistics computed from the stored proofs'
    ck.not_decided = ['the inductive invariant itself as a theorem; count limits as arithmetic']
    ob = pool.analyse(ck)
    ob.emit(ck, "C20")
    ck.floor("INV", "pool/obligations", len([1 for it in ob.items if "C20" in it[0]]), 10, "C20 obligations evaluated")
