"""C35 — transfer-proof JSON parsing bounded and consistent with validation (DESIGN.md §5 C35)."""
from . import encoding


def run(ck):
    ck.explanation = """C35: the 8 MiB document cap dominates serde_json::from_str, which is the only JSON entry in the crate; TransferProofJson is not Deserialize and the raw type is private; every visitor carries its cap in both string forms; sequence visitors bound pushes and capacity; storage-proof total via checked_add; validate() uses the same constants with the same operator"""
    ck.not_decided = ["""serde_json's own panic-freedom"""]
    ob = encoding.analyse35(ck)
    ob.emit(ck, "C35")
    ck.floor("CMP", "encoding/obligations", len([1 for it in ob.items if "C35" in it[0]]), 10, "C35 obligations evaluated")
    if ck.tier == "thorough":
        from . import witnesses
        witnesses.run(ck, ["transfer_proof_json_no_deserialize"])
