"""E2 helpers for off-circuit ordering/layering rules: a MethodView bundles a body's frame, effects (closures spliced),
guard table and failing-edge analysis; plus who-may-write / who-may-call helpers over the whole program."""
import re
from . import cfg, guards
from . import terms as T
from . import pat as P
from .facts import AnchorMissing, PRODUCTION_CRATES


def private_helper(body, keep, prog=None):
    """predicate for inline.expand: a non-`pub`, inherent (not a trait impl) function of the same crate — and, for methods, of the same
    type — that the rule module does not name as an anchor (`keep`): such a helper is part of the function it was extracted from"""
    def f(callee, t):
        if callee.crate != body.crate or callee.d.get("impl_trait"):
            return False
        if (callee.d.get("vis") or "pub") == "pub":
            return False
        if callee.name in keep:
            return False
        if body.d.get("impl_self") and callee.d.get("impl_self") and callee.d.get("impl_self") != body.d.get("impl_self"):
            # a method of another type: only when that type is a private helper type of the crate (e.g. a small struct introduced to
            # table-drive two similar checks), recognised by not being `pub`
            adt = (prog.adts.get(callee.d.get("impl_adt") or "") if prog is not None else None)
            return adt is not None and (adt.get("vis") or "pub") != "pub" and adt.get("crate") == body.crate
        return True
    return f


_ANCHORS = {}


def module_anchors(path):
    """every identifier that occurs anywhere in a rule module's source (string literals and regexes included): a callee whose name
    the module mentions is one of its anchors and stays a call; any other private helper is expanded in place"""
    if path not in _ANCHORS:
        try:
            ids = set(re.findall(r"[A-Za-z_][A-Za-z0-9_]*", open(path).read()))
        except OSError:
            ids = set()
        # only names of functions that exist on the unchanged tree can be anchors: an English word of a comment / message in the rule
        # file (`validated`, `checked`, `stats`) must not stop a NEW helper of that name from being expanded
        known = _known_fn_names()
        _ANCHORS[path] = (ids & known) if known else ids
    return _ANCHORS[path]


_KNOWN_FN_NAMES = None


def _known_fn_names():
    global _KNOWN_FN_NAMES
    if _KNOWN_FN_NAMES is None:
        import json, os
        p = os.path.join(os.path.dirname(os.path.abspath(__file__)), "anchors.json")
        try:
            _KNOWN_FN_NAMES = set(x.rsplit("::", 1)[-1] for x in json.load(open(p)).get("known_paths", []))
        except (OSError, ValueError):
            _KNOWN_FN_NAMES = set()
    return _KNOWN_FN_NAMES


class MethodView:
    def __init__(self, ck, rx, crate=None, inline=None, keep="auto"):
        """keep: names of callees the rule module anchors on; every other private helper of the same crate / type is expanded in
        place first (rules/inline.py), so an extracted helper does not change the verdict.  "auto" (default): the identifiers the
        calling rule module mentions; None: no expansion"""
        self.ck = ck
        self.prog = ck.prog
        self.body = ck.prog.one(rx, crate)
        ck.saw(self.body)
        self.expanded = []
        if keep == "auto":
            import sys
            keep = module_anchors(sys._getframe(1).f_globals.get("__file__", ""))
        if keep is not None:
            from . import inline as _inl
            self.body, self.expanded = _inl.expand(ck.prog, self.body, private_helper(self.body, set(keep), ck.prog))
            for p in self.expanded:
                for b in ck.prog.by_path.get(p.split(" ")[0], []):
                    ck.saw(b)
        self.ev = T.Evaluator(ck.prog, inline=inline)
        self.fr = self.ev.frame(self.body)
        self.effects = self.fr.effects()
        self.gt = guards.guard_table(self.fr)
        self.F = guards.Fail(self.body)
        self.loc0 = "%s:%s" % (self.body.file, self.body.line)

    def param(self, i):
        return ("param", self.body.path, i, self.body.local_name(i) or "_%d" % i)

    # ---- guards -----------------------------------------------------------------------
    def guards_where(self, pred):
        return [g for g in self.gt if pred(g)]

    def rejects(self, op, a_pred, b_pred):
        return guards.rejects(self.gt, op, a_pred, b_pred)

    def ok_succ(self, g):
        """the successor block taken when the guard does not fail"""
        bb = g.get("sbb", g["bb"])   # a threaded guard (`ensure!(a || b)`) is computed in g["bb"] and branched on in g["sbb"]
        t = self.body.blocks[bb]["t"]
        if t["k"] == "assert":
            return t["t"]
        oks = [s for s in cfg.succs(self.body)[bb] if not self.F.edge_fails(bb, s) and self.body.blocks[s]["t"]["k"] != "unreachable"]
        return oks[0] if len(oks) == 1 else None

    def fail_succ(self, g):
        bb = g.get("sbb", g["bb"])
        return [s for s in cfg.succs(self.body)[bb] if self.F.edge_fails(bb, s)]

    # ---- calls ----------------------------------------------------------------------------
    def calls(self, pred):
        return [(bb, t) for bb, t in self.body.calls() if pred(t)]

    def call_ok_block(self, bb):
        return guards.continue_block(self.body, bb)

    def dom(self, a, b):
        return cfg.dominates(self.body, a, b)

    # ---- effects on self fields ---------------------------------------------------------
    def receiver_path(self, e):
        if not e.args:
            return None
        return P.param_path(e.args[0])

    def mutator_effects(self, field_prefix):
        """effects (closures included) whose receiver is `self.<field_prefix>...` and whose method mutates it"""
        out = []
        for e in self.effects:
            nm = e.raw.get("name")
            if nm not in T.MUTATORS and nm not in ("or_default", "or_insert", "or_insert_with", "get_mut", "values_mut", "iter_mut", "index_mut", "drain", "into_iter"):
                continue
            if (e.path or "").startswith(("core::iter", "<core::iter")) and nm in ("take", "by_ref"):
                continue
            if e.raw.get("trait") == "core::iter::traits::iterator::Iterator":
                continue
            if nm == "into_iter" and (e.raw.get("r") or "").startswith("<I as core::iter::traits::collect::IntoIterator>"):
                continue   # `into_iter()` of something that already is an iterator (the blanket impl): the identity
            if nm == "into_iter" and e.raw.get("args"):
                # `for x in &self.field` iterates a shared borrow: only an owned value or a `&mut` can be drained / changed through it
                a0 = e.raw["args"][0].get("m") or e.raw["args"][0].get("c")
                ty0 = e.frame.body.local_ty(a0["l"]) if (a0 and not a0["p"] and e.frame is not None) else ""
                if ty0.startswith("&") and not ty0.startswith("&mut"):
                    continue
            rp = self.receiver_path(e)
            if rp is None:
                # receiver derived from a call on the field, e.g. buckets.entry(k).or_default().proofs.push(..)
                base = e.args[0]
                if (P.call_name(P.norm(base)) or "").endswith(("Vec::<T>::new", "Vec::<T>::with_capacity", "::with_capacity", "String::new")):
                    continue   # a fresh local container (its capacity may be computed from the field; that is a read)
                for s in T.walk(base):
                    pp = P.param_path(s) if isinstance(s, tuple) and s and s[0] in ("fld", "param") else None
                    if pp and (pp == "self." + field_prefix or pp.startswith("self." + field_prefix + ".") or pp.startswith("self." + field_prefix + "[")):
                        rp = pp
                        break
            if rp and (rp == "self." + field_prefix or rp.startswith("self." + field_prefix + ".") or rp.startswith("self." + field_prefix + "[")):
                out.append(e)
        return out

    def field_stores(self, field):
        """[(bb, value_term)] of direct assignments `self.<field> = v` (through &mut self)"""
        out = []
        body = self.body
        for bi, b in enumerate(body.blocks):
            if b["cleanup"]:
                continue
            for s in b["s"]:
                if "d" in s and s["d"]["p"] and self._is_self(s["d"]["l"]):
                    names = [p["n"] for p in s["d"]["p"] if isinstance(p, dict) and "f" in p]
                    if names and names[0] == field:
                        out.append((bi, self.fr.rvalue_term(s["r"])))
        return out

    def _is_self(self, local):
        """the local is the method's `self` parameter, or (after helper expansion) a helper's own `self` bound to it"""
        if local == 1:
            return True
        if local <= self.body.argc:
            return False
        try:
            t = P.norm(self.fr.local_term(local))
        except Exception:
            return False
        while isinstance(t, tuple) and t and t[0] == "upd":   # `self` after earlier field stores is still `self`
            t = P.norm(t[2])
        return t == self.param(1)

    def appended_copies(self, recv_pred):
        """appends of `count` copies of one value to a vector satisfying recv_pred, whatever the idiom:
             for _ in 0..count { v.push(x) }        v.extend(repeat_with(|| x).take(count))       v.extend(repeat(x).take(count))
             v.resize(n, x): recognised with the side condition len(v) <= n left to the caller ("grows_only_if").
        Returns [{"value", "count", "eff", "bb"}] for the recognised ones and a second list with every other mutator of that vector."""
        from . import circ
        out, other = [], []
        for e in self.effects:
            nm = e.raw.get("name")
            if not e.args or not recv_pred(P.norm(e.args[0])) or e.raw.get("trait") == "core::iter::traits::iterator::Iterator":
                continue
            if nm == "push" and len(e.args) == 2:
                lp = circ.loops_of(e)
                r = circ.range_expr(lp[0]) if len(lp) == 1 else None
                if r is not None and P.const_of(r[0]) == 0:
                    out.append({"value": P.norm(e.args[1]), "count": P.norm(r[1]), "eff": e, "bb": [c for c in e.ctrl if c[0] == "loop"][0][3]})
                    continue
            if nm == "extend" and len(e.args) == 2 and not circ.loops_of(e):
                a = P.norm(e.args[1])
                if isinstance(a, tuple) and a and a[0] == "take":
                    src, cnt = P.norm(a[1]), P.norm(a[2])
                    sn = P.call_name(src) or ""
                    val = None
                    if sn.endswith("repeat_with") and src[4] and isinstance(src[4][0], tuple) and src[4][0][0] == "closure":
                        val = P.norm(self.fr.closure_ret(src[4][0], [], site_hint=src[1]))
                    elif sn.endswith("iter::repeat") or sn.endswith("sources::repeat::repeat"):
                        val = P.norm(src[4][0])
                    if val is not None:
                        out.append({"value": val, "count": cnt, "eff": e, "bb": e.bb})
                        continue
            if nm == "resize" and len(e.args) == 3 and not circ.loops_of(e):
                # v.resize(n, x) appends n - len(v) copies of x PROVIDED len(v) <= n (otherwise it truncates): recognised as an append
                # whose entry carries the bound the caller must find established ("grows_only_if": n)
                out.append({"value": P.norm(e.args[2]), "count": ("bin", "Sub", P.norm(e.args[1]), ("len", P.norm(e.args[0]))), "eff": e, "bb": e.bb, "grows_only_if": P.norm(e.args[1])})
                continue
            if nm in T.MUTATORS:
                other.append(e)
        return out, other

    def exists_guards(self):
        """[(guard, collection, predicate term over ("elem", collection))] for guards that fail iff SOME element of a collection
        satisfies a predicate, in any of the forms
            if c.iter().any(|x| p(x)) { fail }          for x in c { if p(x) { fail } }
            if let Some(..) = c.iter().find(|x| p(x)) { fail }     (also `.position(..)`, `.is_some()` on either)"""
        out = []
        for g in self.gt:
            c = g["cond"]
            fw = g["fail_when"]
            inner = c
            # find(..) / position(..): through is_some()/is_none() or a match on the Option's discriminant
            nm = P.call_name(inner) or ""
            if nm.endswith("::is_some") and fw is True and inner[4]:
                inner, fw = P.norm(inner[4][0]), "some"
            elif nm.endswith("::is_none") and fw is False and inner[4]:
                inner, fw = P.norm(inner[4][0]), "some"
            elif isinstance(c, tuple) and c and c[0] == "discr" and g["kind"] == "match" and "1" in (g.get("vals") or []) and set(g.get("vals") or []) <= {"1", "else"}:
                # every way through the `Some(..)` arm fails (the `else` arm of a match on an Option is unreachable)
                inner, fw = P.norm(c[1]), "some"
            nm = P.call_name(inner) or ""
            if fw == "some" and nm.rsplit("::", 1)[-1] in ("find", "position") and len(inner[4]) == 2 and isinstance(inner[4][1], tuple) and inner[4][1][0] == "closure":
                coll = P.norm(inner[4][0])
                out.append((g, coll, self._predicate(inner[4][1], coll, inner[1])))
                continue
            if fw == "some" and nm.endswith("::filter") and "option" in nm.lower() and len(inner[4]) == 2 and isinstance(inner[4][1], tuple) and inner[4][1][0] == "closure":
                # `if let Some(v) = opt.filter(|&v| p(v)) { fail }`: fails iff the option holds a value satisfying p; the "collection" is the
                # option, its payload stands for the element
                opt = P.norm(inner[4][0])
                out.append((g, opt, P.norm(self.fr.closure_ret(inner[4][1], [opt], site_hint=inner[1]))))
                continue
            if fw is True and nm.endswith("::any") and len(inner[4]) == 2 and isinstance(inner[4][1], tuple) and inner[4][1][0] == "closure":
                coll = P.norm(inner[4][0])
                out.append((g, coll, self._predicate(inner[4][1], coll, inner[1])))
                continue
            if fw is False and nm.endswith("::all") and len(inner[4]) == 2 and isinstance(inner[4][1], tuple) and inner[4][1][0] == "closure":
                # `ensure!(c.iter().all(|x| !p(x)))` fails iff some element satisfies p
                coll = P.norm(inner[4][0])
                pr = self._predicate(inner[4][1], coll, inner[1])
                pr = pr[2] if (isinstance(pr, tuple) and len(pr) == 3 and pr[0] == "un" and pr[1] == "Not") else ("un", "Not", pr)
                out.append((g, coll, P.norm(pr)))
                continue
            if fw is True:
                loops = [x[1] for x in self.fr.ctrl_of_block(g["bb"]) if x[0] == "loop" and tuple(x[2]) == ("1",)]
                for coll in loops:
                    if any(s == ("elem", coll) for s in T.walk(c)):
                        out.append((g, P.norm(coll), P.norm(c)))
                        break
        return out

    def _predicate(self, clos, coll, site):
        """the predicate closure applied to ("elem", coll): its value, or ("or", (d1, d2, ..)) when it is a short-circuit disjunction
        (`|x| a(x) != 0 || b(x) != z`), whose first operands live in the closure's control flow rather than in its value"""
        el = ("elem", coll)
        # find/position over enumerate() hand the closure a (index, element) pair
        ch = self.fr.closure_frame(clos, [el], site)
        if ch is not None:
            ds = guards.bool_disjuncts(ch)
            if ds is not None and len(ds) > 1:
                return ("or", tuple(P.norm(d) for d in ds))
        return P.norm(self.fr.closure_ret(clos, [el], site_hint=site))

    def ok_only_via(self, bb):
        """the function's non-error return value is the Result of the call ending block `bb`, handed on through adaptors that keep
        Ok-ness (`map`, `map_err`, `context`, `with_context`): the function returns Ok iff that call returned Ok"""
        rt = P.norm(self.fr.return_term())
        mem = rt[2] if (isinstance(rt, tuple) and rt and rt[0] == "phi") else (rt,)

        def is_err(m):
            m = P.norm(m)
            return isinstance(m, tuple) and m and (m[0] == "err" or (m[0] == "call" and m[2].endswith("::from_residual")))

        def unwrap(m):
            m = P.norm(m)
            for _ in range(6):
                if (P.call_name(m) or "").rsplit("::", 1)[-1] in ("map", "map_err", "context", "with_context") and m[4]:
                    m = P.norm(m[4][0])
                elif isinstance(m, tuple) and m and m[0] == "map" and len(m) >= 3:
                    m = P.norm(m[1])
                else:
                    break
            return m
        want = P.norm(self.fr.call_term(bb))
        rest = [unwrap(m) for m in mem if not is_err(m)]
        return len(rest) == 1 and rest[0] == want

    def self_field_writes(self):
        """[(bb, [field names])] of every direct assignment through `self` (own or an expanded helper's)"""
        out = []
        for bi, b in enumerate(self.body.blocks):
            if b["cleanup"]:
                continue
            for s in b["s"]:
                if "d" in s and s["d"]["p"] and self._is_self(s["d"]["l"]):
                    names = [p["n"] for p in s["d"]["p"] if isinstance(p, dict) and "f" in p]
                    if names:
                        out.append((bi, names))
        return out


def is_field(t, path):
    """term is the parameter field path e.g. 'self.limits.max_proofs'"""
    return P.param_path(t) == path


def who_calls(prog, rx, production=True):
    """sorted root-function paths (closures attributed to their enclosing fn) that call something matching rx"""
    out = {}
    for b, bb, t in prog.call_sites(rx, production=production):
        root = b
        while root is not None and root.kind == "Closure":
            root = prog.bodies.get(root.d.get("root"))
        key = root.path if root is not None else b.path
        out.setdefault(key, []).append((b, bb, t))
    return out


def root_of(prog, b):
    while b is not None and b.kind == "Closure":
        b = prog.bodies.get(b.d.get("root"))
    return b


def effectively_public(prog, path):
    """is the item nameable from outside its crate: `pub` itself with every ancestor module `pub`, or re-exported `pub`
    from an effectively public module"""
    def mod_public(mpath):
        parts = mpath.split("::")
        for i in range(2, len(parts) + 1):
            m = prog.mods.get("::".join(parts[:i]))
            if m is not None and m["vis"] != "pub":
                return False
        return True
    item = None
    for f in prog.fns.values():
        if f["path"] == path:
            item = f
    if item is None:
        return None
    if item["vis"] == "pub" and mod_public(path.rsplit("::", 1)[0]):
        return True
    for u in prog.uses:
        if u["target"] == path and u["vis"] == "pub" and mod_public(u["mod"]):
            return True
    return False
