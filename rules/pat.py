"""Term patterns (TERM rule): a small unifier over the term graph of rules/terms.py, up to the idiom table
of DESIGN.md §3: commutative builder ops, `.target` unwrapping, constants by value, `assert_zero(x) ≡ connect(x, zero)`,
`not(x) ≡ sub(one, x)`, loop-carried operands as {init, step} origin sets."""
from .terms import is_const, walk

COMMUTATIVE = {"cb.add", "cb.mul", "cb.and", "cb.or", "cb.is_equal", "cb.connect", "cb.add_extension", "cb.mul_extension"}


def ok_value(t):
    """the payload a `?` lets through: a merged Result whose other members are errors (`Err(..)` / `from_residual(..)` of a helper that
    was expanded in place, `return Err(..)` arms) is, past the `?`, its single non-error member"""
    t = norm(t)
    if isinstance(t, tuple) and t and t[0] == "phi":
        def is_err(m):
            m = norm(m)
            return isinstance(m, tuple) and m and (m[0] == "err" or (m[0] == "call" and m[2].endswith("::from_residual")))
        oks = [m for m in t[2] if not is_err(m)]
        if len(oks) == 1 and len(oks) < len(t[2]):
            return ok_value(oks[0])
    return t


def norm(t):
    """drop BoolTarget `.target` projections and BoolTarget::new_unsafe wrappers are kept (they matter)"""
    while isinstance(t, tuple) and t and t[0] == "fld" and t[2] == "target":
        t = t[1]
    return t


def call_name(t):
    t = norm(t)
    if isinstance(t, tuple) and t and t[0] == "call" and len(t) == 5:
        return t[2]
    return None


def cb_args(t, name):
    """args (without the builder receiver) if t is a call to builder method `name`"""
    t = norm(t)
    if isinstance(t, tuple) and t and t[0] == "call" and len(t) == 5 and t[2] == name:
        return t[4][1:] if name.startswith("cb.") else t[4]
    return None


def const_of(t):
    """field constant denoted by a builder term, or build-time integer constant; None if not a constant"""
    t = norm(t)
    if is_const(t):
        return t[1]
    n = call_name(t)
    if n is None:
        return None
    if n in ("cb.zero", "cb._false"):
        return 0
    if n in ("cb.one", "cb._true"):
        return 1
    if n == "cb.two":
        return 2
    if n == "cb.neg_one":
        return -1
    if n in ("cb.constant", "cb.constant_bool"):
        a = t[4][1]
        return const_of(a)
    short = n.rsplit("::", 1)[-1]
    if short in ("from_canonical_u64", "from_canonical_u32", "from_canonical_usize", "from_canonical_u16", "from_canonical_u8",
                 "from_noncanonical_u64", "from_bool", "from_canonical_i64") and t[4]:
        return const_of(t[4][-1])
    if short in ("ZERO",):
        return 0
    if short == "from" and len(t[4]) == 1 and "core::convert" in n:
        return const_of(t[4][0])
    return None


class V:
    """pattern variable; optional predicate"""
    def __init__(self, name, pred=None):
        self.name = name
        self.pred = pred

    def __repr__(self):
        return "?" + self.name


class K:
    """constant by value"""
    def __init__(self, v):
        self.v = v

    def __repr__(self):
        return "K(%r)" % (self.v,)


class Cb:
    """call to builder method / function `name` with argument patterns (receiver excluded for cb.*)"""
    def __init__(self, name, *args):
        self.name = name
        self.args = args

    def __repr__(self):
        return "%s(%s)" % (self.name, ", ".join(map(repr, self.args)))


class Any:
    def __repr__(self):
        return "_"


class Phi:
    """loop-carried / merged value with exactly these member patterns (any order); Rec() inside refers back"""
    def __init__(self, *members):
        self.members = members

    def __repr__(self):
        return "Phi(%s)" % ", ".join(map(repr, self.members))


class Rec:
    def __repr__(self):
        return "Rec"


class Or:
    def __init__(self, *alts):
        self.alts = alts

    def __repr__(self):
        return "Or(%s)" % ", ".join(map(repr, self.alts))


class Idx:
    def __init__(self, base, i):
        self.base = base
        self.i = i

    def __repr__(self):
        return "%r[%r]" % (self.base, self.i)


class Fld:
    def __init__(self, base, name):
        self.base = base
        self.name = name

    def __repr__(self):
        return "%r.%s" % (self.base, self.name)


def match(p, t, b=None, phikey=None):
    """returns binding dict or None"""
    b = dict(b or {})
    r = _m(p, t, b, phikey)
    return b if r else None


def _m(p, t, b, phikey):
    t = norm(t)
    if isinstance(p, Any):
        return True
    if isinstance(p, V):
        if p.pred is not None and not p.pred(t):
            return False
        if p.name in b:
            return b[p.name] == t
        b[p.name] = t
        return True
    if isinstance(p, K):
        return const_of(t) == p.v
    if isinstance(p, Or):
        for a in p.alts:
            b2 = dict(b)
            if _m(a, t, b2, phikey):
                b.clear()
                b.update(b2)
                return True
        return False
    if isinstance(p, Rec):
        if isinstance(t, tuple) and t and t[0] == "rec":
            return phikey is None or t[1] == phikey or t[1].startswith(phikey)
        if isinstance(t, tuple) and t and t[0] == "phi" and phikey is not None and t[1] == phikey:
            return True
        return False
    if isinstance(p, Phi):
        if not (isinstance(t, tuple) and t and t[0] == "phi"):
            return False
        ms = list(t[2])
        if len(ms) != len(p.members):
            return False
        return _m_perm(list(p.members), ms, b, t[1])
    if isinstance(p, Idx):
        if isinstance(t, tuple) and t and t[0] == "idx":
            return _m(p.base, t[1], b, phikey) and _m(p.i, t[2], b, phikey)
        return False
    if isinstance(p, Fld):
        if isinstance(t, tuple) and t and t[0] == "fld" and t[2] == p.name:
            return _m(p.base, t[1], b, phikey)
        return False
    if isinstance(p, Cb):
        if p.name == "cb.not":
            # not(x) ≡ sub(one, x)
            a = cb_args(t, "cb.not")
            if a is not None:
                return _m(p.args[0], a[0], b, phikey)
            a = cb_args(t, "cb.sub")
            if a is not None and const_of(a[0]) == 1:
                return _m(p.args[0], a[1], b, phikey)
            return False
        a = cb_args(t, p.name)
        if a is None:
            return False
        a = list(a)
        if len(a) != len(p.args):
            return False
        if p.name in COMMUTATIVE and len(a) == 2:
            return _m_perm(list(p.args), a, b, phikey)
        for pp, tt in zip(p.args, a):
            if not _m(pp, tt, b, phikey):
                return False
        return True
    if isinstance(p, tuple):
        if not isinstance(t, tuple) or len(p) != len(t):
            return False
        for pp, tt in zip(p, t):
            if isinstance(pp, (V, K, Cb, Any, Phi, Rec, Or, Idx, Fld, tuple)):
                if not _m(pp, tt, b, phikey):
                    return False
            elif pp != tt:
                return False
        return True
    return p == t


def _m_perm(pats, terms, b, phikey):
    if not pats:
        return True
    p0 = pats[0]
    for i, t in enumerate(terms):
        b2 = dict(b)
        if _m(p0, t, b2, phikey):
            rest = terms[:i] + terms[i + 1:]
            if _m_perm(pats[1:], rest, b2, phikey):
                b.clear()
                b.update(b2)
                return True
    return False


def contains(t, pred):
    for s in walk(t):
        if pred(s):
            return True
    return False


def find_all(t, p):
    """all bindings of pattern p over sub-terms of t"""
    out = []
    for s in walk(t):
        r = match(p, s)
        if r is not None:
            out.append((s, r))
    return out


def param_path(t):
    """('param', ...) with field/index path rendered as 'name.f1.f2[i]' or None"""
    t = norm(t) if not (isinstance(t, tuple) and t and t[0] == "fld" and t[2] == "target") else t
    parts = []
    while isinstance(t, tuple) and t:
        if t[0] == "fld":
            parts.append("." + t[2])
            t = t[1]
        elif t[0] == "idx":
            i = t[2]
            parts.append("[%s]" % (i[1] if is_const(i) else "*"))
            t = t[1]
        elif t[0] == "elem":
            parts.append("[*]")
            t = t[1]
        elif t[0] == "param":
            return t[3] + "".join(reversed(parts))
        else:
            return None
    return None
