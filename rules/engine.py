"""Check bookkeeping: obligations, violations, reports, evidence, known findings."""
import json
import os
import re
import time

VERIF = os.path.dirname(os.path.dirname(os.path.abspath(__file__)))


class Check:
    def __init__(self, pid, tier, prog, seed=0, facts_dir=None, extra=None):
        self.pid = pid
        self.tier = tier
        self.prog = prog
        self.seed = seed
        self.facts_dir = facts_dir
        self.extra = extra or {}
        self.obligations = []   # dicts: rule, key, what, loc, ok, detail
        self.notes = []
        self.analysed = {"bodies": set(), "call_sites": 0, "configs": []}
        self.t0 = time.time()
        self.trusted = []
        self.not_decided = []
        self.explanation = ""

    # ---- recording ---------------------------------------------------------------
    def ok(self, rule, key, what, loc=None, detail=None):
        self.obligations.append({"rule": rule, "key": key, "what": what, "loc": loc, "ok": True, "detail": detail})
        return True

    def fail(self, rule, key, what, loc=None, detail=None, kind="violation"):
        self.obligations.append({"rule": rule, "key": key, "what": what, "loc": loc, "ok": False, "detail": detail, "kind": kind})
        return False

    def require(self, cond, rule, key, what, loc=None, detail=None):
        if cond:
            return self.ok(rule, key, what, loc, detail)
        return self.fail(rule, key, what, loc, detail)

    def floor(self, rule, key, count, floor, what):
        """vacuity guard: the rule must have matched at least `floor` instances (counted by hand on the reference tree)"""
        if count >= floor:
            return self.ok(rule, key + "/floor", "%s: %d instance(s) >= floor %d" % (what, count, floor))
        return self.fail(rule, key + "/floor", "%s: only %d instance(s), floor is %d (rule would pass vacuously)" % (what, count, floor), kind="below-floor")

    def exact(self, rule, key, count, expected, what, loc=None):
        if count == expected:
            return self.ok(rule, key + "/count", "%s: %d instance(s) as expected" % (what, count), loc)
        return self.fail(rule, key + "/count", "%s: %d instance(s), expected %d" % (what, count, expected), loc)

    def note(self, s):
        self.notes.append(s)

    def saw(self, body):
        self.analysed["bodies"].add(body.path if hasattr(body, "path") else str(body))

    # ---- results ---------------------------------------------------------------------
    def violations(self):
        return [o for o in self.obligations if not o["ok"]]


def _slug(s):
    return re.sub(r"[^A-Za-z0-9_.-]+", "_", s)[:150]


def load_known():
    p = os.path.join(VERIF, "known_findings.json")
    try:
        d = json.load(open(p))
    except Exception:
        return {"known": [], "fixed": []}
    return d


def finish(ck, level="other", checker_cmd=None, extra_cov=None):
    """write reports + evidence, print VIOLATION / KNOWN-FINDING lines, return exit code"""
    pid = ck.pid
    known = load_known()
    known_keys = {k["key"]: k for k in known.get("known", []) if k.get("property") == pid}
    viol = ck.violations()
    rep_dir = os.path.join(VERIF, "reports", pid)
    os.makedirs(rep_dir, exist_ok=True)
    for f in os.listdir(rep_dir):
        try:
            os.unlink(os.path.join(rep_dir, f))
        except OSError:
            pass
    real = []
    knownhits = []
    for v in viol:
        full_key = "%s/%s/%s" % (pid, v["rule"], v["key"])
        if full_key in known_keys:
            knownhits.append((full_key, v))
        else:
            real.append((full_key, v))
    for full_key, v in knownhits:
        print("KNOWN-FINDING: property=%s %s — %s" % (pid, full_key, v["what"]))
    exit_code = 0
    for full_key, v in real:
        path = os.path.join(rep_dir, _slug(full_key) + ".json")
        rep = dict(v)
        rep["property"] = pid
        rep["full_key"] = full_key
        rep["tier"] = ck.tier
        with open(path, "w") as f:
            json.dump(rep, f, indent=1, default=str)
        print("VIOLATION property=%s replay=%s" % (pid, path))
        print("  rule=%s instance=%s kind=%s" % (v["rule"], v["key"], v.get("kind", "violation")))
        print("  at %s: %s" % (v.get("loc"), v["what"]))
        if v.get("detail"):
            print("  detail: %s" % (str(v["detail"])[:1500]))
        exit_code = 1
    # evidence
    obl = ck.obligations
    discharged = [o for o in obl if o["ok"]]
    distinct = set((o["rule"], o["key"]) for o in discharged if o.get("loc") or o.get("detail"))
    samples = []
    seen_rules = set()
    for o in obl:
        if o["rule"] in seen_rules and len(samples) > 40:
            continue
        seen_rules.add(o["rule"])
        samples.append({"rule": o["rule"], "instance": o["key"], "what": o["what"][:400], "loc": o.get("loc"), "holds": o["ok"]})
        if len(samples) >= 80:
            break
    cov = {
        "explanation": ck.explanation or "static rules over rustc MIR facts of /repo's working tree",
        "obligations": len(obl),
        "discharged": len(discharged),
        "evaluations": len(obl),
        "distinct_nontrivial": len(distinct),
        "rule": "one evaluation per rule instance (obligation) found in the current MIR facts; an obligation is non-trivial when it is anchored at a concrete construct (file:line or extracted term) of the analysed tree; distinct by (rule, instance key)",
        "samples": samples,
        "checker_cmd": checker_cmd or ("./vf check %s %s" % (pid, ck.tier)),
        "trusted_base": ck.trusted or ["rustc type checking and MIR construction (nightly 1.97)", "vfdriver's dump of MIR", "plonky2 gadget semantics (DESIGN.md §4)"],
        "bodies_analysed": sorted(ck.analysed["bodies"])[:200],
        "n_bodies_analysed": len(ck.analysed["bodies"]),
        "configs": ck.analysed["configs"],
        "rules": sorted(set(o["rule"] for o in obl)),
        "not_decided": ck.not_decided,
        "known_findings_matched": [k for k, _ in knownhits],
        "notes": ck.notes[:50],
        "exhaustive": True,
    }
    if extra_cov:
        cov.update(extra_cov)
    ev = {
        "property_id": pid,
        "tier": ck.tier,
        "seed": ck.seed,
        "level": level,
        "coverage": cov,
        "assumptions": cov["trusted_base"] + ["clauses listed under coverage.not_decided are NOT decided by this check"],
        "wall_s": round(time.time() - ck.t0 + ck.extra.get("extract_s", 0.0), 3),
        "violations": len(real),
    }
    os.makedirs(os.path.join(VERIF, "evidence"), exist_ok=True)
    with open(os.path.join(VERIF, "evidence", pid + ".json"), "w") as f:
        json.dump(ev, f, indent=1, default=str)
    print("%s %s: %d obligation(s), %d discharged, %d violation(s), %d known finding(s)" % (
        pid, ck.tier, len(obl), len(discharged), len(real), len(knownhits)))
    return exit_code


class Tagged:
    """a view of a Check for a second analysed configuration: same obligation list, every key prefixed with `tag`, `prog` = the facts of
    that configuration (rule code written against `ck` runs unchanged on it)"""

    def __init__(self, ck, tag, prog):
        self.__dict__["_ck"] = ck
        self.__dict__["_tag"] = tag
        self.__dict__["prog"] = prog

    def __getattr__(self, name):
        return getattr(self._ck, name)

    def __setattr__(self, name, value):
        if name == "prog":
            self.__dict__["prog"] = value
        else:
            setattr(self._ck, name, value)

    def ok(self, rule, key, *a, **k):
        return self._ck.ok(rule, self._tag + key, *a, **k)

    def fail(self, rule, key, *a, **k):
        return self._ck.fail(rule, self._tag + key, *a, **k)

    def require(self, cond, rule, key, *a, **k):
        return self._ck.require(cond, rule, self._tag + key, *a, **k)

    def floor(self, rule, key, *a, **k):
        return self._ck.floor(rule, self._tag + key, *a, **k)

    def exact(self, rule, key, *a, **k):
        return self._ck.exact(rule, self._tag + key, *a, **k)
