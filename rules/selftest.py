"""Checker self-test: apply one-instance-broken patches (mutants/<Cxx>/*.patch, seeded/<id>/patch.diff) or
behaviour-preserving patches (mutants/neutral/*.patch) to a scratch copy of /repo and run the checks there.

  ./vf selftest                     all mutants, each against its own property
  ./vf selftest C01 C07             only those properties' mutants
  ./vf selftest --patch FILE [Cxx...]   one patch against the listed (default: all) checks
  ./vf selftest --neutral           neutral patches must leave every check silent
The scratch copy lives under $VF_SCRATCH (default /tmp/vf-scratch) and is removed afterwards.
"""
import contextlib
import io
import json
import os
import re
import shutil
import subprocess
import sys
import time

VERIF = os.path.dirname(os.path.dirname(os.path.abspath(__file__)))


def make_scratch(repo, name):
    base = os.environ.get("VF_SCRATCH", "/tmp/vf-scratch")
    dst = os.path.join(base, "%s-%d" % (name, os.getpid()))
    if os.path.exists(dst):
        shutil.rmtree(dst)
    os.makedirs(base, exist_ok=True)
    subprocess.check_call(["rsync", "-a", "--exclude", "/target", "--exclude", "/.git", repo.rstrip("/") + "/", dst + "/"])
    return dst


def apply_patch(dst, patch):
    r = subprocess.run(["patch", "-p1", "--no-backup-if-mismatch", "-s", "-i", os.path.abspath(patch)], cwd=dst,
                       stdout=subprocess.PIPE, stderr=subprocess.STDOUT, text=True)
    if r.returncode != 0:
        raise RuntimeError("patch %s does not apply: %s" % (patch, r.stdout[-800:]))


def all_pids():
    return sorted(f[:-3] for f in os.listdir(os.path.join(VERIF, "rules")) if re.match(r"^C\d+\.py$", f))


def run_on_patch(vf, repo, patch, pids, quiet=True):
    """returns {pid: (exit_code, [violation keys])}"""
    dst = make_scratch(repo, os.path.basename(patch).replace(".", "_"))
    res = {}
    try:
        apply_patch(dst, patch)
        try:
            facts, run_id, secs = vf.extract(dst, "default")
        except SystemExit as ex:
            return {"__build__": (2, [str(ex)[:300]])}
        for pid in pids:
            buf = io.StringIO()
            with contextlib.redirect_stdout(buf):
                rc = _run_check_noevidence(vf, pid, dst, facts, run_id)
            keys = re.findall(r"rule=(\S+) instance=(\S+)", buf.getvalue())
            res[pid] = (rc, ["%s/%s" % k for k in keys])
    finally:
        shutil.rmtree(dst, ignore_errors=True)
    return res


def _run_check_noevidence(vf, pid, repo, facts, run_id):
    """run a check against a scratch tree without touching /verif/evidence or /verif/reports"""
    import importlib
    from rules import facts as F, engine
    mod = importlib.import_module("rules." + pid)
    prog = F.Program(facts, run=run_id)
    ck = engine.Check(pid, "quick", prog, facts_dir=facts, extra={"repo": repo})
    ck.repo = repo
    ck.extract = lambda config: vf._extract_prog(repo, config, ck)
    try:
        mod.run(ck)
    except F.AnchorMissing as ex:
        ck.fail("ANCHOR", "anchor-missing", str(ex), kind="anchor-missing")
    except Exception as ex:
        import traceback
        ck.fail("ENGINE", "analysis-error", "%s: %s" % (type(ex).__name__, ex), detail=traceback.format_exc(), kind="analysis-error")
    known = engine.load_known()
    known_keys = set(k["key"] for k in known.get("known", []) if k.get("property") == pid)
    rc = 0
    for v in ck.violations():
        fk = "%s/%s/%s" % (pid, v["rule"], v["key"])
        if fk in known_keys:
            continue
        print("VIOLATION property=%s rule=%s instance=%s kind=%s" % (pid, v["rule"], v["key"], v.get("kind", "violation")))
        print("   at %s: %s" % (v.get("loc"), v["what"][:300]))
        rc = 1
    return rc


def collect_mutants(pids):
    out = []
    mdir = os.path.join(VERIF, "mutants")
    for pid in sorted(os.listdir(mdir)) if os.path.isdir(mdir) else []:
        if not re.match(r"^C\d+$", pid) or (pids and pid not in pids):
            continue
        for f in sorted(os.listdir(os.path.join(mdir, pid))):
            if f.endswith((".patch", ".diff")):
                out.append((pid, os.path.join(mdir, pid, f)))
    sdir = os.path.join(VERIF, "seeded")
    for d in sorted(os.listdir(sdir)) if os.path.isdir(sdir) else []:
        meta = os.path.join(sdir, d, "meta.json")
        p = os.path.join(sdir, d, "patch.diff")
        if os.path.exists(meta) and os.path.exists(p):
            pid = json.load(open(meta)).get("property")
            if not pids or pid in pids:
                out.append((pid, p))
    return out


def main(args, vf):
    repo = os.environ.get("REPO", "/repo")
    if args and args[0] == "--patch":
        patch = args[1]
        pids = args[2:] or all_pids()
        res = run_on_patch(vf, repo, patch, pids)
        for pid, (rc, keys) in sorted(res.items()):
            print("%-8s %s %s" % (pid, "FIRES" if rc else "silent", " ".join(keys[:6])))
        return 0
    if args and args[0] == "--neutral":
        ndir = os.path.join(VERIF, "mutants", "neutral")
        bad = 0
        for f in sorted(os.listdir(ndir)):
            if not f.endswith(".patch"):
                continue
            res = run_on_patch(vf, repo, os.path.join(ndir, f), all_pids())
            fired = {p: k for p, (rc, k) in res.items() if rc}
            print("%-40s %s" % (f, "silent (ok)" if not fired else "FALSE ALARM: %s" % fired))
            bad += 1 if fired else 0
        return 1 if bad else 0
    pids = [a for a in args if re.match(r"^C\d+$", a)]
    muts = collect_mutants(pids)
    missed = 0
    t0 = time.time()
    for pid, patch in muts:
        res = run_on_patch(vf, repo, patch, [pid])
        rc, keys = res.get(pid, res.get("__build__", (2, [])))
        status = "caught" if rc == 1 else ("BUILD-FAIL" if rc == 2 else "MISSED")
        if rc != 1:
            missed += 1
        print("%-6s %-60s %s %s" % (pid, os.path.relpath(patch, VERIF), status, " ".join(keys[:4])))
    print("%d mutant(s), %d not caught, %.0fs" % (len(muts), missed, time.time() - t0))
    return 1 if missed else 0
