"""C01 — leaf range / fee constraints (DESIGN.md §5 C01)."""
from . import terms as T
from . import pat as P
from . import circ, leaf
from .pat import V, K, Cb

FEE_DENOM = 10000
P_ = circ.GOLDILOCKS

REQ_32 = [
    ("zk_merkle_proof.leaf.transfer_count", "all"),
    ("zk_merkle_proof.leaf.asset_id", "one"),
    ("zk_merkle_proof.leaf.input_amount", "one"),
    ("zk_merkle_proof.leaf.output_amount_1", "one"),
    ("zk_merkle_proof.leaf.output_amount_2", "one"),
    ("zk_merkle_proof.leaf.volume_fee_bps", "one"),
    ("block_header.header.block_number", "one"),
]
PUBLIC_SCALARS = ["zk_merkle_proof.leaf.asset_id", "zk_merkle_proof.leaf.output_amount_1", "zk_merkle_proof.leaf.output_amount_2",
                  "zk_merkle_proof.leaf.volume_fee_bps", "block_header.header.block_number"]


def range_bits(view, ck):
    """role path -> (min bits, effect) over all unconditional range_check sites"""
    bits = {}
    n = 0
    for e in view.effects:
        if e.name != "cb.range_check":
            continue
        n += 1
        x, k = circ.cb_operands(e)[:2]
        kv = P.const_of(k)
        if kv is None:
            ck.fail("TERM", "range_check/bits@" + e.loc.rsplit(":", 1)[0] + ":" + e.frame.body.name,
                    "range_check with a non-constant bit width %s" % T.show(k), e.loc)
            continue
        items, kinds = leaf.expand_items(view, x)
        for it, kind in zip(items, kinds):
            for path in view.role_of(it):
                if circ.uncond_problems(e):
                    continue
                full = path
                if kind == "all":
                    full = path  # every element of the role
                if full not in bits or kv < bits[full][0]:
                    bits[full] = (kv, e, kind)
    return bits, n


def check_view(ck, view, tag=""):
    R = "PROV+UNCOND"
    bits, n_rc = range_bits(view, ck)
    # 1. 32-bit range checks on the leaf scalars and the block number
    for path, kind in REQ_32:
        role = view.role(path)
        hit = bits.get(path)
        if hit is None and kind == "all":
            # every element addressed individually?
            hit = bits.get(path + "[*]")
        if hit is None and kind == "all":
            # … or one by one with constant indices (`let [c0, c1] = self.transfer_count; vec![c0, c1, ..]`): all of 0..len must be there
            from . import lc as _lc
            n_el = _lc.known_len(role)
            if n_el is None and isinstance(role, tuple) and role and role[0] == "call" and role[3] and isinstance(role[3][-1], int):
                n_el = role[3][-1]
            each = [bits.get("%s[%d]" % (path, i)) for i in range(n_el)] if isinstance(n_el, int) and 0 < n_el <= 8 else []
            if each and all(h is not None for h in each):
                hit = (max(h[0] for h in each), each[0][1], "all")
        key = tag + "range32/" + path
        if hit is None:
            ck.fail(R, key, "no unconditional range_check covers leaf target `%s` (a satisfying witness may hold any field element there)" % path,
                    detail={"range_checked_roles": sorted(bits)})
            continue
        kv, e, k = hit
        if kind == "all" and k != "all" and not hit[1] is None and path + "[*]" not in bits and k == "one":
            ck.fail(R, key, "range_check covers only one element of `%s`" % path, e.loc)
            continue
        if kv > 32:
            ck.fail(R, key, "`%s` is range-checked to %d bits, the property needs < 2^32" % (path, kv), e.loc)
            continue
        ck.ok(R, key, "range_check(%s, %d) present, unconditional" % (path, kv), e.loc)
        circ.require_uncond(ck, e, "UNCOND", tag + "range32-uncond/" + path, "range_check on %s" % path)
        if mentions_flag(view, circ.cb_operands(e)[0]):
            ck.fail("GATE", tag + "range32-ungated/" + path, "range-check operand of %s is multiplied by / derived from the dummy flag" % path, e.loc)
    # public-input identity (ITEM): the range-checked scalars are the registered public inputs
    for path in PUBLIC_SCALARS:
        t = view.role(path)
        ck.require(P.call_name(t) == "cb.add_virtual_public_input", "ITEM", tag + "public-identity/" + path,
                   "`%s` is the target created by add_virtual_public_input (the wire the verifier sees is the wire that is range-checked)" % path,
                   view.ev.site_loc.get(t[1]) if isinstance(t, tuple) and len(t) > 1 else None, T.show(t))
    inp = view.role("zk_merkle_proof.leaf.input_amount")
    o1 = view.role("zk_merkle_proof.leaf.output_amount_1")
    o2 = view.role("zk_merkle_proof.leaf.output_amount_2")
    fee = view.role("zk_merkle_proof.leaf.volume_fee_bps")

    # 2. fee complement: range_check(sub(const C, fee), k1)
    comp_pat = Cb("cb.sub", V("c1"), V("fee"))
    k1 = None
    comp_term = None
    for e in view.effects:
        if e.name != "cb.range_check":
            continue
        x, k = circ.cb_operands(e)[:2]
        b = P.match(comp_pat, x)
        if b and P.norm(b["fee"]) == fee and P.const_of(b["c1"]) is not None:
            c1 = P.const_of(b["c1"])
            k1 = P.const_of(k)
            comp_term = P.norm(x)
            ck.require(c1 == FEE_DENOM, "TERM", tag + "fee-complement/constant", "fee complement is `%d - fee` (expected %d)" % (c1, FEE_DENOM), e.loc)
            circ.require_uncond(ck, e, "UNCOND", tag + "fee-complement/uncond", "range_check(10000 - fee)")
            # IVL (i): fee in [0,2^32) and (C - fee) < 2^k1  =>  fee <= C   iff   2^32 + 2^k1 <= p  and C < 2^k1 (completeness)
            fb = bits.get("zk_merkle_proof.leaf.volume_fee_bps", (None,))[0]
            sound = k1 is not None and fb is not None and (1 << fb) + (1 << k1) <= P_
            ck.require(sound, "IVL", tag + "fee-complement/no-wrap",
                       "fee < 2^%s and range_check(C - fee, %s): a fee above C would be the field element p-(fee-C) >= p-2^%s, which exceeds 2^%s, so fee <= C=%d over the integers" % (fb, k1, fb, k1, c1),
                       e.loc, {"fee_bits": fb, "k1": k1, "p": P_})
            if k1 is not None and not (c1 < (1 << k1)):
                ck.note("completeness: C=%d does not fit %d bits (honest fee=0 would be rejected)" % (c1, k1))
            break
    else:
        ck.fail("TERM", tag + "fee-complement/present", "no range_check(sub(const, leaf.volume_fee_bps), k) found: fee <= 10000 is not enforced",
                detail=[T.show(circ.cb_operands(e)[0])[:300] for e in view.effects if e.name == "cb.range_check"])

    # 3. fee inequality: range_check(sub(mul(in, sub(C, fee)), mul(add(o1,o2), C)), k2)
    ineq = Cb("cb.sub", Cb("cb.mul", V("in"), V("comp")), Cb("cb.mul", Cb("cb.add", V("o1"), V("o2")), V("c2")))
    found = False
    for e in view.effects:
        if e.name != "cb.range_check":
            continue
        x, k = circ.cb_operands(e)[:2]
        b = P.match(ineq, x)
        if not b:
            continue
        found = True
        k2 = P.const_of(k)
        if P.norm(b["comp"]) == inp or P.match(comp_pat, b["in"]):
            b["in"], b["comp"] = b["comp"], b["in"]   # mul is commutative: mul(10000 - fee, input) is the same product
        okops = (P.norm(b["in"]) == inp and {P.norm(b["o1"]), P.norm(b["o2"])} == {o1, o2})
        ck.require(okops, "TERM", tag + "fee-inequality/operands",
                   "inequality operands are (input_amount; output_amount_1 + output_amount_2)", e.loc,
                   {"in": T.show(b["in"]), "o1": T.show(b["o1"]), "o2": T.show(b["o2"])})
        c2 = P.const_of(b["c2"])
        ck.require(c2 == FEE_DENOM, "TERM", tag + "fee-inequality/constant", "outputs are scaled by %s (expected %d)" % (c2, FEE_DENOM), e.loc)
        cb_ = P.match(comp_pat, b["comp"])
        comp_ok = cb_ is not None and P.norm(cb_["fee"]) == fee and P.const_of(cb_["c1"]) == FEE_DENOM
        ck.require(comp_ok, "TERM", tag + "fee-inequality/complement", "input is scaled by (10000 - volume_fee_bps)", e.loc, T.show(b["comp"]))
        ck.require(comp_term is not None and P.norm(b["comp"]) == comp_term or (comp_ok and k1 is not None), "TERM", tag + "fee-inequality/complement-checked",
                   "the complement used in the inequality is the range-checked complement", e.loc)
        circ.require_uncond(ck, e, "UNCOND", tag + "fee-inequality/uncond", "range_check(rhs - lhs)")
        # IVL (ii)
        bi = bits.get("zk_merkle_proof.leaf.input_amount", (None,))[0]
        b1 = bits.get("zk_merkle_proof.leaf.output_amount_1", (None,))[0]
        b2 = bits.get("zk_merkle_proof.leaf.output_amount_2", (None,))[0]
        if None in (bi, b1, b2, k2, k1):
            ck.fail("IVL", tag + "fee-inequality/no-wrap", "cannot bound the inequality: missing range information", e.loc,
                    {"in_bits": bi, "o1_bits": b1, "o2_bits": b2, "k2": k2, "k1": k1})
        else:
            max_lhs = ((1 << b1) - 1 + (1 << b2) - 1) * FEE_DENOM
            max_rhs = ((1 << bi) - 1) * FEE_DENOM
            sound = max_lhs < P_ - (1 << k2) and max_rhs < P_
            ck.require(sound, "IVL", tag + "fee-inequality/no-wrap",
                       "max(lhs)=%d < p - 2^%d: if lhs > rhs over the integers the field value of rhs-lhs is >= p - max(lhs) > 2^%d and the check fails, so (o1+o2)*10000 <= in*(10000-fee) holds in Z" % (max_lhs, k2, k2),
                       e.loc, {"max_lhs": max_lhs, "max_rhs": max_rhs, "k2": k2})
            if not max_rhs < (1 << k2):
                ck.note("completeness: max(rhs)=%d does not fit %d bits" % (max_rhs, k2))
        if mentions_flag(view, x):
            ck.fail("GATE", tag + "fee-inequality/ungated", "the fee inequality operand involves the dummy flag", e.loc)
        break
    if not found:
        ck.fail("TERM", tag + "fee-inequality/present",
                "no range_check(sub(mul(input, 10000-fee), mul(add(out1,out2), 10000)), k) found: the fee rule is not enforced (operand order matters: rhs - lhs)",
                detail=[T.show(circ.cb_operands(e)[0])[:400] for e in view.effects if e.name == "cb.range_check"])
    ck.floor("INV", tag + "range_check-sites", n_rc, 5, "range_check call sites in the leaf circuit")


def mentions_flag(view, t):
    flag = view.roles.get("zk_merkle_proof.is_not_dummy")
    for s in T.walk(t):
        if s == flag:
            return True
    return False


def check_fragments(ck, view, tag=""):
    """MPT: the leaf constructor runs each fragment unconditionally on the targets it returns, with the builder it returns"""
    want = {
        "UnspendableAccount as .*CircuitFragment>::circuit$": "unspendable_account",
        "ZkMerkleProofData as .*CircuitFragment>::circuit$": "zk_merkle_proof",
        "BlockHeader::circuit_without_hash_binding$": "block_header",
        "connect_shared_targets$": "",
    }
    import re
    for rx, fieldname in want.items():
        hits = [c for e in view.effects for c in e.ctrl if c[0] == "in" and re.search(rx, c[1])]
        sites = set((c[1], c[3]) for c in hits)
        key = tag + "fragment/" + (fieldname or "connect_shared_targets")
        if not sites:
            ck.fail("MPT", key, "the leaf constructor never calls the fragment matching /%s/" % rx)
            continue
        # the call itself must be unconditional in the constructor: look at the guards preceding the `in` marker
        bad = []
        for e in view.effects:
            for i, c in enumerate(e.ctrl):
                if c[0] == "in" and re.search(rx, c[1]):
                    pre = e.ctrl[:i]
                    fake = type("E", (), {"ctrl": pre})
                    bad += circ.uncond_problems(fake)
                    break
        ck.require(not bad, "MPT", key, "fragment /%s/ is invoked unconditionally by the leaf constructor" % rx,
                   detail=[circ.describe_ctrl(c) for c in bad][:4])


def run(ck):
    ck.explanation = ("C01: term-graph provenance of every range_check in the fully expanded leaf constructor, "
                      "interval arithmetic over the extracted bit widths and constants, unconditionality of each site")
    ck.not_decided = ["soundness of plonky2's range_check gadget (trusted base)"]
    view = leaf.LeafView(ck)
    check_view(ck, view)
    check_fragments(ck, view)
    # the public constructor reaches new_internal on every Ok path
    newb = ck.prog.one(r"WormholeCircuit::new$", leaf.CIRCUIT_CRATE)
    callers = ck.prog.callers().get(view.frame.body.id, [])
    ck.require(any(b.id == newb.id for b, _, _ in callers), "MPT", "new->new_internal", "WormholeCircuit::new calls the analysed constructor",
               "%s:%s" % (newb.file, newb.line))
    ck.require(all(b.crate == leaf.CIRCUIT_CRATE for b, _, _ in callers), "WMC", "new_internal-callers",
               "new_internal is only called inside the circuit crate", detail=[b.path for b, _, _ in callers])
    if True:   # both tiers: the `profile` feature swaps in `new_profiled`, a second constructor of the same circuit
        prog2 = ck.extract("profile")
        v2 = leaf.LeafView(ck, prog2, entry=r"WormholeCircuit::new_profiled$")
        check_view(ck, v2, tag="profile:")
        check_fragments(ck, v2, tag="profile:")
