"""C24 — public-input parsers: consistent layout tables, validated counts, no explicit panics (DESIGN.md §5 C24)."""
from . import layout


def run(ck):
    ck.explanation = ("C24: layout tables extracted from the three u64 parsers and the two field-element parsers agree with each other and with the circuits that write those layouts; "
                      "count validation dominates allocation and loops; header consistency checks present; u32 fields only through try_into; no explicit panic site reachable from the five parser entry points")
    ck.not_decided = ["absence of bounds-check panics (needs arithmetic relations between cursor, counts and len — not a shape property)", "round-trip equality; exactness of the accepted set"]
    ob = layout.analyse24(ck)
    ob.emit(ck, "C24")
    ck.floor("AGREE", "layout/obligations", len([1 for it in ob.items if "C24" in it[0]]), 25, "C24 obligations evaluated")
