"""C09 — private-batch output hides slot order and dummy contents (DESIGN.md §5 C09)."""
from . import pb


def run(ck):
    ck.explanation = ("C09: gate-dominance in the term DAG — every flow from a per-slot child field to the output vector or a constraint operand "
                      "passes that slot's dummy gate with the same index; nullifier region comes out of the sorting network; header only from the first-real scan")
    ck.not_decided = ["permutation invariance as a semantic statement", "prover-side shuffle (C15)"]
    ob, v = pb.analyse(ck)
    if getattr(v, "D", None) is not None and getattr(v, "seq", None) is not None:
        pb.gate_analysis(ob, v)
    ob.emit(ck, "C09")
