"""C09 — private-batch output hides slot order and dummy contents (DESIGN.md §5 C09)."""
from . import pb, gadgets_rules


def run(ck):
    ck.explanation = ("C09: gate-dominance in the term DAG — every flow from a per-slot child field to the output vector or a constraint operand "
                      "passes that slot's dummy gate with the same index; nullifier region comes out of the sorting network, and that network is "
                      "the full sort (canonical ingress, lexicographic comparator, one-flag compare-and-swap, n rounds of odd-even transposition, "
                      "egress recombination — the sort_digests4 obligations shared with C31); header only from the first-real scan")
    ck.not_decided = ["permutation invariance as a semantic statement", "prover-side shuffle (C15)",
                      "that n rounds of odd-even transposition sort every list (classical result about the network shape that is checked)"]
    ob, v = pb.analyse(ck)
    if getattr(v, "D", None) is not None and getattr(v, "seq", None) is not None:
        pb.gate_analysis(ob, v)
    ob.emit(ck, "C09")
    # "permuting the slots never changes the nullifier region" needs the region to be *sorted* for every input order: the shape of the
    # sorting gadget is a necessary condition of this property as much as of C31 (seed C09d: one round fewer leaves some orders unsorted)
    gob = gadgets_rules.analyse(ck)
    gob.emit(ck, "C09")
    ck.floor("TERM", "gadget/sort-obligations", len([1 for it in gob.items if "C09" in it[0]]), 6, "sort_digests4 obligations evaluated for C09")
