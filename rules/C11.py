"""C11 — recursive verification accepts only the canonical child circuit (DESIGN.md §5 C11)."""
from . import terms as T
from . import pat as P
from . import circ, cfg, guards
from .facts import PRODUCTION_CRATES

AGG = "qp_wormhole_aggregator"
REC = AGG + "::common::recursive::add_recursive_verifiers"


def run(ck):
    ck.explanation = ("C11: who-may-call rules for verify_proof / add_virtual_proof_with_pis / add_virtual_verifier_data, provenance of the verifier key "
                      "(a constant_verifier_data of the constructor's own parameter), pairing of every virtual proof with a verify_proof, and the "
                      "public-input-count guard dominating the builder in both batch constructors")
    ck.not_decided = ["soundness of plonky2's verify_proof / FRI (trusted base)", "that the parameters are the canonical circuits is C17's subject"]
    prog = ck.prog
    # 1. no witnessed verifier key anywhere in production code
    vv = prog.call_sites(r"::add_virtual_verifier_data$")
    ck.require(not vv, "WMC", "no-virtual-verifier-key", "add_virtual_verifier_data is never called in production code (a witnessed key would let the prover substitute the child circuit)",
               vv[0][0].loc(vv[0][1]) if vv else None, [b.path for b, _, _ in vv])
    for nm in ("verify_proof", "add_virtual_proof_with_pis", "constant_verifier_data"):
        cs = prog.call_sites(r"CircuitBuilder<F, D>>?::%s$|circuit_builder::CircuitBuilder::<F, D>::%s$|::%s$" % (nm, nm, nm))
        cs = [(b, bb, t) for b, bb, t in cs if t.get("name") == nm and t.get("impl_adt") == T.CB]
        from . import e2
        callers = sorted(set(e2.root_of(prog, b).path for b, _, _ in cs))   # a closure belongs to the function it is written in
        ck.require(callers == [REC], "WMC", "callers/" + nm, "%s is called only from add_recursive_verifiers" % nm, cs[0][0].loc(cs[0][1]) if cs else None, callers)
    for nm in ("conditionally_verify_proof", "conditionally_verify_proof_or_dummy", "conditionally_verify_cyclic_proof", "verify_proof_with_verifier_data"):
        cs = [x for x in prog.call_sites(r"::%s$" % nm)]
        ck.require(not cs, "WMC", "callers/" + nm, "%s (a verification that can be switched off by a witness) is not used" % nm, None, [b.path for b, _, _ in cs])

    # 2. add_recursive_verifiers
    body = prog.one("^" + REC.replace("::", "::") + "$")
    ck.saw(body)
    ev = T.Evaluator(prog)
    fr = ev.frame(body)
    effs = fr.effects()
    builder, common, vonly, num = [("param", body.path, i, body.local_name(i)) for i in (1, 2, 3, 4)]
    vp = [e for e in effs if e.name == "cb.verify_proof"]
    ap = [e for e in effs if e.name == "cb.add_virtual_proof_with_pis"]
    cv = [e for e in effs if e.name == "cb.constant_verifier_data"]
    ok = len(vp) == 1 and len(ap) == 1 and len(cv) == 1
    if ck.require(ok, "INV", "rec/sites", "one add_virtual_proof_with_pis, one verify_proof, one constant_verifier_data site", vp[0].loc if vp else None):
        args = [P.norm(a) for a in vp[0].args[1:]]
        ck.require(args[1] == P.norm(cv[0].result) and P.norm(cv[0].args[1]) == vonly, "PROV", "rec/key-is-constant",
                   "verify_proof's verifier data is constant_verifier_data(inner_verifier_only) of the function's own parameter", vp[0].loc, T.show(args[1])[:200])
        ck.require(args[0] == P.norm(ap[0].result) and P.norm(ap[0].args[1]) == common and args[2] == common, "PAIR", "rec/proof-verified",
                   "the proof verified is the virtual proof just created, both for inner_common", vp[0].loc)
        lp_v, lp_a = circ.loops_of(vp[0]), circ.loops_of(ap[0])
        r = circ.range_expr(lp_v[0]) if len(lp_v) == 1 else None
        ck.require(lp_v == lp_a and r is not None and P.const_of(r[0]) == 0 and P.norm(r[1]) == num and not circ.uncond_problems(vp[0]), "PAIR+UNCOND", "rec/every-proof",
                   "creation and verification are in the same iteration of `for _ in 0..num_proofs` (every slot is verified)", vp[0].loc, [T.show(l) for l in lp_v])
        ck.require(not circ.loops_of(cv[0]) and not circ.uncond_problems(cv[0]), "UNCOND", "rec/key-once", "the verifier key is baked once, outside the loop", cv[0].loc)
        oks = circ.ok_members(fr.return_term())
        good = False
        if len(oks) == 1:
            # one pushed value per iteration of the verify loop, or the value of a `.map(..).collect()` over the same range
            pv = circ.per_iteration_value(fr, effs, oks[0])
            good = pv is not None and pv[0] == P.norm(ap[0].result) and len(lp_v) == 1 and pv[1] == P.norm(lp_v[0])
        ck.require(good, "PAIR", "rec/returns-verified", "the returned proof targets are exactly the verified ones, one per iteration", vp[0].loc)
    # validate_proof_count dominates
    vc = [(bb, t) for bb, t in body.calls() if t.get("name") == "validate_proof_count"]
    first_builder = [bb for bb, t in body.calls() if t.get("impl_adt") == T.CB]
    okd = len(vc) == 1 and all(guards.dominates_ok(body, vc[0][0], bb) for bb in first_builder)
    ck.require(okd, "DOM", "rec/count-first", "validate_proof_count(num_proofs) succeeds before any builder call", body.loc(vc[0][0]) if vc else None)

    # 3. constructors: PI-count guard before the builder; parameters passed through unchanged
    for rx, want_len, nargs in ((r"private_batch::circuit::circuit_logic::PrivateBatchCircuit::new$", "leaf", 4),
                                (r"public_batch::circuit::circuit_logic::PublicBatchCircuit::new$", "private", 5)):
        b = prog.one(rx, AGG)
        ck.saw(b)
        f = ev.frame(b)
        tag = "ctor/" + b.path.rsplit("::", 2)[-2]
        gt = guards.guard_table(f)
        pc = ("param", b.path, 2, b.local_name(2))
        npi = ("fld", pc, "num_public_inputs")
        if want_len == "leaf":
            exp_ok = lambda t_: P.const_of(t_) == prog.const_value("private_batch::circuit::constants::LEAF_PI_LEN") == 21
        else:
            leaves = ("param", b.path, 5, b.local_name(5))

            def exp_ok(t_):
                from .pb import eval_int
                n = P.call_name(t_)
                if n and n.endswith("private_batch_pi_len") and P.norm(t_[4][0]) == leaves:
                    return True
                return all(eval_int(t_, {leaves: k}) == 21 * k + 8 for k in (1, 2, 64))
        hits = guards.rejects(gt, "Ne", lambda t_: P.norm(t_) == npi, exp_ok)
        ok = len(hits) >= 1 and all("err" in h["outcome"] for h in hits)
        ck.require(ok, "CMP", tag + "/pi-count-guard", "rejects a child whose num_public_inputs differs from the expected layout length, with an error", hits[0]["loc"] if hits else "%s:%s" % (b.file, b.line),
                   [(T.show(g["cond"])[:120], g["fail_when"]) for g in gt])
        nb = [bb for bb, t in b.calls() if t.get("name") == "new" and t.get("impl_adt") == T.CB]
        if ck.require(len(nb) == 1, "INV", tag + "/one-builder", "one CircuitBuilder::new site", b.loc(nb[0]) if nb else None) and hits:
            gb = hits[0]["bb"]
            # the ok-edge of the guard dominates the builder creation
            okedge = [s for s in cfg.succs(b)[gb] if not guards.Fail(b).edge_fails(gb, s)]
            ck.require(len(okedge) == 1 and cfg.dominates(b, okedge[0], nb[0]), "DOM", tag + "/guard-before-builder", "the guard's success edge dominates CircuitBuilder::new", b.loc(nb[0]))
        rc = [e for e in f.effects() if e.name == REC]
        if ck.require(len(rc) == 1, "INV", tag + "/one-recursion", "one add_recursive_verifiers call", rc[0].loc if rc else None):
            a = [P.norm(x) for x in rc[0].args]
            want = [("param", b.path, 2, b.local_name(2)), ("param", b.path, 3, b.local_name(3)), ("param", b.path, 4, b.local_name(4))]
            ck.require(a[1:] == want and P.call_name(a[0]) == "cb.new" and not circ.uncond_problems(rc[0]), "PROV", tag + "/params-passed",
                       "add_recursive_verifiers receives the constructor's own (common, verifier_only, count) and the fresh builder, unconditionally", rc[0].loc, [T.show(x)[:80] for x in a])
            oks = circ.ok_members(f.return_term())
            good = len(oks) == 1 and isinstance(oks[0], tuple) and oks[0][0] == "adt" and dict(oks[0][3]).get("builder") == a[0]
            ck.require(good, "PROV", tag + "/same-builder", "the builder that carries the recursive verifiers is the one stored in the returned circuit", rc[0].loc)
    if ck.tier == "thorough":
        from . import fixtures
        fixtures.expect_positive(ck, "add_virtual_verifier_data")
