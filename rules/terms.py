"""E3 — symbolic term graph over MIR (no execution: a def-use abstraction of the *description* of a circuit).

Every MIR local gets a term built from its definitions (flow-insensitive, field-sensitive):
  ("c", value, defpath|None)            integer / bool constant (python int), named-constant path if any
  ("cs", string)                        string constant
  ("cfn", path)                         function item
  ("unit",)
  ("param", fn_path, idx, name)         formal parameter of the root frame
  ("call", site, name, cga, args)       opaque call (library or workspace); site = unique call-site key
  ("fld", base, name) ("idx", base, i)  projections that could not be resolved structurally
  ("elem", iterable)                    loop variable / element of an iterable
  ("index", iterable)                   the counter of enumerate()
  ("tuple", items) ("array", items) ("adt", path, variant, ((field, term), ...))
  ("closure", id, captures)
  ("phi", key, members) ("rec", key)    several definitions (loop-carried or branch-merged) of one local
  ("upd", key, base, writes)            a local that is also written through projections (arr[j] = v)
  ("bin", op, a, b) ("un", op, a) ("discr", a) ("len", a)
  ("zip", a, b) ("take", a, n) ("skip", a, n) ("chunks", a, n) ("chain", a, b) ("map", it, closure)
  ("enumerate", a) ("rev", a) ("step_by", a, n)
  ("none",) ("err", e) ("unk", why)
Option/Result wrappers, references, derefs, iterators adaptors that do not change the element
(`iter`, `into_iter`, `copied`, `cloned`, `collect`, ...) and integer casts are transparent.
Loops are not unrolled: a loop body is one set of call sites whose operands mention ("elem", range).
"""
import re
from . import cfg

TRANSPARENT_NAMES = {
    "iter", "iter_mut", "into_iter", "as_slice", "as_mut_slice", "deref", "deref_mut", "borrow", "borrow_mut",
    "as_ref", "as_mut", "clone", "cloned", "copied", "to_vec", "to_owned", "into", "collect", "peekable",
    "by_ref", "unwrap", "expect", "branch", "into_vec", "box_new", "as_ptr", "into_boxed_slice",
    "try_into", "map_err", "context", "with_context", "ok_or", "ok_or_else", "from_output", "as_deref",
    "into_iter_sorted", "unwrap_or_default", "to_string", "as_str", "as_bytes", "as_path", "to_path_buf",
}
# `From::from` / `TryFrom::try_from` are conversions: keep as opaque calls (they can change representation).

MUTATORS = {"push", "extend", "extend_from_slice", "insert", "append", "push_str", "push_back", "resize",
            "remove", "retain", "clear", "drain", "pop", "truncate", "swap_remove", "entry", "get_mut",
            "sort", "sort_by", "sort_unstable", "sort_by_key", "shuffle", "reverse", "dedup", "swap",
            "copy_from_slice", "clone_from_slice", "fill", "zeroize", "take", "replace", "retain_mut",
            "split_off", "sort_unstable_by", "sort_unstable_by_key"}

FROM_FN_LEN = {}   # call site of an array::from_fn -> N

HIGHER_ORDER = {"map", "for_each", "fold", "any", "all", "filter", "filter_map", "flat_map", "try_for_each",
                "and_then", "unwrap_or_else", "ok_or_else", "map_err", "with_context", "find", "position",
                "try_fold", "retain", "from_fn", "map_or", "map_or_else", "then", "sort_by", "sort_by_key",
                "max_by_key", "min_by_key", "take_while", "skip_while", "inspect", "or_else", "is_some_and",
                "is_ok_and", "try_from_fn", "entry", "or_insert_with", "get_or_insert_with", "call", "call_mut", "call_once"}

CB = "plonky2::plonk::circuit_builder::CircuitBuilder"


def circ_range(it):
    """(start, end) if `it` is a Range adt, else None (the same test as circ.range_expr, without the import cycle)"""
    if isinstance(it, tuple) and it and it[0] == "adt" and len(it) > 3 and it[1].endswith("ops::range::Range"):
        d = dict(it[3])
        return d.get("start"), d.get("end")
    return None


def short_name(t):
    """canonical short callee name for a call terminator"""
    f = t.get("r") or t.get("f")
    if f is None:
        return "<indirect>"
    adt = t.get("impl_adt")
    name = t.get("name")
    if adt == CB and name:
        return "cb." + name
    return f


def is_const(t):
    return isinstance(t, tuple) and t and t[0] == "c"


def cval(t):
    return t[1] if is_const(t) else None


class Effect:
    __slots__ = ("site", "name", "cga", "args", "ctrl", "loc", "frame", "bb", "raw", "result", "order", "path")

    def __init__(self, site, name, cga, args, ctrl, loc, frame, bb, raw, result, order):
        self.site = site
        self.name = name
        self.cga = cga
        self.args = args
        self.ctrl = ctrl
        self.loc = loc
        self.frame = frame
        self.bb = bb
        self.raw = raw
        self.result = result
        self.order = order
        self.path = raw.get("f")

    def __repr__(self):
        return "Effect(%s @ %s)" % (self.name, self.loc)


class Evaluator:
    def __init__(self, prog, inline=None, max_depth=6, names=True, stamp_loops=False):
        """names=False: integer constants carry no definition path (`FOO` and the literal it equals are the same term) — for the circuit
        rules, which compare structure and values; the policy rules that ask "is it the shared constant" keep names=True"""
        self.prog = prog
        self.inline = inline or (lambda path: False)
        self.max_depth = max_depth
        self.names = names
        self.stamp_loops = stamp_loops
        self.site_loc = {}
        self.site_effect = {}
        self.phi_sites = {}   # key of a ("phi", key, ..) term -> {(body id, block): frame} of its assignments (see phi_def_ctrl)
        self.upd_sites = {}   # key of an ("upd", key, ..) term -> [(frame, block)] of its projection writes (see upd_write_ctrl)

    def frame(self, body, env=None, chain=()):
        return Frame(self, body, env, chain)


def upd_write_ctrl(ev, upd):
    """control context (within the writing function) of every projection write folded into an ("upd", key, base, writes) term:
    [ctrl tuple per write site]; an `upd` says WHAT is written where, this says under which guards / loops"""
    return [fr.ctrl_of_block(bi) for (_, bi), fr in ev.upd_sites.get(upd[1], {}).items()]


def phi_def_ctrl(ev, phi):
    """control context (within the assigning function) of every assignment merged into a ("phi", key, members) term"""
    return [fr.ctrl_of_block(bi) for (_, bi), fr in ev.phi_sites.get(phi[1], {}).items()]


def _direction(it):
    """False: streamed front to back, True: back to front (an odd number of `rev` layers), None: a zip whose sides disagree"""
    tag = it[0] if isinstance(it, tuple) and it else None
    if tag == "rev":
        p = _direction(it[1])
        return None if p is None else (not p)
    if tag in ("take", "skip", "map", "enumerate", "step_by", "chunks", "gen", "windows") and len(it) > 1:
        return _direction(it[1])
    if tag == "rng" and len(it) == 3:
        return _direction(it[2])
    if tag == "zip":
        a, b = _direction(it[1]), _direction(it[2])
        return a if a == b else None
    return False


class Frame:
    def __init__(self, ev, body, env, chain):
        self.ev = ev
        self.body = body
        self.env = env  # local idx -> term (params)
        self.chain = chain  # tuple of site keys leading here
        self.memo = {}
        self.inprog = set()
        self.defs = {}
        self.pdefs = {}
        self._scan_defs()
        self._effects = None
        self._children = {}
        self._ctrl = None
        self._live = None
        self._live_busy = False
        self._reenter = {}

    # ---- keys ---------------------------------------------------------------
    def site(self, bb):
        k = "%s@bb%d" % (self.body.path, bb)
        if self.chain:
            k = self.chain[-1] + ">" + k
        return k

    def lkey(self, l):
        n = self.body.local_name(l) or ("_%d" % l)
        k = "%s#%s" % (self.body.path, n if self.body.local_name(l) is None else "%s_%d" % (n, l))
        if self.chain:
            k = self.chain[-1] + ">" + k
        return k

    # ---- definitions ----------------------------------------------------------
    def _scan_defs(self):
        for bi, b in enumerate(self.body.blocks):
            if b["cleanup"]:
                continue
            for si, s in enumerate(b["s"]):
                if "d" not in s:
                    continue
                d = s["d"]
                if not d["p"]:
                    self.defs.setdefault(d["l"], []).append(("rv", bi, si))
                else:
                    self.pdefs.setdefault(d["l"], []).append(("rv", bi, si))
            t = b["t"]
            if t["k"] == "call":
                d = t["dest"]
                if not d["p"]:
                    self.defs.setdefault(d["l"], []).append(("call", bi, None))
                else:
                    self.pdefs.setdefault(d["l"], []).append(("call", bi, None))

    # ---- build-time case pruning ------------------------------------------------------
    def live(self):
        """blocks reachable from entry when every switch whose discriminant evaluates to a constant
        (a parameter bound to a constant by the caller, e.g. `match slot {0..3}` under from_fn) only
        follows the matching arm"""
        if self._live is not None:
            return self._live
        if self._live_busy or self.env is None:
            return None
        if not any(is_const(v) for v in self.env.values()) and not any(
                isinstance(v, tuple) and v and v[0] == "closure" and any(is_const(c) for c in v[2]) for v in self.env.values()):
            return None
        self._live_busy = True
        saved_memo = self.memo
        self.memo = {}
        try:
            s = cfg.succs(self.body)
            seen = set()
            st = [0]
            while st:
                n = st.pop()
                if n in seen:
                    continue
                seen.add(n)
                t = self.body.blocks[n]["t"]
                nxt = s[n]
                if t["k"] == "switch":
                    d = self.operand_term(t["d"])
                    if is_const(d):
                        tgt = t["else"]
                        for v, b in t["arms"]:
                            if int(v) == d[1]:
                                tgt = b
                        nxt = [tgt]
                st.extend(nxt)
        finally:
            self.memo = saved_memo if False else {}
            self._live_busy = False
        self._live = seen
        return seen

    def is_live(self, bb):
        lv = self.live()
        return True if lv is None else (bb in lv)

    # ---- terms -------------------------------------------------------------------
    def local_term(self, l):
        if l in self.memo:
            return self.memo[l]
        key = self.lkey(l)
        if l in self.inprog:
            # cut cycles only at merge points (several definitions / projected writes); a single-definition
            # temporary met again is re-evaluated so that the cut lands on the loop-carried variable itself
            merge = (len(self.defs.get(l, ())) + (1 if l in self.pdefs else 0) + (1 if 1 <= l <= self.body.argc else 0)) > 1
            depth = self._reenter.get(l, 0)
            if merge or depth >= 2 or not self.defs.get(l):
                return ("rec", key)
            self._reenter[l] = depth + 1
            try:
                (kind, bi, si) = self.defs[l][0]
                if kind == "rv":
                    return self.rvalue_term(self.body.blocks[bi]["s"][si]["r"])
                return ("rec", key)
            finally:
                self._reenter[l] = depth
        # parameters
        if 1 <= l <= self.body.argc and l not in self.defs:
            if self.env is not None and l in self.env:
                base = self.env[l]
            else:
                base = ("param", self.body.path, l, self.body.local_name(l) or "_%d" % l)
            if l in self.pdefs:
                self.inprog.add(l)
                base = self._with_updates(l, key, base)
                self.inprog.discard(l)
            self.memo[l] = base
            return base
        self.inprog.add(l)
        try:
            members = []
            mblock = []
            for (kind, bi, si) in self.defs.get(l, []):
                if not self._live_busy and not self.is_live(bi):
                    continue
                if kind == "rv":
                    rv = self.body.blocks[bi]["s"][si]["r"]
                    tm = self.rvalue_term(rv)
                else:
                    tm = self.call_term(bi)
                if tm not in members:
                    members.append(tm)
                    mblock.append(bi)
            if len(mblock) > 1 or any(_mentions_rec(m, key) for m in members):
                self.ev.phi_sites.setdefault(key, {}).update({(self.body.id, bi): self for bi in mblock})
            if any(_mentions_rec(m, key) for m in members):
                # a loop-carried value {init, step(previous)} is read by the rules as a fold: step applied on EVERY iteration.  When some
                # completed iteration of a loop can skip every assignment (`if c { acc = f(acc) }`), the steps assigned in that loop
                # are marked ("guarded", step) so that no fold pattern matches them
                lv = None if self._live_busy else self.live()
                clean = cfg.every_iteration_passes(self.body, set(mblock), lv)
                bad = [nodes for (h, nodes, _) in cfg.natural_loops(self.body) if clean.get(h) is False]
                if bad:
                    members = [("guarded", m) if any(bi in nodes for nodes in bad) else m for m, bi in zip(members, mblock)]
            if 1 <= l <= self.body.argc:
                # parameter that is also reassigned
                p = self.env[l] if (self.env is not None and l in self.env) else ("param", self.body.path, l, self.body.local_name(l) or "_%d" % l)
                members.insert(0, p)
            if not members:
                base = ("unk", "undef:" + key) if l not in self.pdefs else None
            elif len(members) == 1:
                base = members[0]
                if _mentions_rec(base, key):
                    base = ("phi", key, tuple(members))
            else:
                base = ("phi", key, tuple(members))
            if l in self.pdefs:
                base = self._with_updates(l, key, base)
        finally:
            self.inprog.discard(l)
        self.memo[l] = base
        return base

    def _with_updates(self, l, key, base):
        writes = []
        for (kind, bi, si) in self.pdefs[l]:
            if not self._live_busy and not self.is_live(bi):
                continue
            if kind == "rv":
                s = self.body.blocks[bi]["s"][si]
                proj = self._proj_desc(s["d"]["p"])
                val = self.rvalue_term(s["r"])
            else:
                t = self.body.blocks[bi]["t"]
                proj = self._proj_desc(t["dest"]["p"])
                val = self.call_term(bi)
            w = (proj, val)
            if w not in writes:
                writes.append(w)
            self.ev.upd_sites.setdefault(key, {}).setdefault((self.body.id, bi), self)
        return ("upd", key, base, tuple(writes))

    def _proj_desc(self, projs):
        out = []
        for p in projs:
            if p == "*":
                continue
            if isinstance(p, dict):
                if "f" in p:
                    out.append(("f", p["n"]))
                elif "i" in p:
                    out.append(("i", self.local_term(p["i"])))
                elif "ci" in p:
                    out.append(("i", ("c", p["ci"], None)))
                elif "dc" in p:
                    out.append(("dc", p["dc"]))
                else:
                    out.append(("?",))
            else:
                out.append(("?",))
        return tuple(out)

    def place_term(self, place):
        t = self.local_term(place["l"])
        for p in place["p"]:
            t = self.project(t, p)
        return t

    def project(self, t, p):
        if p == "*":
            return t
        if not isinstance(p, dict):
            return ("unk", "proj")
        if "dc" in p:
            # enum downcast: transparent for Option/Result (wrappers are transparent), recorded otherwise
            if isinstance(t, tuple) and t and t[0] == "adt" and t[2] == p["dc"]:
                return t
            return t
        if "f" in p:
            owner = p.get("o", "")
            name = p["n"]
            if owner in ("core::option::Option::Some", "core::result::Result::Ok", "core::result::Result::Err",
                         "core::ops::control_flow::ControlFlow::Continue", "core::ops::control_flow::ControlFlow::Break"):
                return t
            return self.field(t, name, p["f"])
        if "i" in p:
            return self.index(t, self.local_term(p["i"]))
        if "ci" in p:
            return self.index(t, ("c", p["ci"], None)) if not p.get("fe") else ("idx", t, ("fromend", p["ci"]))
        if "ss" in p:
            return ("subslice", t, p["ss"][0], p["ss"][1], p.get("fe", False))
        return ("unk", "proj")

    def field(self, t, name, idx=None):
        tag = t[0] if isinstance(t, tuple) and t else None
        if tag == "adt":
            for fn_, ft in t[3]:
                if fn_ == name:
                    return ft
            return ("fld", t, name)
        if tag == "tuple":
            try:
                return t[1][int(name)]
            except (ValueError, IndexError):
                return ("fld", t, name)
        if tag == "closure":
            try:
                return t[2][int(name)]
            except (ValueError, IndexError):
                return ("fld", t, name)
        if tag == "bin" and t[1].endswith("WithOverflow"):
            if name == "0":
                return fold_bin(t[1][:-len("WithOverflow")], t[2], t[3])
            return ("c", 0, None)
        if tag == "phi":
            return ("phi", t[1] + "." + name, tuple(self.field(m, name, idx) for m in t[2]))
        if tag == "upd":
            hits = [v for (proj, v) in t[3] if proj and proj[0] == ("f", name)]
            base = self.field(t[2], name, idx) if t[2] is not None else None
            if hits:
                ms = ([base] if base is not None else []) + [h for h in hits]
                return ms[0] if len(ms) == 1 else ("phi", t[1] + "." + name, tuple(ms))
            return base if base is not None else ("fld", t, name)
        if tag == "elem":
            it = t[1]
            # `.take(n)` outside a zip / enumerate limits the length, not what an element is: a.zip(b).take(n) streams a.take(n), b.take(n)
            takes = []
            while isinstance(it, tuple) and len(it) == 3 and it[0] == "take" and isinstance(it[1], tuple) and it[1] and it[1][0] in ("zip", "enumerate", "take"):
                takes.append(it[2])
                it = it[1]

            def lim(x):
                for n_ in reversed(takes):
                    x = ("take", x, n_)
                return x
            if isinstance(it, tuple) and it and it[0] == "zip" and name in ("0", "1"):
                return self.elem(lim(it[1 + int(name)]))
            if isinstance(it, tuple) and it and it[0] == "enumerate" and name in ("0", "1"):
                return ("index", lim(it[1])) if name == "0" else self.elem(lim(it[1]))
        return ("fld", t, name)

    def index(self, t, i):
        tag = t[0] if isinstance(t, tuple) and t else None
        if tag == "array" and is_const(i) and 0 <= i[1] < len(t[1]):
            return t[1][i[1]]
        if tag == "array" and len(set(t[1])) == 1:
            return t[1][0]
        if tag == "from_fn":
            r = self.closure_ret(t[1], [i], site_hint=t[2] if len(t) > 2 else None)
            return ("idx", t, i) if _generative(r, self._closure_path(t[1]), self.ev.prog.bodies) else r
        if tag == "map":
            r = self.closure_ret(t[2], [self.index(t[1], i)], site_hint=t[3] if len(t) > 3 else None)
            # a closure that creates something fresh per call (a virtual target) must not be applied per index:
            # all elements would collapse into its single call site
            return ("idx", t, i) if _generative(r, self._closure_path(t[2]), self.ev.prog.bodies) else r
        if tag == "take":
            return self.index(t[1], i)
        # (position i of a reversed stream is position len-1-i of its source: left as an index into the reversed stream itself)
        if tag == "adt" and t[1].endswith("ops::range::Range"):
            d = dict(t[3])
            st = d.get("start")
            if st is not None:
                return i if (is_const(st) and st[1] == 0) else fold_bin("Add", st, i)
        if tag == "upd":
            hits = [v for (proj, v) in t[3] if proj and proj[0][0] == "i"]
            base = self.index(t[2], i) if t[2] is not None else None
            ms = ([base] if base is not None else []) + hits
            if len(ms) == 1:
                return ms[0]
            return ("phi", t[1] + "[]", tuple(ms))
        return ("idx", t, i)

    def _closure_path(self, clos):
        if isinstance(clos, tuple) and clos and clos[0] == "closure":
            cb = self.ev.prog.bodies.get(clos[1])
            return cb.path if cb is not None else None
        return None

    def elem(self, it, stamp=None):
        """element term of one iteration over `it`.  stamp: the site of the `for` loop's into_iter (Evaluator(stamp_loops=True)):
        the leaves ("elem", X) / ("index", X) become ("elem", ("rng", site, X)), so two loops over the same collection (an outer
        `for x in v` and an inner `for (y, z) in v.iter().zip(w)`) have different element terms"""
        tag = it[0] if isinstance(it, tuple) and it else None
        if tag == "rng" and len(it) == 3 and circ_range(it[2]) is None:
            return self.elem(it[2], stamp=it[1])
        st = (lambda x: ("rng", stamp, x)) if stamp is not None else (lambda x: x)
        if tag == "zip":
            pa, pb = _direction(it[1]), _direction(it[2])
            if pa != pb or pa is None:
                # a.zip(b.rev()): the two sides run in different directions, so "the element of this iteration" of the reversed
                # side is NOT the element at the other side's position — it stays opaque (rules fail closed on it)
                side = lambda x, p_: self.elem(x, stamp) if p_ is False else ("elem", st(("opposite_direction", x)))
                return ("tuple", (side(it[1], pa), side(it[2], pb)))
            return ("tuple", (self.elem(it[1], stamp), self.elem(it[2], stamp)))
        if tag == "enumerate":
            return ("tuple", (("index", st(it[1])), self.elem(it[1], stamp)))
        if tag == "map":
            r = self.closure_ret(it[2], [self.elem(it[1], stamp)], site_hint=it[3] if len(it) > 3 else None)
            # a closure that creates something fresh per call (a virtual target): the collected vector's elements are distinct
            # objects, so "the element of this iteration" stays an element of the vector (same rule as index())
            if _generative(r, self._closure_path(it[2]), self.ev.prog.bodies):
                return ("elem", st(("gen", it)))
            return r
        if tag in ("rev",):
            return self.elem(it[1], stamp)
        if tag in ("take", "skip") and isinstance(it[1], tuple) and it[1] and it[1][0] == "map":
            m = it[1]
            r = self.closure_ret(m[2], [self.elem((tag, m[1], it[2]), stamp)], site_hint=m[3] if len(m) > 3 else None)
            if tag == "take" and _generative(r, self._closure_path(m[2]), self.ev.prog.bodies):
                # a prefix of a collected vector of fresh objects: still elements of that vector (see the `map` case above)
                return ("elem", st(("take", ("gen", m), it[2])))
            return r
        if tag in ("take", "skip") and isinstance(it[1], tuple) and it[1] and it[1][0] == "enumerate":
            return ("tuple", (("index", st(it)), self.elem((tag, it[1][1], it[2]), stamp)))
        if tag in ("take", "skip") and isinstance(it[1], tuple) and it[1] and it[1][0] == "zip":
            # a.zip(b).take(n) streams the pairs of a.take(n) and b.take(n)
            return ("tuple", (self.elem((tag, it[1][1], it[2]), stamp), self.elem((tag, it[1][2], it[2]), stamp)))
        return ("elem", st(it))

    def operand_term(self, op):
        if "k" in op:
            k = op["k"]
            if "v" in k:
                v = int(k["sv"]) if "sv" in k else int(k["v"])
                return ("c", v, k.get("def") if self.ev.names else None)
            if "s" in k:
                return ("cs", k["s"])
            if "range" in k:
                # a constant `a..b` / `a..=b` (promoted): the same term an inline Range aggregate gives
                path = "core::ops::range::RangeInclusive" if k.get("incl") else "core::ops::range::Range"
                return ("adt", path, path.rsplit("::", 1)[-1], (("start", ("c", int(k["range"][0]), None)), ("end", ("c", int(k["range"][1]), None))))
            if "fn" in k:
                return ("cfn", k["fn"])
            if k.get("ty") == "()":
                return ("unit",)
            if "cparam" in k:
                cg = self.env.get("cga") if self.env else None
                if cg and k.get("cparam_name_index") is not None:
                    pass
                return ("cparam", k["cparam"], k.get("cparam_index"))
            if "def" in k:
                return ("cdef", k["def"])
            return ("unk", "const:" + k.get("ty", "?"))
        pl = op.get("c") or op.get("m")
        return self.place_term(pl)

    def rvalue_term(self, rv):
        k = rv["k"]
        if k == "use":
            return self.operand_term(rv["a"])
        if k == "ref" or k == "rawptr":
            return self.place_term(rv["p"])
        if k == "cast":
            return self.operand_term(rv["a"])
        if k == "bin":
            return fold_bin(rv["op"], self.operand_term(rv["a"]), self.operand_term(rv["b"]))
        if k == "un":
            a = self.operand_term(rv["a"])
            if rv["op"] == "PtrMetadata":
                return ("len", a)
            if rv["op"] == "Not" and is_const(a) and a[1] in (0, 1):
                return ("c", 1 - a[1], None)
            return ("un", rv["op"], a)
        if k == "discr":
            return ("discr", self.place_term(rv["p"]))
        if k == "repeat":
            a = self.operand_term(rv["a"])
            n = rv["n"]
            if isinstance(n, str) and n.isdigit():
                n = int(n)
            if isinstance(n, int) and 0 < n <= 4:
                return ("array", (a,) * n)   # `[x; 4]` is `[x, x, x, x]` (digest-sized literals; longer fills stay `repeat`)
            return ("repeat", a, n)
        if k == "agg":
            ak = rv["ak"]
            ops = tuple(self.operand_term(o) for o in rv["ops"])
            t = ak["t"]
            if t == "tuple":
                return ("tuple", ops) if ops else ("unit",)
            if t == "array":
                return ("array", ops)
            if t == "adt":
                path = ak["adt"]
                var = ak["variant"]
                if path == "core::option::Option":
                    return ops[0] if var == "Some" else ("none",)
                if path == "core::result::Result":
                    return ops[0] if var == "Ok" else ("err", ops[0])
                return ("adt", path, var, tuple(zip(ak["fields"], ops)))
            if t == "closure":
                return ("closure", ak["id"], ops)
            return ("unk", "agg")
        return ("unk", "rvalue:" + k)

    # ---- calls ---------------------------------------------------------------------
    def call_term(self, bb):
        ck = ("call", bb)
        if ck in self.memo:
            return self.memo[ck]
        if ck in self.inprog:
            return ("rec", self.site(bb))
        self.inprog.add(ck)
        try:
            r = self._call_term(bb)
        finally:
            self.inprog.discard(ck)
        self.memo[ck] = r
        return r

    def _call_term(self, bb):
        t = self.body.blocks[bb]["t"]
        args = [self.operand_term(a) for a in t["args"]]
        name = t.get("name")
        f = t.get("f")
        site = self.site(bb)
        if f is None:
            fop = self.operand_term(t["fop"])
            return ("call", site, "<indirect>", (), tuple([fop] + args))
        sn = short_name(t)
        cga = tuple(int(x) if x is not None else None for x in t.get("cga", []))
        is_std = f.startswith(("core::", "alloc::", "std::"))
        # closures called directly
        if name in ("call", "call_mut", "call_once") and args and isinstance(args[0], tuple) and args[0] and args[0][0] == "closure":
            a = args[1][1] if (len(args) > 1 and isinstance(args[1], tuple) and args[1][0] == "tuple") else (args[1:] if len(args) > 1 and args[1] != ("unit",) else [])
            return self.closure_ret(args[0], list(a), site_hint=site)
        if is_std or f.startswith(("anyhow::", "itertools::")):
            if name == "into_iter" and args and isinstance(args[0], tuple) and args[0] and (circ_range(args[0]) is not None or (self.ev.stamp_loops and args[0][0] != "rng")):
                # `for i in a..b`: the loop's iterator is stamped with its site, so that two loops over equal ranges (a nested
                # `for j in 0..n` inside `for i in 0..n`) have different element terms; with Evaluator(stamp_loops=True) every
                # `for` loop is stamped (two loops over the same collection)
                return ("rng", site, args[0])
            if name in TRANSPARENT_NAMES and args:
                return args[0]
            if name == "box_assume_init_into_vec_unsafe" and len(t.get("args", [])) == 1:
                # `vec![a, b, c]` (this toolchain's expansion): the array literal is written into a fresh uninitialised box, which then
                # becomes the Vec — the Vec's initial contents are that array
                # (the store goes through a raw-pointer copy of the box, in the block that ends with this call)
                n_ = cga[0] if cga else None
                stores_ = [st_ for st_ in self.body.blocks[bb]["s"]
                           if st_.get("d") and st_["d"]["p"] and st_["d"]["p"][0] == "*" and (st_.get("r") or {}).get("k") == "agg"
                           and st_["r"]["ak"].get("t") == "array" and len(st_["r"].get("ops", [])) == n_]
                if len(stores_) == 1:
                    return self.rvalue_term(stores_[0]["r"])
            if name == "from" and len(args) == 1 and (t.get("r") or "").startswith("<alloc::vec::Vec<T") and "From<[T; N]>" in (t.get("r") or ""):
                return args[0]     # Vec::from([a, b, c]): the same elements in the same order
            if name == "size_of" and not args and t.get("ga"):
                sz = {"u8": 1, "i8": 1, "bool": 1, "u16": 2, "i16": 2, "u32": 4, "i32": 4, "u64": 8, "i64": 8, "usize": 8, "isize": 8, "u128": 16, "i128": 16}.get(t["ga"][0])
                if sz is not None:
                    return ("c", sz, None)
            if name == "next" and args:
                return self.elem(args[0])
            if name == "not" and len(args) == 1 and f.startswith(("core::ops::bit", "anyhow::__private")):
                if is_const(args[0]) and args[0][1] in (0, 1):
                    return ("c", 1 - args[0][1], None)
                return ("un", "Not", args[0])
            if name in ("eq", "ne", "lt", "le", "gt", "ge") and len(args) == 2 and f.startswith("core::cmp"):
                # PartialEq / PartialOrd method calls are comparisons whatever the operand type (Duration, slices, digests)
                return fold_bin(name.capitalize(), args[0], args[1])
            if name == "zip" and len(args) == 2:
                return ("zip", args[0], args[1])
            if name == "enumerate" and args:
                return ("enumerate", args[0])
            if name == "rev" and args:
                return ("rev", args[0])
            if name in ("take", "skip", "chunks", "chunks_exact", "step_by", "windows") and len(args) == 2 and f.startswith(("core::iter", "core::slice")):
                return (name if name != "chunks_exact" else "chunks", args[0], args[1])
            if name == "chain" and len(args) == 2:
                return ("chain", args[0], args[1])
            if name == "once" and len(args) == 1 and "iter" in f:
                return ("array", (args[0],))
            if name == "flatten" and args:
                return ("flatten", args[0])
            if name == "map" and len(args) == 2 and "option" not in f and "result" not in f:
                return ("map", args[0], args[1], site)
            if name == "index" and len(args) == 2:
                return self.index(args[0], args[1])
            if name == "index_mut" and len(args) == 2:
                return self.index(args[0], args[1])
            if name in ("get", "get_mut") and len(args) == 2 and f.startswith(("core::slice", "alloc::vec")):
                return self.index(args[0], args[1])
            if name == "len" and args:
                return ("len", args[0])
            if name == "from_fn" and args and f.startswith("core::array"):
                if cga and isinstance(cga[-1], int):
                    FROM_FN_LEN[site] = cga[-1]     # array::from_fn::<T, N, F>: the length is the const generic argument
                return ("from_fn", args[0], site)
            if name == "fold" and len(args) == 3:
                key = site + "#fold"
                step = self.closure_ret(args[2], [("rec", key), self.elem(args[0])], site_hint=site)
                return ("phi", key, (args[1], step))
            if name == "leading_zeros" and len(args) == 1 and is_const(args[0]) and args[0][1] >= 0:
                bits = 64 if "usize" in f or "u64" in f else (32 if "u32" in f else None)
                if bits:
                    return ("c", bits - args[0][1].bit_length(), None)
            if name in ("first", "last") and args:
                return self.index(args[0], ("c", 0, None)) if name == "first" else ("idx", args[0], ("fromend", 1))
        # workspace callee, inlined on request
        cid = t.get("rid") or t.get("fid")
        callee = self.ev.prog.bodies.get(cid)
        if callee is not None and self.ev.inline(callee.path) and len(self.chain) < self.ev.max_depth and site not in self.chain:
            child = self.child(bb, callee, args)
            return child.return_term()
        return ("call", site, sn, cga, tuple(args))

    def child(self, bb, callee, args):
        if bb in self._children:
            return self._children[bb]
        env = {i + 1: a for i, a in enumerate(args)}
        ch = Frame(self.ev, callee, env, self.chain + (self.site(bb),))
        self._children[bb] = ch
        return ch

    def closure_frame(self, clos, args, site_hint):
        body = self.ev.prog.bodies.get(clos[1])
        if body is None:
            return None
        key = ("clos", clos, site_hint, tuple(args))
        if key in self._children:
            return self._children[key]
        env = {1: clos}
        for i, a in enumerate(args):
            env[i + 2] = a
        chain = self.chain + ((site_hint or self.site(0)),)
        if len(chain) > self.ev.max_depth + 4:
            return None
        ch = Frame(self.ev, body, env, chain)
        self._children[key] = ch
        return ch

    def closure_ret(self, clos, args, site_hint=None):
        if not (isinstance(clos, tuple) and clos and clos[0] == "closure"):
            return ("call", site_hint or "?", "<closure?>", (), tuple([clos] + list(args)))
        ch = self.closure_frame(clos, args, site_hint)
        if ch is None:
            return ("unk", "closure-body-missing")
        return ch.return_term()

    def return_term(self):
        return self.local_term(0)

    # ---- control context -----------------------------------------------------------
    def ctrl_of_block(self, bb):
        """tuple of guard descriptors (outermost first) the block is control dependent on"""
        if self._ctrl is None:
            self._ctrl = cfg.control_deps_closed(self.body, intra_iteration=True)
        deps = sorted(self._ctrl.get(bb, ()), key=lambda ab: (self._rpo_index(ab[0]), ab[1]))
        out = []
        for (a, b) in deps:
            out.append(self.describe_guard(a, b))
        return tuple(out)

    def _rpo_index(self, bb):
        r = cfg.rpo(self.body)
        try:
            return r.index(bb)
        except ValueError:
            return 10 ** 6

    def describe_guard(self, a, b):
        t = self.body.blocks[a]["t"]
        vals = cfg.switch_edge_value(self.body, a, b)
        d = self.operand_term(t["d"])
        if isinstance(d, tuple) and d and d[0] == "discr":
            inner = d[1]
            if isinstance(inner, tuple) and inner and inner[0] in ("elem",):
                it = inner[1]
                # element terms drop `.rev()` (the element is the same); the loop descriptor keeps it, so the visiting order is known
                src = self._discr_source(t["d"])
                if src is not None and src[0] == "loop" and isinstance(src[1], tuple) and src[1] and src[1][0] == "rev" and self.elem(src[1]) == inner:
                    it = src[1]
                return ("loop", it, tuple(vals), a, self.body.id)
            # Try::branch result / Option / Result matches
            src = self._discr_source(t["d"])
            if src is not None:
                return (src[0], src[1], tuple(vals), a, self.body.id)
            return ("match", inner, tuple(vals), a, self.body.id)
        return ("case", d, tuple(vals), a, self.body.id)

    def _discr_source(self, op):
        """if the switch operand is the discriminant of a call result, name the call"""
        pl = op.get("c") or op.get("m")
        if pl is None or pl["p"]:
            return None
        for (kind, bi, si) in self.defs.get(pl["l"], []):
            if kind != "rv":
                continue
            rv = self.body.blocks[bi]["s"][si]["r"]
            if rv["k"] != "discr":
                continue
            base = rv["p"]["l"]
            for (k2, b2, s2) in self.defs.get(base, []):
                if k2 == "call":
                    ct = self.body.blocks[b2]["t"]
                    nm = ct.get("name")
                    if nm == "branch":
                        return ("try", self.operand_term(ct["args"][0]) if ct["args"] else None)
                    if nm == "next":
                        return ("loop", self.operand_term(ct["args"][0]) if ct["args"] else None)
                    return ("match-call", short_name(ct))
        return None

    # ---- effects ---------------------------------------------------------------------
    def effects(self):
        """all calls of this frame in RPO, with inlined callee/closure effects spliced in place"""
        if self._effects is not None:
            return self._effects
        out = []
        order = [0]

        def emit(e):
            e.order = order[0]
            order[0] += 1
            out.append(e)

        self._collect(emit, ())
        out = _split_chain_loops(out)
        for k, e in enumerate(out):
            e.order = k
        self._effects = out
        return out

    def _collect(self, emit, ctrl_prefix):
        body = self.body
        for bb in cfg.rpo(body):
            blk = body.blocks[bb]
            if blk["cleanup"] or not self.is_live(bb):
                continue
            t = blk["t"]
            # stores through pointers / projections are not calls; record deref stores as effects
            for si, s in enumerate(blk["s"]):
                if "d" in s and s["d"]["p"] and "*" in s["d"]["p"]:
                    tgt = self.local_term(s["d"]["l"])
                    val = self.rvalue_term(s["r"])
                    emit(Effect(self.site(bb) + "#s%d" % si, "<store>", (), (tgt, val, self._proj_desc(s["d"]["p"])),
                                ctrl_prefix + self.ctrl_of_block(bb), "%s:%s" % (body.file, s.get("ln")), self, bb,
                                {"f": "<store>"}, None, 0))
            if t["k"] != "call":
                continue
            site = self.site(bb)
            args = tuple(self.operand_term(a) for a in t["args"])
            ctrl = ctrl_prefix + self.ctrl_of_block(bb)
            name = t.get("name")
            sn = short_name(t)
            cga = tuple(int(x) if x is not None else None for x in t.get("cga", []))
            loc = body.loc(bb)
            self.ev.site_loc[site] = loc
            cid = t.get("rid") or t.get("fid")
            callee = self.ev.prog.bodies.get(cid) if cid else None
            inlined = False
            if callee is not None and self.ev.inline(callee.path) and len(self.chain) < self.ev.max_depth and site not in self.chain:
                ch = self.child(bb, callee, list(args))
                ch._collect(emit, ctrl + (("in", callee.path, (), bb),))
                inlined = True
            # closures handed to higher-order library functions: splice the closure's effects here
            if not inlined and name in HIGHER_ORDER:
                for ai, a in enumerate(args):
                    if isinstance(a, tuple) and a and a[0] == "closure":
                        cargs = self._closure_args_for(name, args, ai)
                        ch = self.closure_frame(a, cargs, site)
                        if ch is not None and ch is not self and site not in self.chain:
                            if name == "for_each" and ai == 1 and t.get("trait") == "core::iter::traits::iterator::Iterator":
                                # `it.for_each(|x| body)` is `for x in it { body }`: same control entry, same element term
                                ch._collect(emit, ctrl + (("loop", args[0], ("1",), bb, self.body.id),))
                            elif name == "map" and ai == 1 and t.get("trait") == "core::iter::traits::iterator::Iterator" and self._collected_next(bb):
                                # `it.map(|x| body).collect()`: the closure runs once per element, in order, like a `for` loop
                                # (only when the adaptor is consumed whole by the very next call; a lazy or truncated map stays a closure)
                                ch._collect(emit, ctrl + (("loop", args[0], ("1",), bb, self.body.id),))
                            else:
                                ch._collect(emit, ctrl + (("closure", name, (), bb),))
                    elif isinstance(a, tuple) and a and a[0] == "map" and name in ("collect",):
                        pass
            if not inlined:
                res = self.call_term(bb)
                if sn in ("cb.assert_zero", "cb.assert_one") and len(args) == 2:
                    # idiom table: assert_zero(x) ≡ connect(x, zero), assert_one(x) ≡ connect(x, one) — one canonical form for every rule
                    k = "cb.zero" if sn == "cb.assert_zero" else "cb.one"
                    args = (args[0], args[1], ("call", site + "#" + k, k, (), (args[0],)))
                    sn = "cb.connect"
                ectrl = ctrl
                if sn == "cb.connect_hashes" and len(args) == 3:
                    # idiom table: connect_hashes(a, b) ≡ for i in 0..4 { connect(a.elements[i], b.elements[i]) }
                    rng = ("rng", site + "#limbs", ("adt", "core::ops::range::Range", "Range", (("start", ("c", 0, None)), ("end", ("c", 4, None)))))
                    el = ("elem", rng)
                    args = (args[0], ("idx", ("fld", args[1], "elements"), el), ("idx", ("fld", args[2], "elements"), el))
                    ectrl = ctrl + (("loop", rng, ("1",), bb, self.body.id),)
                    sn = "cb.connect"
                e = Effect(site, sn, cga, args, ectrl, loc, self, bb, t, res, 0)
                self.ev.site_effect[site] = e
                emit(e)

    def _collected_next(self, bb):
        """the value produced by the call ending block `bb` is consumed, whole, by a `collect` in the block it continues to"""
        t = self.body.blocks[bb]["t"]
        nxt = t.get("t")
        if nxt is None or t["dest"]["p"]:
            return False
        t2 = self.body.blocks[nxt]["t"]
        if t2.get("k") != "call" or t2.get("name") not in ("collect",) or not t2.get("args"):
            return False
        a0 = t2["args"][0].get("m") or t2["args"][0].get("c")
        return bool(a0) and not a0["p"] and a0["l"] == t["dest"]["l"]

    def _closure_args_for(self, name, args, ai):
        recv = args[0] if args else ("unk", "recv")
        if name in ("call", "call_mut", "call_once"):
            a = args[1] if len(args) > 1 else ("unit",)
            if isinstance(a, tuple) and a and a[0] == "tuple":
                return list(a[1])
            return [] if a == ("unit",) else [a]
        if name == "fold":
            return [("rec", "fold"), self.elem(recv)]
        if name == "from_fn":
            return [("index", ("from_fn",))]
        if name in ("map_err", "unwrap_or_else", "ok_or_else", "with_context", "or_else", "then", "or_insert_with", "get_or_insert_with", "map_or_else"):
            return [("unk", "err-value")]
        if name in ("and_then", "map_or", "is_some_and", "is_ok_and"):
            return [recv]
        if name == "map" and not (isinstance(recv, tuple) and recv and recv[0] in ("zip", "enumerate", "take", "skip", "elem", "rev", "map", "chain", "adt", "chunks")):
            # could be Option::map / Result::map as well as Iterator::map
            return [self.elem(recv)]
        return [self.elem(recv)]


def _refold(t):
    """re-apply the projections that fold on construction (field of a tuple) after a substitution"""
    if not isinstance(t, tuple) or not t:
        return t
    t = tuple(_refold(x) if isinstance(x, tuple) else x for x in t)
    if t[0] == "fld" and len(t) == 3 and isinstance(t[1], tuple) and t[1] and t[1][0] == "tuple":
        try:
            return t[1][1][int(t[2])]
        except (ValueError, IndexError):
            return t
    return t


def _split_chain_loops(effects):
    """`for x in a.chain(b) { body }` runs the body over a, then over b: every effect under such a loop becomes two effects, one per
    part, with the element terms rewritten (so a loop over `xs.zip(ys).chain(us.zip(vs))` is two zip loops for every rule)"""
    out = []
    for e in effects:
        hit = None
        for k, c in enumerate(e.ctrl):
            if c[0] == "loop" and tuple(c[2]) == ("1",):
                it = c[1]
                core = it[2] if (isinstance(it, tuple) and len(it) == 3 and it[0] == "rng" and circ_range(it) is None) else it
                if isinstance(core, tuple) and len(core) == 3 and core[0] == "chain":
                    hit = (k, it, core)
                    break
        if hit is None:
            out.append(e)
            continue
        k, it, core = hit
        parts = []
        for tag, part in (("#chain0", core[1]), ("#chain1", core[2])):
            fr = e.frame
            new_el = fr.elem(part) if fr is not None else ("elem", part)
            rep = lambda t_: _refold(subst(t_, ("elem", it), new_el)) if isinstance(t_, tuple) else t_
            ctrl2 = tuple(((c[0], part) + tuple(c[2:])) if j == k else tuple(rep(x) if isinstance(x, tuple) and j > k else x for x in c) for j, c in enumerate(e.ctrl))
            e2 = Effect(e.site + tag, e.name, e.cga, tuple(rep(a) for a in e.args), ctrl2, e.loc, e.frame, e.bb, e.raw, rep(e.result) if isinstance(e.result, tuple) else e.result, 0)
            parts.append(e2)
        out += _split_chain_loops(parts)
    return out


def _generative(t, closure_path, bodies=None):
    """does the closure create something fresh per call (a virtual target, a container) in its own body?"""
    if closure_path is None:
        return False
    mark = closure_path + "@bb"
    for s in walk(t):
        if s and s[0] == "call" and len(s) == 5 and mark in s[1] and (
                s[2].startswith("cb.add_virtual") or s[2].endswith(("Vec::<T>::new", "Vec::<T>::with_capacity"))):
            return True
        if s and s[0] in ("from_fn", "map") and len(s) > 2 and isinstance(s[-1], str) and mark in s[-1] and bodies is not None:
            # a nested generator built inside the closure: generative if the inner closure body creates targets
            inner = s[1] if s[0] == "from_fn" else s[2]
            if isinstance(inner, tuple) and inner and inner[0] == "closure":
                ib = bodies.get(inner[1])
                if ib is not None and any((t.get("name") or "").startswith("add_virtual") for _, t in ib.calls()):
                    return True
    return False


def fold_bin(op, a, b):
    if is_const(a) and is_const(b):
        x, y = a[1], b[1]
        try:
            if op in ("Add", "AddUnchecked"):
                return ("c", x + y, None)
            if op in ("Sub", "SubUnchecked"):
                return ("c", x - y, None)
            if op in ("Mul", "MulUnchecked"):
                return ("c", x * y, None)
            if op == "Div" and y != 0:
                return ("c", x // y, None)
            if op == "Rem" and y != 0:
                return ("c", x % y, None)
            if op in ("Shl", "ShlUnchecked"):
                return ("c", x << y, None)
            if op in ("Shr", "ShrUnchecked"):
                return ("c", x >> y, None)
            if op == "BitAnd":
                return ("c", x & y, None)
            if op == "BitOr":
                return ("c", x | y, None)
            if op == "Eq":
                return ("c", int(x == y), None)
            if op == "Ne":
                return ("c", int(x != y), None)
            if op == "Lt":
                return ("c", int(x < y), None)
            if op == "Le":
                return ("c", int(x <= y), None)
            if op == "Gt":
                return ("c", int(x > y), None)
            if op == "Ge":
                return ("c", int(x >= y), None)
        except Exception:
            pass
    return ("bin", op, a, b)


def _mentions_rec(t, key):
    if not isinstance(t, tuple):
        return False
    if len(t) == 2 and t[0] == "rec" and t[1] == key:
        return True
    for x in t:
        if isinstance(x, tuple) and _mentions_rec(x, key):
            return True
    return False


# ---- term utilities -------------------------------------------------------------------

def seq_items(t):
    """ordered element list of a sequence-valued term: chain/array are expanded, anything else is one
    ("all", t) segment meaning `every element of t, in t's order`"""
    if isinstance(t, tuple) and t:
        if t[0] == "chain":
            return seq_items(t[1]) + seq_items(t[2])
        if t[0] == "array":
            return [("one", x) for x in t[1]]
    return [("all", t)]


def walk(t, seen=None):
    """yield all sub-terms (pre-order)"""
    if not isinstance(t, tuple):
        return
    yield t
    for x in t:
        if isinstance(x, tuple):
            for y in walk(x):
                yield y


def subst(t, old, new, _memo=None):
    """t with every occurrence of sub-term `old` replaced by `new`"""
    if _memo is None:
        _memo = {}
    if not isinstance(t, tuple) or not t:
        return t
    if t == old:
        return new
    got = _memo.get(id(t))
    if got is not None and got[0] is t:
        return got[1]
    r = tuple(subst(x, old, new, _memo) if isinstance(x, tuple) else x for x in t)
    _memo[id(t)] = (t, r)
    return r


def leaves(t):
    """atoms of a term: params (with field paths), constants, opaque call sites, elems"""
    out = set()
    for s in walk(t):
        if s and s[0] in ("param", "c", "cs", "call", "elem", "rec"):
            if s[0] == "call":
                out.add(("call", s[1], s[2]))
            else:
                out.add(s)
    return out


def calls_in(t, name=None):
    for s in walk(t):
        if s and s[0] == "call" and len(s) == 5 and (name is None or s[2] == name or (hasattr(name, "search") and name.search(s[2]))):
            yield s


def show(t, depth=0, maxdepth=7):
    """compact rendering for reports"""
    if not isinstance(t, tuple) or not t:
        return repr(t)
    if depth > maxdepth:
        return "…"
    tag = t[0]
    r = lambda x: show(x, depth + 1, maxdepth)
    if tag == "c":
        return (str(t[1]) if t[2] is None else "%s=%s" % (t[2].rsplit("::", 1)[-1], t[1]))
    if tag == "cs":
        return repr(t[1])
    if tag == "param":
        return "%s" % t[3]
    if tag == "call":
        nm = t[2].rsplit("::", 1)[-1] if not t[2].startswith("cb.") else t[2][3:]
        cg = ("::<%s>" % ",".join(map(str, t[3]))) if t[3] else ""
        args = t[4]
        if t[2].startswith("cb.") and args:
            args = args[1:]
        return "%s%s(%s)" % (nm, cg, ", ".join(r(a) for a in args))
    if tag == "fld":
        return "%s.%s" % (r(t[1]), t[2])
    if tag == "idx":
        return "%s[%s]" % (r(t[1]), r(t[2]))
    if tag in ("elem", "index", "len", "discr", "enumerate", "rev"):
        return "%s(%s)" % (tag, r(t[1]))
    if tag in ("tuple", "array"):
        b = "()" if tag == "tuple" else "[]"
        return b[0] + ", ".join(r(x) for x in t[1]) + b[1]
    if tag == "adt":
        return "%s{%s}" % (t[1].rsplit("::", 1)[-1], ", ".join("%s: %s" % (k, r(v)) for k, v in t[3]))
    if tag == "rng" and len(t) == 3:
        return r(t[2])
    if tag == "phi":
        return "φ%s{%s}" % (t[1].rsplit("#", 1)[-1], " | ".join(r(x) for x in t[2]))
    if tag == "rec":
        return "↺" + t[1].rsplit("#", 1)[-1]
    if tag == "upd":
        return "upd(%s; %s)" % (r(t[2]) if t[2] is not None else "-", ", ".join("%s:=%s" % (".".join(str(q[-1] if not isinstance(q[-1], tuple) else r(q[-1])) for q in p), r(v)) for p, v in t[3]))
    if tag == "bin":
        return "(%s %s %s)" % (r(t[2]), t[1], r(t[3]))
    if tag == "un":
        return "%s(%s)" % (t[1], r(t[2]))
    if tag == "closure":
        return "closure#%s" % t[1].rsplit("::", 1)[-1]
    if tag in ("zip", "take", "skip", "chunks", "chain", "step_by", "windows"):
        return "%s(%s, %s)" % (tag, r(t[1]), r(t[2]))
    if tag == "map":
        return "map(%s, %s)" % (r(t[1]), r(t[2]))
    return "%s(%s)" % (tag, ", ".join(r(x) if isinstance(x, tuple) else str(x) for x in t[1:]))


APPENDERS = {"push": "one", "push_back": "one", "extend_from_slice": "all", "extend": "all", "append": "all", "insert": "one"}


def contents(effects, container):
    """ordered list of (kind, term, effect) appended to `container` (a Vec::new()/with_capacity() call term or any
    term used as receiver) by push/extend/... effects, in program order; kind 'one' = one element, 'all' = every
    element of the term. Other mutators on the same receiver are returned with kind 'mutate:<name>'."""
    out = []
    for e in effects:
        if not e.args:
            continue
        nm = e.raw.get("name")
        if e.args[0] != container:
            continue
        if nm in APPENDERS and (e.path or "").startswith(("alloc::vec", "alloc::collections", "core::iter", "<alloc::vec", "alloc::string")) or nm in APPENDERS and "Vec" in (e.raw.get("impl_adt") or e.path or ""):
            arg = e.args[-1]
            kind = APPENDERS[nm]
            if kind == "all":
                for k2, t2 in seq_items(arg):
                    out.append((k2, t2, e))
            else:
                out.append(("one", arg, e))
        elif nm in MUTATORS and not (e.path or "").startswith(("core::iter", "<core::iter", "core::option", "core::result")) and e.raw.get("trait") != "core::iter::traits::iterator::Iterator":
            out.append(("mutate:" + nm, None, e))
    return out
