"""C21 — pool exit paths (DESIGN.md §5 C21)."""
from . import pool


def run(ck):
    ck.explanation = 'C21: removal effect sets (only evict_settled / evict_older_than / remove_bucket remove), eviction predicates by term, snapshot_batch effect set = {last_snapshot_at} and order-preserving prefix clone, BatchKey offsets'
    ck.not_decided = ['that a snapshot always passes the public-batch preflight (joint with C14)']
    ob = pool.analyse(ck)
    ob.emit(ck, "C21")
    ck.floor("INV", "pool/obligations", len([1 for it in ob.items if "C21" in it[0]]), 9, "C21 obligations evaluated")
