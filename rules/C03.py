"""C03 — block hash commits to the header, header root to the tree path (DESIGN.md §5 C03)."""
from . import terms as T
from . import pat as P
from . import circ, leaf, postable, lc
from .pat import V, K, Cb

HEADER_ORDER = [("all", "block_header.header.parent_hash"), ("one", "block_header.header.block_number"),
                ("all", "block_header.header.state_root"), ("all", "block_header.header.extrinsics_root"),
                ("all", "block_header.header.zk_tree_root"), ("all", "block_header.header.digest")]
LEAF_ORDER = [("all", "zk_merkle_proof.leaf.to_account.elements"), ("all", "zk_merkle_proof.leaf.transfer_count"),
              ("one", "zk_merkle_proof.leaf.asset_id"), ("one", "zk_merkle_proof.leaf.input_amount")]


def strip_el(t):
    t = P.norm(t)
    return t[1] if (isinstance(t, tuple) and t and t[0] == "fld" and t[2] == "elements") else t


def seq_matches(view, seq, order):
    got = []
    for k, t, _ in seq:
        roles = view.role_of(t)
        got.append((k, roles[0] if roles else "?" + T.show(t)[:60]))
    return got == list(order), got


def check_view(ck, view, tag=""):
    gates = leaf.gated_equalities(view)
    flag, _ = leaf.flag_definition(view)
    role_flag = view.role("zk_merkle_proof.is_not_dummy")

    # --- block hash = H(header preimage in the fixed order) ---------------------------------------------
    bh = view.role("block_header.block_hash")
    hit = None
    for g in gates:
        a, ia, b, ib, nest = leaf.split_pair(g["e"], g["A"], g["B"])
        for pub, ip, comp, ic in ((a, ia, b, ib), (b, ib, a, ia)):
            if strip_el(pub) == bh:
                hit = (g, ip, comp, ic, nest)
    if hit is None:
        ck.fail("TERM", tag + "block-hash/present", "no (gated) equality between the public block hash and a computed hash")
    else:
        g, ip, comp, ic, nest = hit
        e = g["e"]
        pre = leaf.single_hash_preimage(comp)
        ck.require(pre is not None and leaf.double_hash_preimage(comp) is None, "TERM", tag + "block-hash/single-hash",
                   "block hash limb is compared with one Poseidon2 hash of the header preimage", e.loc, T.show(comp)[:300])
        ck.require(leaf.all_limbs(nest, ip, ic), "TERM", tag + "block-hash/all-limbs", "same limb index i in 0..4 on both sides", e.loc)
        ck.require(P.norm(g["G"]) in (flag, role_flag), "PROV", tag + "block-hash/flag", "gated by the in-circuit dummy flag only", e.loc)
        circ.require_uncond(ck, e, "UNCOND", tag + "block-hash/uncond", "the block-hash binding")
        if pre is not None:
            ok, got = seq_matches(view, leaf.sequence_of(view, pre), HEADER_ORDER)
            ck.require(ok, "ORDER", tag + "block-hash/preimage-order",
                       "header preimage is parent_hash ++ [block_number] ++ state_root ++ extrinsics_root ++ zk_tree_root ++ digest", e.loc, got)
            bn = view.role("block_header.header.block_number")
            ck.require(P.call_name(bn) == "cb.add_virtual_public_input", "PROV", tag + "block-number/public",
                       "the block number inside the preimage is the public-input wire", e.loc)

    # --- header root == merkle root --------------------------------------------------------------------
    zr, rh = view.role("block_header.header.zk_tree_root"), view.role("zk_merkle_proof.root_hash")
    hr = [g for g in gates if {strip_el(x) for x in leaf.split_pair(g["e"], g["A"], g["B"])[0:3:2]} == {zr, rh}]
    if ck.require(len(hr) == 1, "TERM", tag + "header-root/present", "header.zk_tree_root[i] == zk_merkle_proof.root_hash[i] (gated)", hr[0]["e"].loc if hr else None):
        g = hr[0]
        _, ia, _, ib, nest = leaf.split_pair(g["e"], g["A"], g["B"])
        ck.require(leaf.all_limbs(nest, ia, ib), "TERM", tag + "header-root/all-limbs", "all four limbs, same index", g["e"].loc)
        ck.require(P.norm(g["G"]) in (flag, role_flag), "PROV", tag + "header-root/flag", "gated by the in-circuit dummy flag only", g["e"].loc)
        circ.require_uncond(ck, g["e"], "UNCOND", tag + "header-root/uncond", "the header-root binding")

    # --- merkle walk -----------------------------------------------------------------------------------------
    mr = None
    for g in gates:
        a, ia, b, ib, nest = leaf.split_pair(g["e"], g["A"], g["B"])
        for walk, iw, root, ir in ((a, ia, b, ib), (b, ib, a, ia)):
            if strip_el(root) == rh and strip_el(walk) != zr:
                mr = (g, walk, iw, ir, nest)
    if mr is None:
        ck.fail("TERM", tag + "merkle-root/present", "no (gated) equality between the walked hash and zk_merkle_proof.root_hash")
        return
    g, walk, iw, ir, nest = mr
    e = g["e"]
    fr = e.frame
    # the walk is built in the level loop, which does not enclose the root comparison: terms are made loop-canonical against the
    # frame's loops (rules/lc.py), so `for level in 0..MAX_DEPTH { siblings[level] }` and a zip/enumerate form read the same
    fnest = lc.Nest(loops=[], fallback=lc.frame_nest(fr))

    def Cn(t):
        return P.norm(fnest.canon(P.norm(t)))
    ck.require(leaf.all_limbs(nest, iw, ir), "TERM", tag + "merkle-root/all-limbs", "all four limbs, same index", e.loc)
    ck.require(P.norm(g["G"]) in (flag, role_flag), "PROV", tag + "merkle-root/flag", "gated by the dummy flag only", e.loc)
    circ.require_uncond(ck, e, "UNCOND", tag + "merkle-root/uncond", "the merkle-root binding")
    walk = P.norm(walk)
    if not (isinstance(walk, tuple) and walk[0] == "phi" and len(walk[2]) == 2):
        ck.fail("TERM", tag + "walk/loop-carried", "the hash compared with the root is not a loop-carried value {leaf hash, per-level update}", e.loc, T.show(walk)[:400])
        return
    key = walk[1]
    init = [m for m in walk[2] if not (isinstance(m, tuple) and m[0] == "from_fn")]
    step = [m for m in walk[2] if isinstance(m, tuple) and m[0] == "from_fn"]
    if not (len(init) == 1 and len(step) == 1):
        ck.fail("TERM", tag + "walk/loop-carried", "unexpected members of the running hash", e.loc, [T.show(m)[:200] for m in walk[2]])
        return
    # init = leaf hash
    pre = leaf.single_hash_preimage(init[0])
    ok, got = (False, None)
    if pre is not None:
        ok, got = seq_matches(view, leaf.sequence_of(view, pre), LEAF_ORDER)
    ck.require(ok, "ORDER", tag + "walk/leaf-hash", "the walk starts at H(to_account ++ transfer_count ++ [asset_id] ++ [input_amount])", e.loc, got or T.show(init[0])[:300])
    # step
    I = ("sym", "I")
    st = fr.index(step[0], I)
    b = P.match(Cb("cb.select", V("active"), V("parent"), V("keep")), st)
    if not ck.require(b is not None, "TERM", tag + "walk/step-select", "per level: current[i] = select(is_active_level, parent[i], current[i])", e.loc, T.show(st)[:400]):
        return
    keep = P.norm(b["keep"])
    kb = strip_el(keep[1]) if (isinstance(keep, tuple) and keep[0] == "idx") else None
    keep_ok = kb is not None and keep[2] == I and isinstance(kb, tuple) and kb[0] in ("rec", "phi") and kb[1].startswith(key.rsplit(".", 1)[0])
    ck.require(keep_ok, "TERM", tag + "walk/step-keep", "inactive levels keep the running hash limb i", e.loc, T.show(keep)[:200])
    # active flag
    act = Cn(b["active"])
    an = P.call_name(act)
    depth = view.role("zk_merkle_proof.depth")
    max_depth = ck.prog.const_value("zk_merkle::MAX_DEPTH")
    lvl_ok = False
    n_log = None
    level = None
    if an and an.endswith("gadgets::is_const_less_than"):
        args = act[4]
        level, dterm, nl = P.norm(args[1]), P.norm(args[2]), P.norm(args[3])
        n_log = P.const_of(nl)
        # the level loop covers 0..MAX_DEPTH (by value: the leaf view carries no constant names)
        lvl_ok = (lc.is_var(level, 0, max_depth) and dterm == depth and n_log is not None and (1 << n_log) > max_depth)
    ck.require(lvl_ok, "TERM", tag + "walk/active-level", "is_active_level = is_const_less_than(level, depth, n_log) with level in 0..MAX_DEPTH(=%d) and 2^n_log > MAX_DEPTH" % max_depth,
               e.loc, T.show(act)[:300])
    # depth bound
    dbs = [x for x in view.effects if x.name.endswith("gadgets::enforce_target_less_than_const")]
    okd = False
    for x in dbs:
        a = x.args
        if P.norm(a[1]) == depth and P.const_of(a[2]) == max_depth + 1 and P.const_of(a[3]) is not None and (1 << P.const_of(a[3])) > max_depth + 0 and P.const_of(a[2]) <= (1 << P.const_of(a[3])):
            okd = True
            circ.require_uncond(ck, x, "UNCOND", tag + "depth-bound/uncond", "the depth bound")
            ck.ok("TERM", tag + "depth-bound", "enforce_target_less_than_const(depth, MAX_DEPTH+1=%d, n_log=%d)" % (max_depth + 1, P.const_of(a[3])), x.loc)
    if not okd:
        ck.fail("TERM", tag + "depth-bound", "no enforce_target_less_than_const(depth, MAX_DEPTH + 1, n_log) with 2^n_log >= MAX_DEPTH+1",
                detail=[[T.show(y)[:80] for y in x.args] for x in dbs])
    # parent = H(children in slot order)
    par = P.norm(b["parent"])
    par_ok = isinstance(par, tuple) and par[0] == "idx" and par[2] == I
    pre = leaf.single_hash_preimage(par[1]) if par_ok else None
    if not ck.require(pre is not None, "TERM", tag + "walk/parent-hash", "parent[i] is limb i of one Poseidon2 hash", e.loc, T.show(par)[:300]):
        return
    cs = T.contents(view.effects, P.norm(pre))
    children = None
    if len(cs) == 1 and cs[0][0] == "all":
        t = P.norm(cs[0][1])
        if isinstance(t, tuple) and t[0] == "fld" and t[2] == "elements" and isinstance(t[1], tuple) and t[1][0] == "elem":
            children = t[1][1]
            loops = circ.loops_of(cs[0][2])
            if not any(l == children for l in loops):
                children = None
    if children is None:
        # `[c0, c1, c2, c3].iter().flat_map(|c| c.elements).collect()`: the children in slot order, each contributing its limbs in order
        pn = P.norm(pre)
        if isinstance(pn, tuple) and pn and pn[0] == "call" and pn[2].endswith("::flat_map") and len(pn[4]) == 2 and isinstance(pn[4][1], tuple) and pn[4][1][0] == "closure":
            src = P.norm(pn[4][0])
            per = P.norm(fr.closure_ret(pn[4][1], [("elem", src)], site_hint=pn[1]))
            if per == ("fld", ("elem", src), "elements") and isinstance(src, tuple) and src and src[0] in ("array", "from_fn"):
                children = src
    n_children = len(children[1]) if (isinstance(children, tuple) and children and children[0] == "array") else (lc.known_len(children) if children is not None else None)
    if not ck.require(children is not None and isinstance(children, tuple) and children[0] in ("from_fn", "array") and n_children == 4, "ORDER", tag + "walk/parent-preimage",
                      "the parent preimage is the concatenation of the 4 children's limbs in slot order (one append per child, in a loop over the children array)",
                      cs[0][2].loc if cs else e.loc, [(k, T.show(t)[:200]) for k, t, _ in cs]):
        return
    # position range check
    positions = Cn(view.role("zk_merkle_proof.positions"))
    siblings = Cn(view.role("zk_merkle_proof.siblings"))
    pos_term = ("idx", positions, level)
    rc = [x for x in view.effects if x.name == "cb.range_check" and Cn(circ.cb_operands(x)[0]) == pos_term]
    if ck.require(len(rc) >= 1, "TERM", tag + "position/range", "range_check(positions[level], k) present for the level loop variable", rc[0].loc if rc else e.loc):
        kbits = min(P.const_of(circ.cb_operands(x)[1]) for x in rc)
        ck.require(kbits is not None and kbits <= 2, "TERM", tag + "position/range-bits", "position is range-checked to %s bits (<= 2: position in 0..3)" % kbits, rc[0].loc)
        circ.require_uncond(ck, rc[0], "UNCOND", tag + "position/range-uncond", "the position range check")
    # children table
    E = ("sym", "E")
    cur_ph = None
    atoms = {}
    for k in range(3):
        atoms[("idx", ("fld", ("idx", ("idx", siblings, level), ("c", k, None)), "elements"), E)] = "s%d" % k
    table = {}
    bad = []
    for p in range(4):
        row = []
        for slot in range(4):
            c = fr.index(children, ("c", slot, None))
            x = Cn(fr.index(fr.field(c, "elements"), E))
            # current-hash atom: the running value's limb E
            for s in T.walk(x):
                if s and s[0] == "idx" and s[2] == E and isinstance(strip_el(s[1]), tuple) and strip_el(s[1])[0] in ("phi", "rec") and strip_el(s[1])[1].startswith(key.rsplit(".", 1)[0]):
                    atoms[s] = "cur"
            v = postable.eval_select(x, pos_term, atoms, p)
            row.append(v)
            if v.startswith("?"):
                bad.append((p, slot, v))
        table[p] = row
    ck.require(not bad, "TERM", tag + "children/evaluable", "every child limb is a select network over {current, sibling 0..2} keyed on is_equal(position, k)", e.loc, bad[:4])
    ck.require(table == postable.SPEC_TABLE, "AGREE", tag + "children/spec-table",
               "children table over position in {0,1,2,3} = insertion of the running hash at that position among the ordered siblings", e.loc, table)
    nt, err, nloc = postable.native_table(ck)
    ck.require(nt == table, "AGREE", tag + "children/native-table", "circuit table equals native insert_at_position", nloc, {"native": nt, "circuit": table})
    ck.require(err, "CMP", tag + "native/position-range", "native insert_at_position rejects position > 3 with an error", nloc)
    if ck.tier == "thorough" and not tag:
        lt = postable.lean_table(ck.repo)
        ck.require(lt == table, "AGREE", "children/lean-table", "circuit table equals Lean stepUp", "formal/WormholeSpec/Leaf.lean", {"lean": lt, "circuit": table})


def check_native_header(ck):
    fr = circ.frame_of(ck, r"header::HeaderInputs::block_hash$", leaf.CIRCUIT_CRATE)
    effs = fr.effects()
    h = [e for e in effs if e.raw.get("name") == "hash_no_pad_bytes"]
    ok = False
    got = None
    if len(h) == 1:
        pre = P.norm(h[0].args[0])
        cs = T.contents(effs, pre)
        got = [(k, circ.param_paths(t) and sorted(circ.param_paths(t))[0]) for k, t, _ in cs]
        want = [("all", "self.parent_hash"), ("one", "self.block_number"), ("all", "self.state_root"), ("all", "self.extrinsics_root"),
                ("all", "self.zk_tree_root"), ("all", "self.digest")]
        ok = got == want
    ck.require(ok, "AGREE", "native/header-preimage-order", "native HeaderInputs::block_hash hashes the same field order as the circuit",
               "%s:%s" % (fr.body.file, fr.body.line), got)


def run(ck):
    ck.explanation = "C03: header/leaf preimage order, per-level position table (finite evaluation over positions 0..3), depth/level gating and the gated root equalities"
    ck.not_decided = ["plonky2 hash/select gadget semantics; is_const_less_than correctness is C30's subject"]
    view = leaf.LeafView(ck)
    check_view(ck, view)
    check_native_header(ck)
    ck.require(ck.prog.const_value("zk_merkle::MAX_DEPTH") == 16, "ITEM", "max-depth", "MAX_DEPTH == 16 (the property's 'at most 16 levels')")
    if True:   # both tiers: the `profile` feature swaps in `new_profiled`, a second constructor of the same circuit
        prog2 = ck.extract("profile")
        v2 = leaf.LeafView(ck, prog2, entry=r"WormholeCircuit::new_profiled$")
        ck2prog = ck.prog
        ck.prog = prog2
        try:
            check_view(ck, v2, "profile:")
        finally:
            ck.prog = ck2prog
