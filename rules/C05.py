"""C05 — leaf proving exposes exactly the stated public inputs; malformed shapes are rejected (DESIGN.md §5 C05)."""
from . import layout


def run(ck):
    ck.explanation = ("C05 (narrow): the order in which the expanded leaf constructor (default build, and `new_profiled` of the `profile` build) creates public-input targets equals the index tables of the inputs crate, of both leaf parsers "
                      "and of the aggregator (four tables, one layout); depth / length / position guards reject with Err and dominate the work they protect; the verifier loader's caps and pins precede parsing")
    ck.not_decided = ["that honest proving succeeds and the pinned verifier accepts (completeness) — needs running the prover", "parse-back equality on values", "absence of panics in general"]
    ob = layout.analyse05(ck, with_profile=True)
    ob.emit(ck, "C05")
    ck.floor("AGREE", "layout/obligations", len([1 for it in ob.items if "C05" in it[0]]), 12, "C05 obligations evaluated")
