"""C17 — artifact loaders accept only canonical circuits and bound their reads (DESIGN.md §5 C17)."""
from . import loaders, pubb


def run(ck):
    ck.explanation = """C17: who-may-read-files and who-may-deserialize rules, cap guards dominating the reads, keccak pins dominating deserialization in the verifier crate, byte-pinned loaders returning the canonical rebuild after a whole-slice comparison of both parts, semantic match before returning the public-batch verifier, no prover-side artifact type or name anywhere"""
    ck.not_decided = ["""what the pinned keccak constants hash to (a value fact covered by the repository's circuit_data_tests)"""]
    ob = loaders.analyse(ck)
    ob.emit(ck, "C17")
    if "C17" == "C18":
        ob2, _ = pubb.analyse(ck)
        ob2.emit(ck, "C18")
    ck.floor("INV", "loaders/obligations", len([1 for it in ob.items if "C17" in it[0]]), 20, "C17 obligations evaluated")
