"""C17 — artifact loaders accept only canonical circuits and bound their reads (DESIGN.md §5 C17)."""
from . import loaders, pubb


def run(ck):
    ck.explanation = """C17: who-may-read-files and who-may-deserialize rules, cap guards dominating the reads, keccak pins dominating deserialization in the verifier crate, byte-pinned loaders returning the canonical rebuild after a whole-slice comparison of both parts, semantic match before returning the public-batch verifier, no prover-side artifact type or name anywhere"""
    ck.not_decided = ["""what the pinned keccak constants hash to (a value fact covered by the repository's circuit_data_tests)"""]
    ob = loaders.analyse(ck)
    ob.emit(ck, "C17")
    ck.floor("INV", "loaders/obligations", len([1 for it in ob.items if "C17" in it[0]]), 20, "C17 obligations evaluated")
    if ck.tier == "thorough":
        import re
        from . import fixtures
        fixtures.expect_positive(ck, "fs_read")
        # the same post-filter loaders.analyse applies to ::from_bytes sites, and its prover-side classification
        cd = lambda t: re.search(r"circuit_data::\w+::<.*>::from_bytes$|circuit_data::\w+::from_bytes$", t.get("r") or t.get("f") or "") is not None
        for what in ("circuit_data_from_bytes", "full_circuit_from_bytes"):
            hits = fixtures.expect_positive(ck, what, extra=cd)
            ck.require(all(loaders.is_prover_side(t) for _, _, t in hits), "FIXTURE", "positive/prover-side/" + what,
                       "the fixture's prover-side deserialization is classified as prover-side by the rule that must find none in production", "fixtures/src/lib.rs")
