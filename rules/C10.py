"""C10 — aggregation outputs leave no witness freedom (DESIGN.md §5 C10)."""
from . import gadgets_rules, pb, pubb, circ
from . import terms as T
from . import pat as P

AGG = "qp_wormhole_aggregator"


def constructor_free(ck):
    """FREE over the aggregator constructors: every virtual target is a declared input stored in the targets struct"""
    prog = ck.prog
    allowed = {
        "qp_wormhole_aggregator::private_batch::circuit::circuit_logic::PrivateBatchCircuit::new": ("add_virtual_target", "dummy_nullifier_pre_images"),
        "qp_wormhole_aggregator::public_batch::circuit::circuit_logic::PublicBatchCircuit::new": ("add_virtual_targets", "aggregator_address"),
        "qp_wormhole_aggregator::common::recursive::add_recursive_verifiers": ("add_virtual_proof_with_pis", None),
    }
    sites = [(b, bb, t) for b, bb, t in prog.call_sites(r"::add_virtual_\w+$|BoolTarget::new_unsafe$") if b.crate == AGG]
    seen = set()
    for b, bb, t in sites:
        root = b
        while root.kind == "Closure":
            root = prog.bodies.get(root.d.get("root"))
        want = allowed.get(root.path)
        # `add_virtual_target_arr::<N>()` is N × `add_virtual_target()`
        ok = want is not None and (t.get("name") == want[0] or (want[0] == "add_virtual_target" and t.get("name") == "add_virtual_target_arr"))
        ck.require(ok, "FREE", "agg/free/%s@%s" % (t.get("name"), root.path.split("::", 1)[-1]),
                   "virtual target creator in the aggregator crate is one of the three declared-input sites", b.loc(bb))
        seen.add(root.path)
    ck.require(seen == set(allowed), "FREE", "agg/free/sites", "declared-input sites found: %s" % sorted(x.rsplit("::", 2)[-2] + "::" + x.rsplit("::", 1)[-1] for x in seen))
    # each is stored in the returned targets struct
    for path, (creator, field) in allowed.items():
        if field is None:
            continue
        body = prog.one("^" + path.replace("::", "::") + "$")
        ck.saw(body)
        ev = T.Evaluator(prog)
        fr = ev.frame(body)
        oks = circ.ok_members(fr.return_term())
        rt = oks[0] if len(oks) == 1 else None
        tg = dict(rt[3]).get("targets") if isinstance(rt, tuple) and rt[0] == "adt" else None
        val = dict(tg[3]).get(field) if isinstance(tg, tuple) and tg[0] == "adt" else None
        ok = False
        if val is not None:
            if creator == "add_virtual_targets":
                ok = P.call_name(val) == "cb.add_virtual_targets"
            else:
                # one [add_virtual_target(); 4] per slot: pushed in a loop or produced by map(..).collect(); the four targets written
                # as an array literal or as array::from_fn(|_| add_virtual_target())
                pv = circ.per_iteration_value(fr, fr.effects(), val)
                if pv is not None:
                    four = pv[0]
                    if isinstance(four, tuple) and four and four[0] == "from_fn":
                        four = ("array", tuple(P.norm(fr.index(four, ("c", k, None))) for k in range(4)))
                    if P.call_name(four) == "cb.add_virtual_target_arr" and four[3] and four[3][-1] == 4:
                        four = ("array", tuple(("call", four[1] + "#%d" % k, "cb.add_virtual_target", (), four[4]) for k in range(4)))
                    per = lambda x: P.call_name(x) == "cb.add_virtual_target" or (isinstance(x, tuple) and x and x[0] == "idx" and isinstance(x[1], tuple) and x[1] and x[1][0] == "from_fn"
                                                                                    and P.call_name(fr.closure_ret(x[1][1], [x[2]])) == "cb.add_virtual_target")
                    ok = isinstance(four, tuple) and four[0] == "array" and len(four[1]) == 4 and all(per(x) for x in four[1])
        ck.require(ok, "FREE", "agg/free/stored/" + field, "the created targets are exactly what is stored in targets.%s (filled by the prover as an input)" % field, "%s:%s" % (body.file, body.line),
                   T.show(val)[:200] if val is not None else None)


def run(ck):
    ck.explanation = ("C10: free-witness inventory of both wrappers, their constructors and the common gadgets; the two unsafe booleans and the two hint-style "
                      "decompositions are pinned by term pattern; who-may-call rules for split_low_high / split_le / new_unsafe")
    ck.not_decided = ["plonky2's own gadgets (split_low_high, split_le, is_equal, select, hash) leave no freedom: trusted base"]
    gadgets_rules.analyse(ck).emit(ck, "C10")
    ob, v = pb.analyse(ck)
    ob.emit(ck, "C10")
    ob2, v2 = pubb.analyse(ck)
    ob2.emit(ck, "C10")
    constructor_free(ck)
    if ck.tier == "thorough":
        from . import fixtures
        fixtures.expect_positive(ck, "new_unsafe")
        fixtures.expect_positive(ck, "add_virtual_target")
        fixtures.expect_uncond_positive(ck)
