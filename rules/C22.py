"""C22 — verification budget (DESIGN.md §5 C22)."""
from . import pool


def run(ck):
    ck.explanation = "C22: the only verify call in pool.rs is in push; budget comparison dominates the increment which dominates verify; the increment is not on verify's success edge; the counter is reset only under the elapsed-window guard, which also restarts the window; zero budget/window rejected by new"
    ck.not_decided = ['wall-clock behaviour of Instant']
    ob = pool.analyse(ck)
    ob.emit(ck, "C22")
    ck.floor("INV", "pool/obligations", len([1 for it in ob.items if "C22" in it[0]]), 8, "C22 obligations evaluated")
