"""Rules over common/src/gadgets.rs shared by C10 (no witness freedom), C30 (less-than) and C31 (sorting)."""
import re
from . import terms as T
from . import pat as P
from . import circ, cfg, guards
from .pat import V, K, Cb
from .pb import Ob, _and_leaves

COMMON = "qp_zk_circuits_common"
TWO32 = 1 << 32


def gframe(ck, name, ev=None):
    body = ck.prog.one(r"gadgets::%s$" % name, COMMON)
    ck.saw(body)
    ev = ev or T.Evaluator(ck.prog, names=False)
    return ev.frame(body), body


def param(body, i, name=None):
    return ("param", body.path, i, name or body.local_name(i) or "_%d" % i)


def _gadget_helper_inline(prog):
    """a gadget-module function this rule file does not name is a helper extracted from one that it does: expand it in place"""
    from . import e2
    named = e2.module_anchors(__file__)

    def inline(path):
        return path.startswith(COMMON + "::gadgets::") and "{closure" not in path and path.rsplit("::", 1)[-1] not in named
    return inline


def analyse(ck):
    ob = Ob()
    prog = ck.prog
    ev = T.Evaluator(prog, inline=_gadget_helper_inline(prog), names=False)

    # ------------------------------------------------------------------ xor
    fr, b = gframe(ck, "xor", ev)
    loc = "%s:%s" % (b.file, b.line)
    rt = P.norm(fr.return_term())
    a_t, b_t = ("fld", param(b, 2), "target"), ("fld", param(b, 3), "target")
    good = False
    nm = P.call_name(rt)
    if nm and nm.endswith("BoolTarget::new_unsafe"):
        x = rt[4][0]
        m = P.match(Cb("cb.sub", Cb("cb.add", V("a"), V("b")), Cb("cb.mul_const", K(2), Cb("cb.mul", V("a2"), V("b2")))), x)
        # V() patterns go through norm() which strips `.target`; compare against the stripped params
        good = m is not None and {m["a"], m["b"]} == {param(b, 2), param(b, 3)} and {m["a2"], m["b2"]} == {param(b, 2), param(b, 3)}
    tys = [b.local_ty(2), b.local_ty(3)]
    ob.add({"C10", "C30"}, good and all("BoolTarget" in t for t in tys), "TERM", "gadget/xor",
           "xor(a, b) = new_unsafe(a + b - 2ab) over two BoolTarget operands (boolean-valued by construction)", loc, T.show(rt)[:300])

    # ------------------------------------------------------------------ u32_lt
    fr, b = gframe(ck, "u32_lt", ev)
    loc = "%s:%s" % (b.file, b.line)
    rt = P.norm(fr.return_term())
    x, y = param(b, 2), param(b, 3)
    good = False
    m = P.match(Cb("cb.not", V("ge")), rt)
    width = None
    if m:
        ge = P.norm(m["ge"])
        if P.call_name(ge) and P.call_name(ge).endswith("BoolTarget::new_unsafe"):
            bit = P.norm(ge[4][0])
            if isinstance(bit, tuple) and bit[0] == "fld" and bit[2] == "1":
                sp = P.cb_args(bit[1], "cb.split_low_high")
                if sp is not None:
                    t, nlo, ntot = sp
                    mm = P.match(Cb("cb.sub", Cb("cb.add", V("x"), K(TWO32)), V("y")), t)
                    good = mm is not None and P.norm(mm["x"]) == x and P.norm(mm["y"]) == y and P.const_of(nlo) == 32 and P.const_of(ntot) == 33
                    width = (P.const_of(nlo), P.const_of(ntot))
    ob.add({"C10", "C30", "C31"}, good, "TERM", "gadget/u32_lt",
           "u32_lt(x, y) = not(bit 32 of (x + 2^32 - y)) with (low, bit) = split_low_high(t, 32, 33): the flag is the range-checked 1-bit high part", loc, T.show(rt)[:400])
    ob.add({"C10", "C30", "C31"}, (1 << 33) < circ.GOLDILOCKS, "IVL", "gadget/u32_lt/no-wrap", "for x, y < 2^32: 0 < x + 2^32 - y < 2^33 < p, so the 33-bit split is the integer value (no field wrap)", loc)

    # ------------------------------------------------------------------ split_canonical_u32_halves
    fr, b = gframe(ck, "split_canonical_u32_halves", ev)
    loc = "%s:%s" % (b.file, b.line)
    rt = P.norm(fr.return_term())
    effs = fr.effects()
    sp = [e for e in effs if e.name == "cb.split_low_high"]
    good = len(sp) == 1 and P.norm(sp[0].args[1]) == param(b, 2) and P.const_of(sp[0].args[2]) == 32 and P.const_of(sp[0].args[3]) == 64
    res = P.norm(sp[0].result) if sp else None
    lo, hi = ("fld", res, "0"), ("fld", res, "1")
    ob.add({"C10", "C30", "C31"}, good and rt == ("tuple", (lo, hi)), "TERM", "gadget/canonical-split/split", "(lo, hi) = split_low_high(x, 32, 64), returned as (lo, hi)", loc, T.show(rt)[:300])
    cons = [e for e in effs if e.name in circ.CONSTRAINT_NAMES]
    okc = False
    if len(cons) == 1 and cons[0].name == "cb.connect":
        ops = [P.norm(o) for o in circ.cb_operands(cons[0])]
        for p_, q_ in ((ops[0], ops[1]), (ops[1], ops[0])):
            if P.const_of(q_) == 0:
                lv = [P.norm(z) for z in _and_leaves(p_)]
                if len(lv) == 2:
                    a1 = [P.match(Cb("cb.is_equal", V("h"), K(TWO32 - 1)), z) for z in lv]
                    a2 = [P.match(Cb("cb.not", Cb("cb.is_equal", V("l"), K(0))), z) for z in lv]
                    h = [m["h"] for m in a1 if m]
                    l = [m["l"] for m in a2 if m]
                    okc = len(h) == 1 and len(l) == 1 and P.norm(h[0]) == hi and P.norm(l[0]) == lo
        okc = okc and not circ.uncond_problems(cons[0])
    ob.add({"C10", "C30", "C31"}, okc, "TERM", "gadget/canonical-split/wraparound",
           "connect(and(hi == 2^32 - 1, lo != 0), zero): the p-alias decomposition (hi = 2^32-1, lo >= 1) is excluded, so the split is the canonical value", loc,
           [T.show(o, maxdepth=6)[:300] for e in cons for o in circ.cb_operands(e)])

    # ------------------------------------------------------------------ who may call the decompositions / unsafe booleans
    inl = _gadget_helper_inline(prog)

    def callers_of(rx):
        """functions that (logically) call a primitive: a private gadget-module helper this rule file does not name is part of the
        function(s) it was extracted from, so its own callers stand for it"""
        from . import e2
        out, seen = set(), set()
        work = [e2.root_of(prog, bb) for bb, _, t in prog.call_sites(rx)]
        while work:
            b_ = work.pop()
            if b_ is None or b_.id in seen:
                continue
            seen.add(b_.id)
            if inl(b_.path) and (b_.d.get("vis") or "pub") != "pub":
                ups = [e2.root_of(prog, cb) for cb, _, _ in prog.callers().get(b_.id, [])]
                if ups:
                    work += ups
                    continue
            out.add(b_.path)
        return sorted(out)

    slh = callers_of(r"CircuitBuilder<F, D>>?::split_low_high$|::split_low_high$")
    ob.add({"C10"}, slh == [COMMON + "::gadgets::split_canonical_u32_halves", COMMON + "::gadgets::u32_lt"], "WMC", "gadget/split_low_high-callers",
           "split_low_high is called only by u32_lt and split_canonical_u32_halves", None, slh)
    sle = callers_of(r"::split_le$")
    ob.add({"C10", "C30"}, sle == [COMMON + "::gadgets::is_const_less_than"], "WMC", "gadget/split_le-callers", "split_le is called only by is_const_less_than", None, sle)
    nu = callers_of(r"BoolTarget::new_unsafe$")
    ob.add({"C10"}, nu == [COMMON + "::gadgets::u32_lt", COMMON + "::gadgets::xor"], "WMC", "gadget/new_unsafe-callers", "BoolTarget::new_unsafe is used only in xor and u32_lt (both justified above)", None, nu)
    av = [(bb.path, t.get("name")) for bb, _, t in prog.call_sites(r"::add_virtual_\w+$") if bb.crate == COMMON]
    ob.add({"C10"}, not av, "FREE", "gadget/no-virtual-targets", "no gadget of the common crate creates a virtual (hint) target", None, av)

    # ------------------------------------------------------------------ bytes_digest_eq, limb accessors
    fr, b = gframe(ck, "bytes_digest_eq", ev)
    from . import lc
    rt = P.norm(lc.canon(fr.return_term()))
    # conjunction leaves: an and-tree (any association, `_true` is the unit) and/or a fold {true, and(acc, leaf(k))} over k in 0..4
    lv = []
    for z in _and_leaves(rt):
        z = P.norm(z)
        if P.const_of(z) == 1:
            continue
        if isinstance(z, tuple) and z and z[0] == "phi" and len(z[2]) == 2 and any(P.const_of(m_) == 1 for m_ in z[2]):
            step = [m_ for m_ in z[2] if P.const_of(m_) != 1][0]
            sl = [P.norm(x) for x in _and_leaves(step)]
            rec = [x for x in sl if isinstance(x, tuple) and x and x[0] in ("rec", "phi")]
            if len(rec) == 1:
                lv += [("forall", x) for x in sl if x is not rec[0]]
                continue
        lv.append(z)
    pairs = set()
    okb = bool(lv)
    for z in lv:
        quant = isinstance(z, tuple) and z and z[0] == "forall"
        a = P.cb_args(z[1] if quant else z, "cb.is_equal")
        if a is None:
            okb = False
            continue
        u, w = P.norm(a[0]), P.norm(a[1])
        if u[0] == "idx" and w[0] == "idx" and {u[1], w[1]} == {param(b, 2), param(b, 3)} and u[2] == w[2] and (T.is_const(u[2]) and not quant or quant and lc.is_var(u[2], 0, 4)):
            pairs |= {0, 1, 2, 3} if quant else {u[2][1]}
        else:
            okb = False
    okb = okb and (len(lv) == 4 or any(isinstance(z, tuple) and z[0] == "forall" for z in lv) and len(lv) == 1)
    ob.add({"C10", "C07", "C13"}, okb and pairs == {0, 1, 2, 3}, "TERM", "gadget/bytes_digest_eq", "bytes_digest_eq(a, c) = AND over k in 0..4 of is_equal(a[k], c[k]) (matching limb indices, no free wire)",
           "%s:%s" % (b.file, b.line), T.show(rt)[:300])
    for nm_, w in (("limbs4_at_offset", 4), ("limb1_at_offset", 1)):
        fr, b = gframe(ck, nm_, ev)
        rt = P.norm(fr.return_term())
        pis, index = param(b, 1), param(b, 2)
        base = ("bin", "Add", ("bin", "Mul", index, ("cparam", "LEAF_PI_LEN", 0)), ("cparam", "KEY_OFFSET", 1))
        if w == 1:
            okl = rt == ("idx", pis, base)
        else:
            okl = rt == ("array", tuple([("idx", pis, base)] + [("idx", pis, ("bin", "Add", base, ("c", k, None))) for k in (1, 2, 3)]))
        ob.add({"C06", "C07", "C10"}, okl, "TERM", "gadget/" + nm_, "%s::<L, K>(pis, index) reads pis[index * L + K (+ k)]" % nm_, "%s:%s" % (b.file, b.line), T.show(rt)[:300])

    # ------------------------------------------------------------------ is_const_less_than
    fr, b = gframe(ck, "is_const_less_than", ev)
    loc = "%s:%s" % (b.file, b.line)
    effs = fr.effects()
    left, right, n_log = param(b, 2), param(b, 3), param(b, 4)
    acw = [e for e in effs if e.name.endswith("gadgets::assert_comparison_width")]
    ok0 = len(acw) == 1 and acw[0].bb == 0 and [P.norm(x) for x in acw[0].args] == [left, n_log]
    ob.add({"C10", "C30"}, ok0, "DOM", "gadget/lt/width-check-first", "assert_comparison_width(left, n_log) is the first thing is_const_less_than does (dominates every path)", acw[0].loc if acw else loc)
    sle_e = [e for e in effs if e.name == "cb.split_le"]
    okd = len(sle_e) == 1 and [P.norm(x) for x in sle_e[0].args[1:]] == [right, n_log]
    if okd:
        cs = [c for c in sle_e[0].ctrl if c[0] == "case"]
        okd = len(cs) == 1 and cs[0][1] == ("bin", "Eq", n_log, ("c", 64, None)) and tuple(cs[0][2]) == ("0",)
        if not okd and len(cs) == 1 and P.norm(cs[0][1]) == n_log and tuple(cs[0][2]) == ("else",) and len(cs[0]) >= 5:
            # `match n_log { 64 => canonical path, narrow => bit path }`: the otherwise edge of a switch whose only arm is 64
            sb = ck.prog.bodies.get(cs[0][4])
            sb = fr.body if (sb is None or fr.body.id == cs[0][4]) else sb
            tt = sb.blocks[cs[0][3]]["t"] if cs[0][3] < len(sb.blocks) else {}
            okd = tt.get("k") == "switch" and [a_[0] for a_ in tt.get("arms", [])] == ["64"]
    ob.add({"C10", "C30"}, okd, "DOM", "gadget/lt/split_le-only-below-64", "split_le(right, n_log) is reachable only on the n_log != 64 edge (a 64-bit bit split has the p-alias)", sle_e[0].loc if sle_e else loc,
           [circ.describe_ctrl(c) for e in sle_e for c in e.ctrl])
    from . import lc
    lnest = lc.frame_nest(fr)
    # loop-canonical: `for i in (0..n_log).rev() { left_bits[i]; right_bits[i] }` and the zip(..).rev() form are the same term
    rt = P.norm(lnest.canon(P.norm(fr.return_term())))
    ok64 = False
    narrow = None
    if isinstance(rt, tuple) and rt[0] == "phi" and len(rt[2]) == 2:
        for mbr in rt[2]:
            mbr = P.norm(mbr)
            if P.call_name(mbr) and P.call_name(mbr).endswith("gadgets::is_const_less_than_canonical_u64"):
                ok64 = [P.norm(x) for x in mbr[4][1:]] == [left, right]
            else:
                narrow = mbr
    ob.add({"C10", "C30"}, ok64, "TERM", "gadget/lt/dispatch-64", "width 64 dispatches to the canonical half-split comparison with (left, right)", loc, T.show(rt, maxdepth=3)[:300])
    # narrow path recurrence
    okn = False
    det = T.show(narrow, maxdepth=8)[:700] if narrow is not None else None
    if isinstance(narrow, tuple) and narrow[0] == "phi" and len(narrow[2]) == 2:
        init = [x for x in narrow[2] if P.const_of(x) == 0 and P.call_name(x) == "cb._false"]
        step = [x for x in narrow[2] if x not in init]
        if len(init) == 1 and len(step) == 1:
            o = P.cb_args(step[0], "cb.or")
            if o is not None:
                o = [P.norm(z) for z in o]
                recs = [z for z in o if isinstance(z, tuple) and z[0] in ("rec", "phi")]
                oth = [z for z in o if z not in recs]
                if len(recs) == 1 and len(oth) == 1:
                    lv = [P.norm(z) for z in _and_leaves(oth[0])]
                    # leaves: not(a_i), b_i, eq
                    na = [P.match(Cb("cb.not", V("a")), z) for z in lv]
                    a_i = [m["a"] for m in na if m]
                    eqs = [z for z in lv if isinstance(z, tuple) and z[0] == "phi"]
                    bs = [z for z in lv if isinstance(z, tuple) and z[0] == "idx"]
                    if len(lv) == 3 and len(a_i) == 1 and len(eqs) == 1 and len(bs) == 1:
                        a_i = P.norm(a_i[0])
                        b_i = bs[0]
                        eq = eqs[0]
                        i = b_i[2]
                        # every bit position 0..n_log, visited from the most significant bit down (the prefix-equality flag `eq`
                        # must cover the HIGHER bits when bit i is examined)
                        rng_ok = lc.is_var(i, 0, n_log) and lc.reversed_loop(lnest, i) is True
                        b_ok = P.cb_args(b_i[1], "cb.split_le") is not None and [P.norm(z) for z in P.cb_args(b_i[1], "cb.split_le")] == [right, n_log]
                        ca = P.cb_args(a_i, "cb.constant_bool")
                        a_ok = False
                        if ca is not None:
                            bit = P.norm(ca[0])
                            want = ("bin", "Ne", ("bin", "BitAnd", ("bin", "Shr", left, i), ("c", 1, None)), ("c", 0, None))
                            # left_bits[i] with left_bits = map(0..n_log, |k| ((left >> k) & 1) != 0)
                            a_ok = bit == want or (isinstance(bit, tuple) and bit[0] == "idx" and bit[2] == i)
                            if not a_ok and isinstance(bit, tuple):
                                a_ok = T.show(bit) == T.show(want)
                        # eq recurrence
                        e_ok = False
                        if len(eq[2]) == 2:
                            ei = [z for z in eq[2] if P.call_name(z) == "cb._true"]
                            es = [z for z in eq[2] if z not in ei]
                            if len(ei) == 1 and len(es) == 1:
                                ea = P.cb_args(es[0], "cb.and")
                                if ea is not None:
                                    ea = [P.norm(z) for z in ea]
                                    er = [z for z in ea if isinstance(z, tuple) and z[0] in ("rec", "phi")]
                                    eo = [z for z in ea if z not in er]
                                    if len(er) == 1 and len(eo) == 1:
                                        mx = P.match(Cb("cb.not", V("x")), eo[0])
                                        if mx:
                                            xx = P.norm(mx["x"])
                                            e_ok = P.call_name(xx) is not None and P.call_name(xx).endswith("gadgets::xor") and {P.norm(z) for z in xx[4][1:]} == {a_i, b_i}
                        okn = rng_ok and b_ok and a_ok and e_ok
                        det = {"range": rng_ok, "b_i": b_ok, "a_i": a_ok, "eq": e_ok, "term": det}
    ob.add({"C30"}, okn, "TERM", "gadget/lt/bit-recurrence",
           "lt = {false, or(lt, and(and(not a_i, b_i), eq))}, eq = {true, and(eq, not(xor(a_i, b_i)))}, a_i = bit i of the constant, b_i = split_le(right, n_log)[i], i over 0..n_log (msb first)", loc, det)
    # ordering: this_lt reads eq BEFORE eq is updated in the same iteration
    # the ripple step lives in is_const_less_than itself or in a private gadget helper extracted from it
    inl_ = _gadget_helper_inline(prog)
    cands = [b] + [prog.bodies.get(t_.get("rid") or t_.get("fid") or "") for _, t_ in b.calls()]
    cands = [c_ for c_ in cands if c_ is not None and (c_ is b or (inl_(c_.path) and (c_.d.get("vis") or "pub") != "pub"))]
    body = b
    for c_ in cands:
        if len([1 for _, t_ in c_.calls() if t_.get("name") == "and" and t_.get("impl_adt") == T.CB]) == 3:
            body = c_
    ands = [(bb, t) for bb, t in body.calls() if t.get("name") == "and" and t.get("impl_adt") == T.CB]
    ors = [(bb, t) for bb, t in body.calls() if t.get("name") == "or" and t.get("impl_adt") == T.CB]
    okord = False

    def carried(local):
        """which accumulator a call result is stored into, by what that variable starts as: "eq" if the variable the value is moved
        into is also assigned the constant `_true()`, "lt" if `_false()` (independent of the variables' names)"""
        moves = {}
        for blk in body.blocks:
            for st in blk["s"]:
                if "d" in st and not st["d"]["p"] and (st.get("r") or {}).get("k") == "use":
                    pl = st["r"]["a"].get("m") or st["r"]["a"].get("c")
                    if pl and not pl["p"]:
                        moves.setdefault(pl["l"], set()).add(st["d"]["l"])
        fwd, work = {local}, [local]
        while work:
            x = work.pop()
            for y in moves.get(x, ()):
                if y not in fwd:
                    fwd.add(y)
                    work.append(y)
        inits = set()
        for bb_, t_ in body.calls():
            if t_.get("name") in ("_true", "_false") and t_.get("dest") and not t_["dest"]["p"]:
                d0, seen_ = t_["dest"]["l"], set()
                st_ = [d0]
                while st_:
                    x = st_.pop()
                    if x in seen_:
                        continue
                    seen_.add(x)
                    st_ += list(moves.get(x, ()))
                if seen_ & fwd:
                    inits.add("eq" if t_["name"] == "_true" else "lt")
        return inits.pop() if len(inits) == 1 else None

    if len(ands) == 3 and len(ors) == 1:
        # the eq update is the `and` whose result becomes the accumulator that starts as `_true()`
        upd = [bb for bb, t in ands if carried(t["dest"]["l"]) == "eq"]
        others = [bb for bb, t in ands if carried(t["dest"]["l"]) != "eq"]
        okord = len(upd) == 1 and len(others) == 2 and all(cfg.dominates(body, o, upd[0]) and o != upd[0] for o in others) and cfg.dominates(body, ors[0][0], upd[0]) \
            and carried(ors[0][1]["dest"]["l"]) == "lt"
        # msb-first iteration
    revs = [t for bb, t in body.calls() if t.get("name") == "rev"]
    ob.add({"C30"}, okord and len(revs) == 1, "ORDER", "gadget/lt/eq-updated-last", "within one bit iteration `lt` is updated from the eq of the higher bits before `eq` absorbs the current bit; bits are visited msb first (rev)", loc,
           {"and_sites": len(ands), "or_sites": len(ors), "rev": len(revs)})

    # canonical 64-bit path
    fr, b = gframe(ck, "is_const_less_than_canonical_u64", ev)
    loc = "%s:%s" % (b.file, b.line)
    rt = P.norm(fr.return_term())
    left, right = param(b, 2), param(b, 3)
    ok = False
    o = P.cb_args(rt, "cb.or")
    if o is not None:
        o = [P.norm(z) for z in o]
        sp = None
        for z in T.walk(rt):
            if P.call_name(z) and P.call_name(z).endswith("gadgets::split_canonical_u32_halves"):
                sp = z
        if sp is not None and [P.norm(z) for z in sp[4][1:]] == [right]:
            rl, rh = ("fld", sp, "0"), ("fld", sp, "1")
            lh = lambda t_: P.cb_args(t_, "cb.constant") is not None and _inner_const(t_) == ("bin", "Shr", left, ("c", 32, None))
            ll = lambda t_: P.cb_args(t_, "cb.constant") is not None and _inner_const(t_) == ("bin", "BitAnd", left, ("c", 0xFFFFFFFF, None))
            u = [z for z in o if P.call_name(z) and P.call_name(z).endswith("gadgets::u32_lt")]
            an = [z for z in o if P.cb_args(z, "cb.and") is not None]
            if len(u) == 1 and len(an) == 1:
                ua = [P.norm(z) for z in u[0][4][1:]]
                hi_ok = lh(ua[0]) and ua[1] == rh
                aa = [P.norm(z) for z in P.cb_args(an[0], "cb.and")]
                eq = [z for z in aa if P.cb_args(z, "cb.is_equal") is not None]
                lo = [z for z in aa if P.call_name(z) and P.call_name(z).endswith("gadgets::u32_lt")]
                if len(eq) == 1 and len(lo) == 1:
                    ea = [P.norm(z) for z in P.cb_args(eq[0], "cb.is_equal")]
                    la = [P.norm(z) for z in lo[0][4][1:]]
                    ok = hi_ok and ((lh(ea[0]) and ea[1] == rh) or (lh(ea[1]) and ea[0] == rh)) and ll(la[0]) and la[1] == rl
    ob.add({"C10", "C30"}, ok, "TERM", "gadget/lt/canonical-64",
           "64-bit path: or(u32_lt(left_hi, right_hi), and(left_hi == right_hi, u32_lt(left_lo, right_lo))) with (right_lo, right_hi) = split_canonical_u32_halves(right), left split at bit 32", loc, T.show(rt, maxdepth=6)[:500])

    # assert_comparison_width + enforce
    fr, b = gframe(ck, "assert_comparison_width", ev)
    loc = "%s:%s" % (b.file, b.line)
    gt = guards.guard_table(fr)
    left, n_log = param(b, 1), param(b, 2)
    isn = lambda t_: P.norm(t_) == n_log
    g1 = guards.rejects(gt, "Le", isn, lambda t_: P.const_of(t_) == 0) or guards.rejects(gt, "Eq", isn, lambda t_: P.const_of(t_) == 0)
    g2 = guards.rejects(gt, "Gt", isn, lambda t_: P.const_of(t_) == 64)
    g3 = guards.rejects(gt, "Ge", lambda t_: P.norm(t_) == left, lambda t_: any(s == ("bin", "Shl", ("c", 1, None), n_log) for s in T.walk(t_)))
    ob.add({"C30"}, bool(g1) and bool(g2) and bool(g3) and all("panic" in g["outcome"] for g in g1 + g2 + g3), "CMP", "gadget/lt/width-guards",
           "assert_comparison_width rejects n_log == 0, n_log > 64 and left >= 2^n_log", loc, [(g["loc"], T.show(g["cond"])[:100], g["fail_when"]) for g in gt])
    fr, b = gframe(ck, "enforce_target_less_than_const", ev)
    loc = "%s:%s" % (b.file, b.line)
    effs = fr.effects()
    target, bound, n_log = param(b, 2), param(b, 3), param(b, 4)
    cons = [e for e in effs if e.name in circ.CONSTRAINT_NAMES]
    ok = False
    if len(cons) == 1 and cons[0].name == "cb.connect":
        ops = [P.norm(z) for z in circ.cb_operands(cons[0])]
        for p_, q_ in ((ops[0], ops[1]), (ops[1], ops[0])):
            if P.const_of(q_) == 0 and P.call_name(p_) and P.call_name(p_).endswith("gadgets::is_const_less_than"):
                ok = [P.norm(z) for z in p_[4][1:]] == [("bin", "Sub", bound, ("c", 1, None)), target, n_log] and not circ.uncond_problems(cons[0])
    ob.add({"C30", "C03"}, ok, "TERM", "gadget/lt/enforce", "enforce_target_less_than_const = connect(is_const_less_than(bound - 1, target, n_log), zero): accepts exactly target <= bound - 1", loc,
           [T.show(o, maxdepth=5)[:200] for e in cons for o in circ.cb_operands(e)])

    # ------------------------------------------------------------------ halves8_lt + sort_digests4 (C31)
    from . import lc
    fr, b = gframe(ck, "halves8_lt", ev)
    loc = "%s:%s" % (b.file, b.line)
    lc.register_param_lens(b)
    hnest = lc.frame_nest(fr)
    # loop-canonical form: `for i in (0..8).rev() { lhs[i], rhs[i] }` and `for (l, r) in lhs.iter().zip(rhs).rev()` are the same term
    rt = P.norm(hnest.canon(P.norm(fr.return_term())))
    lhs, rhs = param(b, 2), param(b, 3)
    ok = False
    desc = False
    if isinstance(rt, tuple) and rt[0] == "phi" and len(rt[2]) == 2:
        init = [z for z in rt[2] if P.call_name(z) == "cb._false"]
        step = [z for z in rt[2] if z not in init]
        if len(init) == 1 and len(step) == 1:
            o = P.cb_args(step[0], "cb.or")
            if o is not None:
                o = [P.norm(z) for z in o]
                u = [z for z in o if P.call_name(z) and P.call_name(z).endswith("gadgets::u32_lt")]
                an = [z for z in o if P.cb_args(z, "cb.and") is not None]
                if len(u) == 1 and len(an) == 1:
                    ua = [P.norm(z) for z in u[0][4][1:]]
                    i = ua[0][2] if (isinstance(ua[0], tuple) and ua[0][0] == "idx") else None
                    aa = [P.norm(z) for z in P.cb_args(an[0], "cb.and")]
                    eq = [z for z in aa if P.cb_args(z, "cb.is_equal") is not None]
                    rc = [z for z in aa if isinstance(z, tuple) and z[0] in ("rec", "phi")]
                    ok = (ua == [("idx", lhs, i), ("idx", rhs, i)] and lc.is_var(i, 0, 8) and len(eq) == 1 and len(rc) == 1
                          and {P.norm(z) for z in P.cb_args(eq[0], "cb.is_equal")} == {("idx", lhs, i), ("idx", rhs, i)})
                    desc = ok and lc.reversed_loop(hnest, i) is True
    ob.add({"C31", "C09"}, ok and desc, "TERM", "gadget/sort/halves8_lt",
           "halves8_lt: lt = {false, or(u32_lt(l_i, r_i), and(l_i == r_i, lt))} folded from the least significant half (i over (0..8).rev()): lexicographic with half 0 most significant", loc, T.show(rt, maxdepth=6)[:500])

    fr, b = gframe(ck, "sort_digests4", ev)
    loc = "%s:%s" % (b.file, b.line)
    effs = fr.effects()
    values = param(b, 2)
    rt = P.norm(fr.return_term())
    # early return
    early = isinstance(rt, tuple) and rt[0] == "phi" and values in [P.norm(z) for z in rt[2]]
    gl = [c for e in effs for c in e.ctrl if c[0] == "case" and c[1] == ("bin", "Le", ("len", values), ("c", 1, None))]
    ob.add({"C31"}, early and bool(gl), "TERM", "gadget/sort/early-return", "lists of length <= 1 are returned unchanged", loc)
    # ingress
    maps = [e for e in effs if e.raw.get("name") == "map"]
    ing = None
    for e in maps:
        if P.norm(e.args[0]) == values and isinstance(e.args[1], tuple) and e.args[1][0] == "closure":
            ing = e
    ok_in = False
    det = None
    Vt = None
    if ing is not None:
        Vt = P.norm(ing.result)
        d = ("sym", "D")
        h = P.norm(fr.closure_ret(ing.args[1], [d], site_hint=ing.site))
        det = T.show(h, maxdepth=7)[:600]
        if isinstance(h, tuple) and h[0] == "upd" and len(h[3]) == 2:
            w = {}
            for proj, val in h[3]:
                if len(proj) == 1 and proj[0][0] == "i":
                    w[proj[0][1]] = P.norm(val)
            j = None
            for k in w:
                if isinstance(k, tuple) and k[0] == "bin" and k[1] == "Mul":
                    j = k[3] if P.const_of(k[2]) == 2 else (k[2] if P.const_of(k[3]) == 2 else None)
            if j is not None:
                # the limb position j: `for j in 0..4` (limb = d[j]) or `for (j, limb) in d.iter().enumerate()` (d is a [Target; 4])
                rj = circ.range_expr(j[1]) if isinstance(j, tuple) and j[0] == "elem" else None
                by_range = bool(rj) and P.const_of(rj[0]) == 0 and P.const_of(rj[1]) == 4
                by_enum = isinstance(j, tuple) and j[0] == "index" and P.norm(j[1]) == d and re.search(r"Vec<\[[\w:]*Target; 4\]>", b.local_ty(2)) is not None
                limb = ("idx", d, j) if by_range else (("elem", d) if by_enum else None)
                k_hi = [k for k in w if isinstance(k, tuple) and k[1] == "Mul"]
                k_lo = [k for k in w if isinstance(k, tuple) and k[1] == "Add"]
                if len(k_hi) == 1 and len(k_lo) == 1 and k_lo[0] == ("bin", "Add", k_hi[0], ("c", 1, None)) and limb is not None:
                    vh, vl = w[k_hi[0]], w[k_lo[0]]
                    if vh[0] == "fld" and vl[0] == "fld" and vh[1] == vl[1] and vh[2] == "1" and vl[2] == "0":
                        spc = vh[1]
                        ok_in = P.call_name(spc) is not None and P.call_name(spc).endswith("gadgets::split_canonical_u32_halves") and P.norm(spc[4][1]) == limb
                        # both writes happen on every iteration of the limb loop (no guard besides the loop itself)
                        wc = T.upd_write_ctrl(ev, h)
                        ok_in = ok_in and len(wc) == 2 and all(c and all(g[0] == "loop" and tuple(g[2]) == ("1",) for g in c) for c in wc)
    ob.add({"C31", "C10", "C09"}, ok_in, "TERM", "gadget/sort/ingress",
           "ingress: every limb j in 0..4 of every digest goes through split_canonical_u32_halves; halves[2j] = hi, halves[2j+1] = lo (most significant half first)", ing.loc if ing else loc, det)
    # compare-and-swap stores
    stores = [e for e in effs if e.name == "<store>"]
    ok_cas = False
    det = [(T.show(e.args[0], maxdepth=2)[:80], T.show(e.args[1], maxdepth=3)[:200], str(e.args[2])[:80]) for e in stores]
    idx_terms = None
    def half_write(e):
        """(nest, j, value) of one compare-and-swap store: either a per-half store `v[k][j] = value` inside the j loop, or a whole-digest
        store `v[k] = a` of an array a whose only writes are `a[j] = value` in a j loop under no other guard (a helper returning the
        swapped pair); the nest is the one that encloses the half write"""
        proj, val = e.args[2], P.norm(e.args[1])
        if len(proj) == 1 and proj[0][0] == "i":
            return lc.Nest(e), proj[0][1], val
        if len(proj) == 0 and isinstance(val, tuple) and val and val[0] == "upd" and len(val[3]) == 1 and lc.known_len(val) == 8:
            (wproj, wval), = val[3]
            ctrls = T.upd_write_ctrl(ev, val)
            if len(wproj) == 1 and wproj[0][0] == "i" and len(ctrls) == 1 and ctrls[0] and all(c[0] == "loop" and tuple(c[2]) == ("1",) for c in ctrls[0]):
                return lc.Nest(loops=[c[1] for c in ctrls[0]]), wproj[0][1], P.norm(wval)
        return None

    if len(stores) == 2 and Vt is not None:
        hw = [half_write(e) for e in stores]
        sels = [P.match(Cb("cb.select", V("f"), V("x"), V("y")), h_[2]) if h_ else None for h_ in hw]
        if all(sels):
            f0, f1 = P.norm(sels[0]["f"]), P.norm(sels[1]["f"])
            if f0 == f1 and P.call_name(f0) and P.call_name(f0).endswith("gadgets::halves8_lt"):
                L, R = P.norm(f0[4][1]), P.norm(f0[4][2])
                jv = [P.norm(h_[0].canon(h_[1])) for h_ in hw]
                if jv[0] == jv[1] and lc.is_var(jv[0], 0, 8) and all(h_[0].has_var(jv[0]) for h_ in hw) and L != R:
                    t0, t1 = P.norm(stores[0].args[0]), P.norm(stores[1].args[0])
                    # a pointer written through also carries its own write as an update: the pointee is the base
                    t0 = P.norm(t0[2]) if (isinstance(t0, tuple) and t0[0] == "upd") else t0
                    t1 = P.norm(t1[2]) if (isinstance(t1, tuple) and t1[0] == "upd") else t1

                    def at(k, base, ix):
                        # element `ix` of a digest: reading an array that was built by indexed writes yields the alternatives of those writes
                        return P.norm(hw[k][0].canon(fr.index(base, ix)))

                    def side(k, z):
                        c = P.norm(hw[k][0].canon(sels[k][z]))
                        if isinstance(c, tuple) and c and c[0] == "idx":
                            c = at(k, c[1], c[2])
                        xl, xr = at(k, L, jv[0]), at(k, R, jv[0])
                        return "?" if xl == xr else ("L" if c == xl else ("R" if c == xr else "?"))
                    a = (side(0, "x"), side(0, "y"), side(1, "x"), side(1, "y"))
                    ok_cas = (t0 == L and t1 == R and a == ("L", "R", "R", "L")) or (t0 == R and t1 == L and a == ("R", "L", "L", "R"))
                    # L = v[i], R = v[i+1]
                    idxs = [e for e in effs if e.raw.get("name") == "index_mut" and P.norm(e.args[0]) == Vt]
                    idx_terms = sorted(set(T.show(P.norm(e.args[1])) for e in idxs))
                    im = [P.norm(e.args[1]) for e in idxs]
                    if ok_cas and im:
                        i0 = [x for x in im if not (isinstance(x, tuple) and x[0] == "bin")]
                        i1 = [x for x in im if isinstance(x, tuple) and x[0] == "bin"]
                        ok_cas = bool(i0) and all(x == ("bin", "Add", i0[0], ("c", 1, None)) for x in i1) and bool(i1)
                        ok_cas = ok_cas and L == P.norm(fr.index(Vt, i0[0])) and R == P.norm(fr.index(Vt, ("bin", "Add", i0[0], ("c", 1, None))))
    ob.add({"C31", "C10", "C09"}, ok_cas, "TERM", "gadget/sort/compare-and-swap",
           "v[i][j] = select(f, v[i][j], v[i+1][j]) and v[i+1][j] = select(f, v[i+1][j], v[i][j]) for all 8 halves with ONE flag f = halves8_lt(v[i], v[i+1]): the output is a permutation by construction", stores[0].loc if stores else loc, det)
    other_mut = [e for e in effs if e.args and P.norm(e.args[0]) == Vt and e.raw.get("name") in T.MUTATORS and e.raw.get("name") not in ("index_mut",) and not (e.path or "").startswith("core::iter")]
    ob.add({"C31", "C09"}, not other_mut and len(stores) == 2, "WMW", "gadget/sort/only-cas-writes", "the halves vector is written only by the two compare-and-swap stores", loc, [e.name for e in other_mut])
    # network shape
    net_ok = False
    if stores:
        e = stores[0]
        # the schedule loops (rounds, comparator position); the per-half loop 0..8, if the stores sit in one, is not part of the schedule
        loops = [l for l in circ.loops_of(e) if lc.Desc(l).domain() != (0, 8)]
        cases = [c for c in e.ctrl if c[0] == "case" and c[1] != ("bin", "Le", ("len", values), ("c", 1, None))]
        if len(loops) == 1 and len(cases) == 1:
            r0 = circ.range_expr(loops[0])
            nlen = ("len", values)
            if r0 and P.const_of(r0[0]) == 0 and P.norm(r0[1]) == nlen:
                rnd = ("elem", loops[0])
                c = cases[0]
                cond = c[1]
                if isinstance(cond, tuple) and cond[0] == "bin" and cond[1] == "Lt" and cond[3] == nlen and tuple(c[2]) == ("else",):
                    ip1 = cond[2]
                    if isinstance(ip1, tuple) and ip1[0] == "bin" and ip1[1] == "Add" and P.const_of(ip1[3]) == 1:
                        iv = ip1[2]
                        if isinstance(iv, tuple) and iv[0] == "phi" and len(iv[2]) == 2:
                            ini = [z for z in iv[2] if z == ("bin", "Rem", rnd, ("c", 2, None))]
                            stp = [z for z in iv[2] if isinstance(z, tuple) and z[0] == "bin" and z[1] == "Add" and P.const_of(z[3]) == 2 and isinstance(z[2], tuple) and z[2][0] in ("rec", "phi")]
                            net_ok = len(ini) == 1 and len(stp) == 1
        elif len(loops) == 2 and not cases:
            # the same schedule as a counted loop: for i in (round % 2 .. n - 1).step_by(2)   (i < n - 1  <=>  i + 1 < n; n >= 2 here)
            r0 = circ.range_expr(loops[0])
            nlen = ("len", values)
            sb = P.norm(loops[1])
            if r0 and P.const_of(r0[0]) == 0 and P.norm(r0[1]) == nlen and isinstance(sb, tuple) and sb[0] == "step_by" and P.const_of(sb[2]) == 2:
                r1 = circ.range_expr(sb[1])
                rnd = ("elem", loops[0])
                net_ok = bool(r1) and P.norm(r1[0]) == ("bin", "Rem", rnd, ("c", 2, None)) and P.norm(r1[1]) == ("bin", "Sub", nlen, ("c", 1, None))
    ob.add({"C31", "C09"}, net_ok, "TERM", "gadget/sort/network", "odd-even transposition network: rounds 0..n, i from round % 2 in steps of 2 while i + 1 < n (n rounds sort n elements)", stores[0].loc if stores else loc,
           [circ.describe_ctrl(c) for c in (stores[0].ctrl if stores else [])])
    # egress
    eg = [e for e in effs if e.name == "cb.mul_const_add"]
    ok_eg = False
    if len(eg) == 1:
        a = [P.norm(z) for z in eg[0].args[1:]]
        J = None
        def first_idx(t_):
            for s in T.walk(t_):
                if s and s[0] == "idx" and isinstance(s[1], tuple) and s[1][0] == "repeat":
                    return s[2]
            return None
        i_hi, i_lo = first_idx(a[1]), first_idx(a[2])
        ok_eg = (P.const_of(a[0]) == TWO32 and isinstance(i_hi, tuple) and i_hi[0] == "bin" and i_hi[1] == "Mul" and 2 in (P.const_of(i_hi[2]), P.const_of(i_hi[3]))
                 and i_lo == ("bin", "Add", i_hi, ("c", 1, None)))
        # once per digest (the outer map(..).collect(), seen as a loop over the swapped vector) and once per limb (array::from_fn)
        ctrlk = ["loop" if c[0] == "loop" else c[1] for c in eg[0].ctrl if c[0] in ("closure", "loop")]
        ok_eg = ok_eg and ctrlk in (["map", "from_fn"], ["loop", "from_fn"])
    ob.add({"C31", "C09"}, ok_eg, "TERM", "gadget/sort/egress", "egress: limb j = halves[2j] * 2^32 + halves[2j+1] for every digest of the (swapped) vector", eg[0].loc if eg else loc, [T.show(z, maxdepth=4)[:200] for e in eg for z in e.args[1:]])
    return ob


def _inner_const(t_):
    a = P.cb_args(t_, "cb.constant")
    if a is None:
        return None
    x = P.norm(a[0])
    if P.call_name(x) and x[4]:
        return P.norm(x[4][-1])
    return x
