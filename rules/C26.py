"""C26 — compact node hashing: domain guards, error propagation, visibility, sort-before-hash (DESIGN.md §5 C26)."""
from . import encoding


def run(ck):
    ck.explanation = """C26: hash_bytes_compact's domain guards (1 MiB, multiple of 8) dominate the encoder, whose error is propagated; the function is crate-private; hash_node sorts a local copy before concatenating, hash_node_presorted concatenates the parameter as is; both return the callee's Result and have no explicit panic site"""
    ck.not_decided = ["""injectivity of the encoding; equality of both hashes on sorted input as a value fact"""]
    ob = encoding.analyse26(ck)
    ob.emit(ck, "C26")
    ck.floor("CMP", "encoding/obligations", len([1 for it in ob.items if "C26" in it[0]]), 5, "C26 obligations evaluated")
    if ck.tier == "thorough":
        from . import witnesses
        witnesses.run(ck, ["hash_bytes_compact_private"])
