"""Loop canonicalisation: one representation for `for i in 0..n { a[i] … b[i] }`, `for (x, y) in a.iter().zip(b.iter())`,
`for (i, x) in a.iter().enumerate()`, `for x in a.iter().take(n)` and the `.map(..).collect()` forms.

Every loop iterator L of the term graph has a *domain* (lo, hi): the values its position variable takes.

    Range{a, b}                                   (a, b)
    X.iter() [.enumerate()] [.map(f)]             (0, len X)          len X a constant when fixed by construction (known_len)
    X.iter().take(n) …                            (0, n)              (as the rules always read `take`: the first n elements)
    A.iter().zip(B.iter())                        (0, len)            when both lengths are known and equal, else (0, ("minlen", A, B))

and the position variable is written ("lv", lo, hi, d).  `canon(t)` rewrites element/index terms into index form:

    ("elem", Range{a,b})  /  ("index", X')         ->  ("lv", a, b, d)
    ("elem", X')  (X' streams collection X)        ->  ("idx", X, ("lv", 0, hi, d))
    ("idx", X, ("elem", Range{a,b}))               ->  ("idx", X, ("lv", a, b, d))

so `a[i]` under `for i in 0..4` and `x` under `for x in a.iter()` (len a = 4) are the same term.  The variable carries its domain
and no loop identity — exactly as ("elem", Range{0,n}) never did — so two sequential loops over the same domain are aligned by
position (what the rules want: flag[i] pushed in one loop, read at [i] in the next).  `d` separates *nested* loops with the same
domain when canonicalising relative to an effect's nest (Nest.canon): the outermost such loop has d = 0, the next d = 1, ….
Iterators of any other form (skip, chunks, chain, rev, step_by, filter…) are left untouched; rules then fail closed on their
shape test instead of guessing."""
from . import terms as T
from . import pat as P
from . import circ


def strip_adaptors(x):
    while isinstance(x, tuple) and x and x[0] in ("take", "map", "enumerate", "rev") and len(x) > 1:
        x = x[1]
    return x


PARAM_LEN = {}   # (body path, param index) -> N for parameters of type [T; N] / &[T; N] / &mut [T; N]


def register_param_lens(body):
    """record the fixed lengths of a body's array-typed parameters (from their MIR types) for known_len"""
    import re
    for i in range(1, body.argc + 1):
        m = re.match(r"^&?(?:mut )?\[.*; (\d+)\]$", body.local_ty(i) or "")
        if m:
            PARAM_LEN[(body.path, i)] = int(m.group(1))


def slice_of(x):
    """(X, a, b) when x is the sub-slice X[a..b] (an index by a half-open range), else None"""
    x = P.norm(x)
    if isinstance(x, tuple) and len(x) == 3 and x[0] == "idx" and isinstance(x[2], tuple) and circ.range_expr(x[2]) is not None:
        r = circ.range_expr(x[2])
        return x[1], P.norm(r[0]), P.norm(r[1])
    if isinstance(x, tuple) and len(x) == 3 and x[0] == "idx" and isinstance(x[2], tuple) and len(x[2]) == 4 and x[2][0] == "adt" and x[2][1].endswith("ops::range::RangeTo"):
        return x[1], ("c", 0, None), P.norm(dict(x[2][3]).get("end"))    # X[..b]
    return None


def _span(a, b):
    """b - a when that is evident: both constants, or b written as a + c / c + a"""
    ca, cb = P.const_of(a), P.const_of(b)
    if ca is not None and cb is not None:
        return cb - ca
    if ca == 0:
        return _k(b)
    if isinstance(b, tuple) and len(b) == 4 and b[0] == "bin" and b[1] == "Add":
        for x, c in ((b[2], b[3]), (b[3], b[2])):
            if P.norm(x) == a:
                return P.const_of(c) if P.const_of(c) is not None else P.norm(c)
    return None


TERM_LEN = {}   # term -> length (int or canonical term), registered by a view that has established it (register_filled, constructor facts)


def register_filled(effects):
    """lengths of vectors that are filled by exactly one unconditional push per iteration of exactly one loop with a known domain
    0..N and touched by nothing else: such a vector has N elements (a `map(..).collect()` gets its length from its source in known_len)"""
    from . import terms as _T
    by = {}
    for e in effects:
        if e.args and e.raw.get("name") in _T.MUTATORS and (e.path or "").startswith(("alloc::vec", "<alloc::vec")):
            by.setdefault(P.norm(e.args[0]), []).append(e)
    changed = True
    rounds = 0
    while changed and rounds < 4:
        changed = False
        rounds += 1
        for v, es in by.items():
            if v in TERM_LEN or len(es) != 1 or es[0].raw.get("name") != "push":
                continue
            e = es[0]
            lps = circ.loops_of(e)
            if len(lps) != 1 or circ.uncond_problems(e):
                continue
            dm = Desc(lps[0]).domain()
            if dm is None or dm[0] != 0 or (isinstance(dm[1], tuple) and dm[1] and dm[1][0] in ("minlen", "len")):
                continue
            TERM_LEN[v] = dm[1]
            changed = True


def known_len(x):
    """length fixed by construction, or None"""
    x = P.norm(x)
    if not isinstance(x, tuple) or not x:
        return None
    if x in TERM_LEN:
        return TERM_LEN[x]
    if x[0] == "map" and len(x) >= 3:
        # a collected map has as many elements as its source streams
        d = Desc(x[1])
        dm = d.domain()
        if dm is not None and dm[0] == 0 and not (isinstance(dm[1], tuple) and dm[1] and dm[1][0] in ("minlen", "len")):
            return dm[1]
    sl = slice_of(x)
    if sl is not None:
        return _span(sl[1], sl[2])
    if x[0] == "param" and (x[1], x[2]) in PARAM_LEN:
        return PARAM_LEN[(x[1], x[2])]
    if x[0] == "fld" and x[2] == "elements":
        return 4  # HashOutTarget / HashOut: [T; NUM_HASH_OUT_ELTS]
    if x[0] == "array":
        return len(x[1])
    if x[0] == "repeat" and isinstance(x[2], int):
        return x[2]
    n = P.call_name(x)
    if n:
        if n.endswith("limbs4_at_offset"):
            return 4
        if n == "cb.add_virtual_target_arr" and len(x[3]) >= 1 and isinstance(x[3][-1], int):
            return x[3][-1]
        if n in ("cb.add_virtual_targets",) and len(x[4]) >= 2 and P.const_of(x[4][1]) is not None:
            return P.const_of(x[4][1])
        if n == "cb.split_le" and len(x[4]) >= 3:
            c = P.const_of(x[4][2])
            return c if c is not None else P.norm(x[4][2])   # split_le(x, n) returns exactly n bits
        if n == "cb.add_virtual_hash":
            return None
    if x[0] == "from_fn" and len(x) > 2:
        from . import terms as _T
        return _T.FROM_FN_LEN.get(x[2])
    if x[0] == "upd":
        return known_len(x[2])
    if x[0] == "phi":
        ls = set(known_len(m) for m in x[2] if not (isinstance(m, tuple) and m and m[0] in ("rec",)))
        return ls.pop() if len(ls) == 1 else None
    return None


def _k(t):
    """constant as int, else the normalised term in canonical form (a bound may itself mention an outer loop's variable: `(i + 1)..n`)"""
    c = P.const_of(t)
    if c is not None:
        return c
    t = P.norm(t)
    return P.norm(canon(t)) if isinstance(t, tuple) else t


class Desc:
    """decomposition of a loop iterator"""
    __slots__ = ("colls", "range", "take", "enum", "other", "it", "rev", "maps", "_par")

    def __init__(self, it):
        self.colls = []
        self.maps = []     # every `map(..)` layer met: a collected vector of freshly created objects is addressed as that term
        self.range = None
        self.take = None
        self.enum = False
        self.other = False
        self.rev = False   # the positions are visited from hi-1 down to lo (same variable, same domain)
        self.it = it
        self._par = []     # visiting direction of every streamed component (a `rev` inside ONE side of a zip reverses only that side)
        self._go(it)
        if len(set(self._par)) > 1:
            self.other = True   # zip(a, b.rev()): position p of a is paired with position len-1-p of b — not one variable
        self.rev = bool(self._par) and self._par[0]
        if self.range is not None and self.take is not None:
            # (a..b).take(n) with constant bounds is the range a..min(b, a + n); anything symbolic is left alone
            lo, hi, tk = _k(self.range[0]), _k(self.range[1]), _k(self.take)
            if not all(isinstance(x, int) for x in (lo, hi, tk)):
                self.other = True
        if self.range is not None and self.colls:
            # a range zipped with collections: the positions line up only when the range starts at 0 and every collection is
            # known to be exactly as long as the range
            lo, hi = _k(self.range[0]), _k(self.range[1])
            if lo != 0 or not all(known_len(c) is not None and known_len(c) == hi for c in self.colls):
                self.other = True
        if self.range is None and not self.colls:
            self.other = True

    def _go(self, t, rev=False):
        tag = t[0] if isinstance(t, tuple) and t else None
        if tag == "zip":
            self._go(t[1], rev)
            self._go(t[2], rev)
        elif tag == "enumerate":
            self.enum = True
            self._go(t[1], rev)
        elif tag == "take":
            if self.take is not None and self.take != t[2]:
                self.other = True
            self.take = t[2]
            self._go(t[1], rev)
        elif tag == "map":
            self.maps.append(t)
            self._go(t[1], rev)
        elif tag == "gen" and len(t) == 2:
            self._go(t[1], rev)
        elif tag == "rng" and len(t) == 3 and circ.range_expr(t) is None:
            self._go(t[2], rev)   # a site-stamped `for` loop over a collection / adaptor chain
        elif tag == "rev":
            if self.take is not None or self.enum:
                self.other = True   # rev after take/enumerate changes which positions are meant
            self._go(t[1], not rev)
        elif tag in ("skip", "chunks", "chain", "step_by", "windows", "elem", "index", "lv"):
            self.other = True
        elif circ.range_expr(t) is not None:
            r = circ.range_expr(t)
            if self.range is not None and (_k(self.range[0]), _k(self.range[1])) != (_k(r[0]), _k(r[1])):
                self.other = True   # a zip of two different ranges
            self.range = r
            self._par.append(rev)
        elif tag is None:
            self.other = True
        else:
            self.colls.append(t)
            self._par.append(rev)

    def domain(self):
        """(lo, hi) or None"""
        if self.other:
            return None
        if self.range is not None and self.take is not None:
            lo, hi, tk = _k(self.range[0]), _k(self.range[1]), _k(self.take)
            return (lo, min(hi, lo + tk))
        if self.range is not None:
            return (_k(self.range[0]), _k(self.range[1]))
        if self.take is not None:
            return (0, _k(self.take))
        ls = [known_len(c) for c in self.colls]
        if all(l is not None for l in ls) and len(set(ls)) == 1:
            return (0, ls[0])
        if len(self.colls) == 1:
            return (0, ("len", P.norm(self.colls[0])))
        return (0, ("minlen",) + tuple(P.norm(c) for c in self.colls))


def domain_of(it):
    return Desc(it).domain()


class Nest:
    """the loop nest of one effect (outermost first)"""

    def __init__(self, eff=None, loops=None, fallback=None):
        """fallback: a frame-level nest (frame_nest) consulted for element terms of loops that do not enclose this effect
        (loop-carried values built in an inner or earlier loop); their variables get d = 0"""
        self.eff = eff
        self.fallback = fallback
        self.loops = list(loops) if loops is not None else circ.loops_of(eff)
        self.desc = [Desc(l) for l in self.loops]
        self.doms = [d.domain() for d in self.desc]
        self.disc = []
        for k, dm in enumerate(self.doms):
            self.disc.append(sum(1 for j in range(k) if self.doms[j] == dm and dm is not None))
        self.memo = {}

    def depth(self):
        return len(self.loops)

    def var(self, k):
        dm = self.doms[k]
        return ("lv", dm[0], dm[1], self.disc[k]) if dm is not None else None

    def vars(self):
        return [self.var(k) for k in range(len(self.loops))]

    def var_for(self, it):
        """variable of the nest loop that iterates `it` (a range, or a collection streamed by that loop — alone or zipped with
        others: the loop's own domain applies, e.g. the common length of a zip); None when no loop of this nest does"""
        site = None
        orig = it
        if isinstance(it, tuple) and len(it) == 3 and it[0] == "rng" and circ.range_expr(it) is None:
            site, it = it[1], it[2]     # element of the `for` loop whose into_iter was stamped with this site: only that loop matches
        base = strip_adaptors(it)
        gen = it[1] if (isinstance(it, tuple) and len(it) == 2 and it[0] == "gen") else None
        for k in range(len(self.loops) - 1, -1, -1):
            d = self.desc[k]
            if self.doms[k] is None:
                continue
            lk = self.loops[k]
            lsite = lk[1] if (isinstance(lk, tuple) and len(lk) == 3 and lk[0] == "rng" and circ.range_expr(lk) is None) else None
            if site is not None and lsite != site:
                continue
            if gen is not None:
                if gen in d.maps:
                    return self.var(k)
                continue
            if self.loops[k] == it or d.it == it or (base in d.colls and _takes(it) == d.take):
                return self.var(k)
        if self.fallback is not None:
            fv = self.fallback.var_for(orig)
            if fv is not None:
                return ("lv", fv[1], fv[2], 0)
        return None

    def canon(self, t):
        return _canon(self, t)

    def has_var(self, v):
        return v is not None and v in self.vars()


_FREE = Nest(loops=[])


def frame_nest(frame):
    """a pseudo-nest holding every loop of a frame (for loop-carried values, which belong to no single effect): element terms are
    resolved against the loop that streams them (a zip's common domain), and `reversed_loop(var)` tells the visiting order"""
    loops = []
    for e in frame.effects():
        for c in e.ctrl:
            if c[0] == "loop" and tuple(c[2]) == ("1",) and c[1] not in loops:
                loops.append(c[1])
    return Nest(loops=loops)


def reversed_loop(nest, var):
    """is the (unique) loop of `nest` with variable `var` visited in descending order?  None when not unique"""
    ks = [k for k in range(nest.depth()) if nest.var(k) == var]
    return nest.desc[ks[0]].rev if len(ks) == 1 else None


def canon(t):
    """context-free canonicalisation (d = 0 everywhere)"""
    return _canon(_FREE, t)


def _canon(nest, t):
    if not isinstance(t, tuple) or not t:
        return t
    got = nest.memo.get(id(t))
    if got is not None and got[0] is t:
        return got[1]
    r = _canon1(nest, t)
    nest.memo[id(t)] = (t, r)
    return r


def _takes(it):
    while isinstance(it, tuple) and it and it[0] in ("take", "map", "enumerate"):
        if it[0] == "take":
            return it[2]
        it = it[1]
    return None


def _canon1(nest, t):
    tag = t[0]
    if tag == "elem" and len(t) == 2:
        inner = t[1]
        d = Desc(inner)
        dm = d.domain()
        if dm is None:
            return ("elem", _canon(nest, inner)) if isinstance(inner, tuple) else t
        v = nest.var_for(inner) or ("lv", dm[0], dm[1], 0)
        if isinstance(inner, tuple) and len(inner) == 2 and inner[0] == "gen":
            # element of a collected vector of freshly created objects: the vector is the map term itself, as in `v[i]`
            return ("idx", _canon(nest, inner[1]), v)
        if isinstance(inner, tuple) and len(inner) == 3 and inner[0] == "take" and isinstance(inner[1], tuple) and len(inner[1]) == 2 and inner[1][0] == "gen":
            return ("idx", _canon(nest, inner[1][1]), v)     # a prefix of such a vector: the same elements
        if d.range is not None:
            return v
        if len(d.colls) == 1:
            sl = slice_of(d.colls[0])
            if sl is not None:
                # element p of X[a..b] is X[a + p]
                a = _canon(nest, sl[1]) if isinstance(sl[1], tuple) else sl[1]
                return ("idx", _canon(nest, sl[0]), v if P.const_of(a) == 0 else ("bin", "Add", a, v))
            return ("idx", _canon(nest, d.colls[0]), v)
        # elem of a zip as a whole is a tuple; Frame.elem already splits it, so this is not reached for zips
        return t
    if tag == "index" and len(t) == 2:
        d = Desc(t[1])
        dm = d.domain()
        if dm is None or (d.range is not None and dm[0] != 0):
            return t   # the position in a range that does not start at 0 is not the range's value
        return nest.var_for(t[1]) or ("lv", dm[0], dm[1], 0)
    if tag in ("c", "cs", "param", "cparam", "cfn", "cdef", "unit", "unk", "lv", "sym"):
        return t
    return tuple(_canon(nest, x) if isinstance(x, tuple) else x for x in t)


def split_indexed(nest, t):
    """(base, index): the base as it is in the term graph (not canonicalised, so callers keep working on raw terms), the index
    canonical; index None when t is not an element access"""
    raw = P.norm(t)
    c = P.norm(nest.canon(raw))
    if isinstance(c, tuple) and c and c[0] == "idx":
        if isinstance(raw, tuple) and raw and raw[0] == "idx":
            return raw[1], c[2]
        if isinstance(raw, tuple) and raw and raw[0] == "elem":
            d = Desc(raw[1])
            if len(d.colls) == 1:
                return d.colls[0], c[2]
        return c[1], c[2]
    return raw, None


def is_var(ix, lo=None, hi=None):
    if not (isinstance(ix, tuple) and len(ix) == 4 and ix[0] == "lv"):
        return False
    return (lo is None or ix[1] == lo) and (hi is None or ix[2] == (hi if isinstance(hi, int) else _k(hi)))


def same_var_covering(nest, ia, ib, n):
    """both indices are the same loop variable with domain 0..n, and the effect sits inside that loop"""
    return ia is not None and ia == ib and is_var(ia, 0, n) and nest.has_var(ia)
