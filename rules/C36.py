"""C36 — two-layer aggregation conserves value and nullifiers end to end (DESIGN.md §5 C36).
Composition: C08 (private batch conserves; dummies contribute zero) AND C12 (the public batch forwards every real inner's slots and
nullifiers verbatim and zeroes dummy inners) AND the reader's region boundaries are the writer's."""
from . import pb, pubb


def run(ck):
    ck.explanation = ("C36: re-evaluates the private-batch grouping/masking obligations (C08), the public-batch forwarding obligations (C12) and checks that the "
                      "public reader's layout constants are the very items the private writer uses (re-export identity) and that the forwarded index ranges "
                      "cover exactly [8, 8+10n) and [8+10n, 8+14n) for every n in 1..64")
    ck.not_decided = ["numeric equality on concrete batches; the conservation identity is the Lean theorem (C34)"]
    ob, v = pb.analyse(ck)
    ob.emit(ck, "C08")
    ob.emit(ck, "C36")
    ob2, v2 = pubb.analyse(ck)
    ob2.emit(ck, "C36")
    # writer/reader layout identity through the `pub use` aliases
    want = {"PRIVATE_BATCH_EXIT_SLOT_LEN": "EXIT_SLOT_LEN", "PRIVATE_BATCH_HEADER_LEN": "HEADER_LEN", "PRIVATE_BATCH_BLOCK_HASH_OFFSET": "BLOCK_HASH_OFFSET",
            "PRIVATE_BATCH_ASSET_ID_OFFSET": "ASSET_ID_OFFSET", "PRIVATE_BATCH_VOLUME_FEE_BPS_OFFSET": "VOLUME_FEE_BPS_OFFSET", "PRIVATE_BATCH_BLOCK_NUMBER_OFFSET": "BLOCK_NUMBER_OFFSET"}
    uses = [u for u in ck.prog.uses if u["crate"] == "qp_wormhole_aggregator" and u["mod"].endswith("public_batch::circuit::constants")]
    for alias, orig in want.items():
        hit = [u for u in uses if u["name"] == alias]
        ok = len(hit) == 1 and hit[0]["target"].endswith("private_batch::circuit::constants::aggregated_output::" + orig)
        ck.require(ok, "AGREE", "layout-alias/" + alias, "public-batch reader constant %s is a re-export of the private-batch writer's aggregated_output::%s (one definition)" % (alias, orig),
                   None, [u["target"] for u in hit])
    # header = 8 felts, slot = 5 felts, nullifier = 4 felts on the writer side
    cv = lambda s: ck.prog.const_value("private_batch::circuit::constants::aggregated_output::" + s)
    ck.require(cv("HEADER_LEN") == 8 and cv("EXIT_SLOT_LEN") == 5, "AGREE", "layout-values", "writer emits an 8-felt header and 5-felt exit slots; constants HEADER_LEN=8, EXIT_SLOT_LEN=5")
