"""MIR-level expansion of private helpers for the E2 (off-circuit) rules.

`expand(prog, body, keep)` returns a synthetic Body in which every call to a *private, non-generic-dispatch, same-crate* function
that is not one of the rule module's named anchors (`keep`) has been replaced by the callee's blocks (locals and block ids
renumbered, parameters assigned from the call operands, the callee's `_0` mapped onto the call's destination).  CFG rules
(dominance, guards, failing edges) and the term evaluator then see `self.charge_budget(now)?` exactly as if its body had been
written in place — a helper extracted from (or inlined into) a function is the same code, and must not change a verdict.

`helper()?` needs one more step to stay exact for the path-insensitive failing-edge analysis: the callee's Err paths and Ok paths
meet in its single return block, after which the caller's `Try::branch` switch would look as if either outcome could follow either
path.  When every predecessor of the callee's return block has a definite last definition of `_0` (`Err(..)`/`bail!` → err,
`Ok(..)` → ok), the continuation [copy result; Try::branch; switch] is duplicated per outcome and the copy's switch is replaced
by a jump to the matching arm (jump threading), so a guard that fails inside the helper is again a guard whose failing edge leads
only to the caller's error return.  If that cannot be established the call is spliced without threading (still sound for the
rules: a guard that does not provably fail is simply not a guard, and the rule that needs it reports it)."""
import copy

from . import cfg
from .facts import Body


def _map_place(pl, lm):
    pl["l"] = lm(pl["l"])
    for pj in pl.get("p", []):
        if isinstance(pj, dict) and "i" in pj and isinstance(pj["i"], int):
            pj["i"] = lm(pj["i"])


def _walk_places(x, lm):
    """remap every place {"l": int, "p": [...]} inside a statement / terminator"""
    if isinstance(x, dict):
        if isinstance(x.get("l"), int) and isinstance(x.get("p"), list):
            _map_place(x, lm)
            return
        for k, v in x.items():
            if k in ("arms",):
                continue
            _walk_places(v, lm)
    elif isinstance(x, list):
        for v in x:
            _walk_places(v, lm)


def _retarget(t, bm):
    k = t["k"]
    if k in ("goto", "drop", "assert"):
        t["t"] = bm(t["t"])
    elif k == "call":
        if t.get("t") is not None:
            t["t"] = bm(t["t"])
    elif k == "switch":
        t["arms"] = [[v, bm(b)] for v, b in t["arms"]]
        t["else"] = bm(t["else"])


def _exit_kinds(callee):
    """for each predecessor edge of a return block: the set of last-definition kinds of _0 ('ok'/'err'/'ok?'/'unset')"""
    from .guards import _zero_defs
    zd = _zero_defs(callee)
    succ = cfg.succs(callee)
    n = len(callee.blocks)
    state_out = [set() for _ in range(n)]
    # forward dataflow: state at block entry = union of preds' exits; exit = last def in block or entry state
    entry = [set() for _ in range(n)]
    entry[0] = {"unset"}
    changed = True
    while changed:
        changed = False
        for b in cfg.rpo(callee):
            st = set(entry[b])
            if zd.get(b):
                st = {zd[b][-1]}
            if st != state_out[b]:
                state_out[b] = st
                changed = True
            for s in succ[b]:
                if not st <= entry[s]:
                    entry[s] |= st
                    changed = True
    return state_out


def _question_mark(caller_blocks, tgt, dest):
    """if the call's continuation is `Try::branch(dest)` followed by a switch on its discriminant, return
    (chain of block ids [tgt … switch block], switch block id); else None"""
    chain = []
    cur = tgt
    for _ in range(3):
        if cur is None or cur >= len(caller_blocks):
            return None
        b = caller_blocks[cur]
        if b["cleanup"]:
            return None
        chain.append(cur)
        t = b["t"]
        if t["k"] == "call" and t.get("name") == "branch":
            a = t["args"][0] if t.get("args") else None
            pl = (a.get("c") or a.get("m")) if a else None
            if pl is None or pl["l"] != dest["l"] or pl["p"] or dest["p"]:
                return None
            nxt = t.get("t")
            if nxt is None:
                return None
            sb = caller_blocks[nxt]
            if sb["t"]["k"] != "switch":
                return None
            chain.append(nxt)
            return chain, nxt
        if t["k"] != "goto":
            return None
        cur = t["t"]
    return None


def expand(prog, body, should_inline, max_depth=2, max_blocks=400):
    """see module docstring; returns (Body, [callee paths expanded])"""
    blocks = copy.deepcopy(body.blocks)
    locals_ = list(body.locals)
    depth = {}
    done = []
    bi = 0
    while bi < len(blocks):
        blk = blocks[bi]
        t = blk["t"]
        if blk["cleanup"] or t["k"] != "call" or t.get("t") is None:
            bi += 1
            continue
        cid = t.get("rid") or t.get("fid")
        callee = prog.bodies.get(cid) if cid else None
        d = depth.get(bi, 0)
        if (callee is None or callee.kind == "Closure" or callee.id == body.id or d >= max_depth or len(callee.blocks) > max_blocks
                or not should_inline(callee, t) or len(t.get("args", [])) != callee.argc):
            bi += 1
            continue
        rets = [i for i, b in enumerate(callee.blocks) if not b["cleanup"] and b["t"]["k"] == "return"]
        if len(rets) != 1:
            bi += 1
            continue
        L0 = len(locals_)
        B0 = len(blocks)
        dest = t["dest"]
        direct = not dest["p"]
        lm = (lambda l: (dest["l"] if (l == 0 and direct) else l + L0))
        bm = lambda b: b + B0
        locals_ += [dict(x) for x in callee.locals]
        new_blocks = copy.deepcopy(callee.blocks)
        for nb in new_blocks:
            for s in nb["s"]:
                _walk_places(s, lm)
            _walk_places({k: v for k, v in nb["t"].items() if k not in ("arms",)}, lm)
            _retarget(nb["t"], bm)
            if nb["t"].get("file") is None and callee.file != body.file:
                nb["t"]["file"] = callee.file
        # caller block: assign parameters, jump to the callee's entry
        ln = t.get("ln")
        for i, a in enumerate(t["args"]):
            blk["s"].append({"d": {"l": L0 + 1 + i, "p": []}, "r": {"k": "use", "a": copy.deepcopy(a)}, "ln": ln})
        cont = t["t"]
        blk["t"] = {"k": "goto", "t": B0, "ln": ln, "inlined": callee.path}
        for j in range(len(new_blocks)):
            depth[B0 + j] = d + 1
        blocks += new_blocks
        R = B0 + rets[0]
        ret_stmts = [] if direct else [{"d": copy.deepcopy(dest), "r": {"k": "use", "a": {"m": {"l": L0, "p": []}}}, "ln": ln}]
        qm = _question_mark(blocks, cont, dest)
        threaded = False
        if qm is not None:
            chain, sb = qm
            kinds = _exit_kinds(callee)
            cpred = [p for p in cfg.preds(callee)[rets[0]] if not callee.blocks[p]["cleanup"]]
            pk = {}
            for p in cpred:
                ks = kinds[p] if not callee.blocks[rets[0]]["s"] else set()
                k = "err" if ks == {"err"} else ("ok" if ks and ks <= {"ok"} else None)
                pk[p] = k
            sw = blocks[sb]["t"]
            # which arm is the error arm: the one whose target leads to from_residual
            def leads_to_residual(b0):
                seen, st = set(), [b0]
                for _ in range(6):
                    nxt = []
                    for x in st:
                        if x in seen or x >= len(blocks):
                            continue
                        seen.add(x)
                        tt = blocks[x]["t"]
                        if tt["k"] == "call" and tt.get("name") == "from_residual":
                            return True
                        if tt["k"] in ("goto", "drop"):
                            nxt.append(tt["t"])
                        elif tt["k"] == "call" and tt.get("t") is not None and tt.get("name") in ("from", "into"):
                            nxt.append(tt["t"])
                    st = nxt
                return False
            targets = [b for _, b in sw["arms"]] + [sw["else"]]
            targets = [b for b in targets if blocks[b]["t"]["k"] != "unreachable"]
            err_t = [b for b in targets if leads_to_residual(b)]
            ok_t = [b for b in targets if b not in err_t]
            if cpred and all(pk[p] is not None for p in cpred) and len(err_t) == 1 and len(ok_t) == 1:
                copies = {}
                for kind, arm in (("ok", ok_t[0]), ("err", err_t[0])):
                    if kind not in pk.values():
                        continue
                    # copy of: return block (result copy) + continuation chain, with the final switch replaced by a goto to `arm`
                    first = len(blocks)
                    rb = copy.deepcopy(blocks[R])
                    rb["s"] = rb["s"] + copy.deepcopy(ret_stmts)
                    rb["t"] = {"k": "goto", "t": first + 1, "ln": ln}
                    blocks.append(rb)
                    for ci, cb in enumerate(chain):
                        nb = copy.deepcopy(blocks[cb])
                        if cb == sb:
                            nb["t"] = {"k": "goto", "t": arm, "ln": nb["t"].get("ln"), "threaded": kind}
                        else:
                            _retarget(nb["t"], lambda b, ci=ci: first + 2 + ci)
                        blocks.append(nb)
                    copies[kind] = first
                for p in cpred:
                    _retarget(blocks[B0 + p]["t"], lambda b, p=p: (copies[pk[p]] if b == R else b))
                blocks[R]["t"] = {"k": "unreachable"}
                threaded = True
        if not threaded:
            blocks[R]["s"] = blocks[R]["s"] + ret_stmts
            blocks[R]["t"] = {"k": "goto", "t": cont, "ln": ln}
        done.append(callee.path + ("" if threaded or qm is None else " (unthreaded)"))
        bi += 1
    if not done:
        return body, []
    d2 = dict(body.d)
    d2["blocks"] = blocks
    d2["locals"] = locals_
    nb = Body(d2, body.crate, body.unit)
    return nb, done
