"""Structural decomposition of the public-batch wrapper (`build_public_batch_constraints`): C12, C13, C18 (circuit side), C36, C10."""
from . import terms as T
from . import pat as P
from . import circ
from .pat import V, K, Cb
from .pb import Ob, unmap, eval_int, _and_leaves, AGG


def analyse(ck, prog=None):
    prog = prog or ck.prog
    ob = Ob()
    body = prog.one(r"public_batch::circuit::circuit_logic::build_public_batch_constraints$", AGG)
    ck.saw(body)
    ev = T.Evaluator(prog, inline=lambda p: "::constants::" in p)
    fr = ev.frame(body)
    effs = fr.effects()
    targets = ("param", body.path, 2, "targets")
    n = ("param", body.path, 3, "n_inner")
    m = ("param", body.path, 4, "private_batch_num_leaves")
    proofs = ("fld", targets, "private_batch_proofs")
    loc0 = "%s:%s" % (body.file, body.line)
    cv = lambda s: prog.const_value("private_batch::circuit::constants::aggregated_output::" + s)
    OFF = {k: cv(k) for k in ("NUM_EXIT_SLOTS_OFFSET", "ASSET_ID_OFFSET", "VOLUME_FEE_BPS_OFFSET", "BLOCK_HASH_OFFSET", "BLOCK_NUMBER_OFFSET", "HEADER_LEN", "EXIT_SLOT_LEN")}
    ADDR_LEN = prog.const_value("public_batch::circuit::constants::AGGREGATOR_ADDRESS_LEN")

    def pis_index(t):
        t = P.norm(t)
        if isinstance(t, tuple) and t and t[0] == "fld" and t[2] == "public_inputs":
            b = t[1]
            if isinstance(b, tuple) and b[0] == "idx" and b[1] == proofs:
                return b[2]
            if isinstance(b, tuple) and b[0] == "elem" and unmap(b[1]) == ("take", proofs, n):
                return ("elem", ("take", proofs, n))
        return None

    def read(t):
        """(inner index, offset term) for pis_i[off]"""
        t = P.norm(t)
        if isinstance(t, tuple) and t and t[0] == "idx":
            i = pis_index(t[1])
            if i is not None:
                return i, t[2]
        return None

    regs = [e for e in effs if e.name in ("cb.register_public_inputs", "cb.register_public_input")]
    ob.add({"C12", "C10"}, len(regs) == 1 and regs[0].name == "cb.register_public_inputs" and not circ.uncond_problems(regs[0]), "WMC", "pub/register-once",
           "the wrapper registers its public inputs exactly once, unconditionally (found %d)" % len(regs), regs[0].loc if regs else loc0)
    if not regs:
        return ob, None
    out = P.norm(regs[0].args[1])
    seq = T.contents(effs, out)

    # flags
    D = B = None
    d_eff = None
    for e in effs:
        if e.raw.get("name") == "push" and len(e.args) == 2:
            val = P.norm(e.args[1])
            nm = P.call_name(val)
            if nm and nm.endswith("gadgets::bytes_digest_eq"):
                a = [P.norm(x) for x in val[4][1:]]
                zs = [x for x in a if isinstance(x, tuple) and x[0] == "array" and len(x[1]) == 4 and all(P.const_of(y) == 0 for y in x[1])]
                blk = [x for x in a if x not in zs]
                if zs and len(blk) == 1:
                    bt = blk[0]
                    J = ("sym", "J")
                    el = P.norm(fr.index(bt, J)) if isinstance(bt, tuple) and bt[0] == "from_fn" else None
                    rd = read(el) if el is not None else None
                    if rd and rd[1] in (("bin", "Add", ("c", OFF["BLOCK_HASH_OFFSET"], rd[1][2][2] if isinstance(rd[1], tuple) and len(rd[1]) > 2 and T.is_const(rd[1][2]) else None), J),) or (
                            rd and isinstance(rd[1], tuple) and rd[1][0] == "bin" and rd[1][1] == "Add" and P.const_of(rd[1][2]) == OFF["BLOCK_HASH_OFFSET"] and rd[1][3] == J):
                        D, d_eff, d_block, d_idx = e.args[0], e, bt, rd[0]
    if D is None:
        ob.add({"C12", "C13"}, False, "TERM", "pub/is-dummy-flag", "no per-inner flag is_dummy_i = bytes_digest_eq(pis_i[BLOCK_HASH_OFFSET..+4], [0;4]) found", loc0)
        return ob, None
    d_loop = circ.loops_of(d_eff)
    ok = len(T.contents(effs, D)) == 1 and len(d_loop) == 1 and unmap(d_loop[0]) == ("take", proofs, n) and d_idx == ("elem", ("take", proofs, n))
    ob.add({"C12", "C13"}, ok, "TERM", "pub/is-dummy-flag", "is_dummy_i = bytes_digest_eq(pis_i[%d..%d], [zero;4]), one flag per inner proof in proof order for the first n_inner proofs" % (OFF["BLOCK_HASH_OFFSET"], OFF["BLOCK_HASH_OFFSET"] + 4), d_eff.loc)
    for e in effs:
        if e.raw.get("name") == "push" and len(e.args) == 2 and P.norm(e.args[1]) == d_block and e.args[0] != D and circ.loops_of(e) == d_loop:
            B = e.args[0]
    ob.add({"C12", "C13"}, B is not None and len(T.contents(effs, B)) == 1, "TERM", "pub/block-hashes", "block_hashes[i] holds the same four BLOCK_HASH limbs", d_eff.loc)

    def Dat(t):
        t = P.norm(t)
        if isinstance(t, tuple) and t and t[0] == "idx" and t[1] == D:
            i = t[2]
            if isinstance(i, tuple) and i[0] == "index":
                i = ("index", unmap(i[1]))
            return i
        return None

    def notD(t):
        a = P.match(Cb("cb.not", V("x")), t)
        return Dat(a["x"]) if a else None

    def check_take(take, what, e):
        lv = [P.norm(x) for x in _and_leaves(take)]
        idxs = [notD(x) for x in lv]
        i = [x for x in idxs if x is not None]
        rest = [x for x, ix in zip(lv, idxs) if ix is None]
        ok = len(lv) == 2 and len(i) == 1 and len(rest) == 1
        fr_ok = False
        if ok:
            a = P.match(Cb("cb.not", V("f")), rest[0])
            if a:
                f = P.norm(a["f"])
                if isinstance(f, tuple) and f[0] == "phi" and len(f[2]) == 2:
                    init = [x for x in f[2] if P.const_of(x) == 0]
                    step = [x for x in f[2] if P.const_of(x) is None]
                    if len(init) == 1 and len(step) == 1:
                        o = P.cb_args(step[0], "cb.or")
                        if o is not None:
                            o = [P.norm(x) for x in o]
                            recs = [x for x in o if isinstance(x, tuple) and x[0] in ("rec", "phi")]
                            oth = [x for x in o if not (isinstance(x, tuple) and x[0] in ("rec", "phi"))]
                            fr_ok = len(recs) == 1 and len(oth) == 1 and notD(oth[0]) == i[0]
        r = circ.range_expr(i[0][1]) if (ok and isinstance(i[0], tuple) and i[0][0] == "elem") else None
        rng_ok = r is not None and P.const_of(r[0]) == 0 and P.norm(r[1]) == n
        ob.add({"C12"}, ok and fr_ok and rng_ok, "TERM", "pub/first-real/%s/take" % what,
               "take_i = and(not is_dummy_i, not found_real), found_real = {false, or(found_real, not is_dummy_i)}, i over 0..n_inner", e.loc, T.show(take, maxdepth=8)[:400])
        return i[0] if ok else None

    def scalar_ref(t, off, what, e):
        t = P.norm(t)
        good = False
        if isinstance(t, tuple) and t[0] == "phi" and len(t[2]) == 2:
            init = [x for x in t[2] if P.const_of(x) == 0]
            step = [x for x in t[2] if P.const_of(x) is None]
            if len(init) == 1 and len(step) == 1:
                b = P.match(Cb("cb.select", V("take"), V("val"), V("keep")), step[0])
                if b:
                    i = check_take(b["take"], what, e)
                    rd = read(b["val"])
                    kp = P.norm(b["keep"])
                    good = i is not None and rd is not None and rd[0] == i and P.const_of(rd[1]) == off and isinstance(kp, tuple) and kp[0] in ("rec", "phi")
        ob.add({"C12"}, good, "TERM", "pub/first-real/%s" % what, "%s_ref = {zero, select(take_i, pis_i[%d], %s_ref)}: first real inner's value, zero if none" % (what, off, what), e.loc, T.show(t, maxdepth=5)[:300])
        return t

    items = list(seq)
    if len(items) < 8:
        ob.add({"C12"}, False, "ORDER", "pub/out/header", "output vector has fewer than 8 append sites (%d)" % len(items), loc0)
        return ob, None
    k0, t0, e0 = items[0]
    ob.add({"C12", "C18"}, k0 == "all" and P.norm(t0) == ("fld", targets, "aggregator_address") and ADDR_LEN == 4, "TERM", "pub/out/address",
           "output[0..4] = the 4 aggregator-address targets", e0.loc, T.show(t0))
    asset_ref = scalar_ref(items[1][1], OFF["ASSET_ID_OFFSET"], "asset", items[1][2])
    fee_ref = scalar_ref(items[2][1], OFF["VOLUME_FEE_BPS_OFFSET"], "fee", items[2][2])
    k3, t3, e3 = items[3]
    t3 = P.norm(t3)
    good = False
    if k3 == "all" and isinstance(t3, tuple) and t3[0] == "upd" and isinstance(t3[2], tuple) and t3[2][0] == "array" and len(t3[2][1]) == 4 and all(P.const_of(x) == 0 for x in t3[2][1]) and len(t3[3]) == 1:
        proj, val = t3[3][0]
        b = P.match(Cb("cb.select", V("take"), V("val"), V("keep")), val)
        if b and len(proj) == 1 and proj[0][0] == "i":
            j = proj[0][1]
            i = check_take(b["take"], "block-hash", e3)
            rj = circ.range_expr(j[1]) if isinstance(j, tuple) and j[0] == "elem" else None
            kp = P.norm(b["keep"])
            good = (i is not None and rj is not None and P.const_of(rj[0]) == 0 and P.const_of(rj[1]) == 4 and P.norm(b["val"]) == ("idx", ("idx", B, i), j)
                    and isinstance(kp, tuple) and kp[0] == "idx" and kp[2] == j)
    ob.add({"C12"}, good, "TERM", "pub/first-real/block-hash", "block_ref[j] = {zero, select(take_i, block_hashes[i][j], block_ref[j])}, j in 0..4", e3.loc, T.show(t3, maxdepth=6)[:400])
    block_ref = t3
    scalar_ref(items[4][1], OFF["BLOCK_NUMBER_OFFSET"], "block-number", items[4][2])
    k5, t5, e5 = items[5]
    c5 = P.cb_args(t5, "cb.constant")
    v5 = P.norm(P.norm(c5[0])[4][-1]) if c5 is not None and P.call_name(c5[0]) else None
    badn = [(a, b_) for a in (1, 2, 7, 64) for b_ in (1, 3, 64) if v5 is None or eval_int(v5, {n: a, m: b_}) != 2 * a * b_]
    ob.add({"C12"}, k5 == "one" and not badn, "TERM", "pub/out/total-exit-slots", "output[11] = constant(2 * N * M)", e5.loc, T.show(t5))
    hdr_uncond = all(not circ.uncond_problems(e) and not circ.loops_of(e) for _, _, e in items[:6]) and [k for k, _, _ in items[:6]] == ["all", "one", "one", "all", "one", "one"]
    ob.add({"C12"}, hdr_uncond, "ORDER", "pub/out/header-order", "header appends are [address(4), asset, fee, block hash(4), block number, total slots], straight-line (12 felts)", e0.loc, [k for k, _, _ in items[:6]])

    # forwarding regions
    def region(item, what, count_term_fn, width, start_fn):
        k, t, e = item
        loops = circ.loops_of(e)
        okr = k == "one" and len(loops) == 3 and unmap(loops[0]) == ("enumerate", ("take", proofs, n))
        r1 = circ.range_expr(loops[1]) if okr else None
        r2 = circ.range_expr(loops[2]) if okr else None
        okr = okr and r1 is not None and r2 is not None and P.const_of(r1[0]) == 0 and P.const_of(r2[0]) == 0 and P.const_of(r2[1]) == width
        det = {"loops": [T.show(l)[:160] for l in loops], "term": T.show(t, maxdepth=6)[:400]}
        if okr:
            s, j = ("elem", loops[1]), ("elem", loops[2])
            b = P.match(Cb("cb.select", V("d"), K(0), V("x")), t)
            okr = b is not None and Dat(b["d"]) == ("index", ("take", proofs, n))
            rd = read(b["x"]) if b else None
            okr = okr and rd is not None and rd[0] == ("elem", ("take", proofs, n))
            bad = []
            if okr:
                for mv in range(1, 65):
                    cnt = eval_int(r1[1], {m: mv})
                    if cnt != count_term_fn(mv):
                        bad.append(("count", mv, cnt))
                        break
                    for sv in (0, 1, cnt - 1):
                        for jv in (0, width - 1):
                            got = eval_int(rd[1], {m: mv, s: sv, j: jv})
                            if got != start_fn(mv) + sv * width + jv:
                                bad.append(("index", mv, sv, jv, got))
                okr = not bad
                det["bad"] = bad[:4]
        ob.add({"C12", "C36"}, okr, "ORDER+TERM", "pub/out/%s" % what,
               "%s region: for inner i (outermost), element k, limb j: push select(is_dummy_i, zero, pis_i[start + k*%d + j]); counts and offsets evaluated for every M in 1..64" % (what, width), e.loc, det)

    region(items[6], "exit-slots", lambda mv: 2 * mv, OFF["EXIT_SLOT_LEN"], lambda mv: OFF["HEADER_LEN"])
    region(items[7], "nullifiers", lambda mv: mv, 4, lambda mv: OFF["HEADER_LEN"] + 2 * mv * OFF["EXIT_SLOT_LEN"])
    muts = [k for k, _, _ in seq if k.startswith("mutate")]
    ob.add({"C12"}, len(items) == 8 and not muts, "ORDER", "pub/out/append-only", "the output vector is only appended to, by exactly these 8 sites", loc0, [k for k, _, _ in items])

    # constraints
    cons = [e for e in effs if e.name in circ.CONSTRAINT_NAMES and e.name != "cb.register_public_inputs"]
    found = {}
    for e in cons:
        ops = [P.norm(x) for x in circ.cb_operands(e)]
        cls = None
        if e.name == "cb.connect":
            for x, y in ((ops[0], ops[1]), (ops[1], ops[0])):
                if P.const_of(y) != 1:
                    continue
                o = P.cb_args(x, "cb.or")
                if o is None:
                    continue
                o = [P.norm(z) for z in o]
                di = [Dat(z) for z in o]
                if sum(1 for d in di if d is not None) != 1:
                    continue
                i = [d for d in di if d is not None][0]
                other = [z for z, d in zip(o, di) if d is None][0]
                if i != ("index", ("take", proofs, n)):
                    continue
                eq = P.cb_args(other, "cb.is_equal")
                if eq is not None:
                    eq = [P.norm(z) for z in eq]
                    rds = [read(z) for z in eq]
                    for ref, off, nm in ((asset_ref, OFF["ASSET_ID_OFFSET"], "asset"), (fee_ref, OFF["VOLUME_FEE_BPS_OFFSET"], "fee")):
                        if ref in eq and any(r and r[0] == ("elem", ("take", proofs, n)) and P.const_of(r[1]) == off for r in rds):
                            cls = nm
                nmo = P.call_name(other)
                if nmo and nmo.endswith("gadgets::bytes_digest_eq"):
                    a = [P.norm(z) for z in other[4][1:]]
                    a = [("idx", z[1], ("index", unmap(z[2][1]))) if (isinstance(z, tuple) and z[0] == "idx" and isinstance(z[2], tuple) and z[2][0] == "index") else z for z in a]
                    if ("idx", B, i) in a and block_ref in a:
                        cls = "block"
        if cls is None:
            ob.add({"C13", "C10"}, False, "INV", "pub/constraint/unexpected@%s" % e.name, "a constraint outside the three metadata classes (slot contents, nullifiers and block numbers must not be cross-checked)", e.loc,
                   [T.show(x, maxdepth=5)[:300] for x in ops])
        else:
            found.setdefault(cls, []).append(e)
    for nm in ("asset", "fee", "block"):
        hs = found.get(nm, [])
        okc = len(hs) == 1
        if okc:
            e = hs[0]
            lp = circ.loops_of(e)
            okc = len(lp) == 1 and unmap(lp[0]) == ("enumerate", ("take", proofs, n)) and not circ.uncond_problems(e)
        ob.add({"C13"}, okc, "INV", "pub/constraint/%s" % nm, "exactly one `is_dummy_i OR %s_i == %s_ref` constraint, for every inner i in 0..n_inner (found %d)" % (nm, nm, len(hs)), hs[0].loc if hs else loc0)
    free = [e for e in effs if e.name in circ.FREE_NAMES or e.name.endswith("BoolTarget::new_unsafe")]
    ob.add({"C10"}, not free, "FREE", "pub/free-none", "the public-batch wrapper logic creates no virtual target and no unsafe boolean", free[0].loc if free else loc0)
    return ob, {"D": D, "B": B, "seq": seq, "effs": effs, "fr": fr}
