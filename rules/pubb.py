"""Structural decomposition of the public-batch wrapper (`build_public_batch_constraints`): C12, C13, C18 (circuit side), C36, C10.

All index reasoning is done on loop-canonical terms (rules/lc.py): `for (i, pis_i) in v.iter().take(n).enumerate()`, `for i in 0..n`
with `v[i]`, and zip forms give the same terms; helpers of the aggregator crate are expanded in place; a masked forward may be written
`select(d, zero, x)`, `select(not d, x, zero)` or `mul(not d, x)`."""
from . import terms as T
from . import pat as P
from . import circ, lc
from .pat import V, K, Cb
from .pb import Ob, eval_int, _and_leaves, AGG


def masked(t):
    """(d, x) when t forwards x unless boolean d holds (then zero): select(d, 0, x) | select(not d, x, 0) | mul(not d, x)"""
    b = P.match(Cb("cb.select", V("d"), K(0), V("x")), t)
    if b:
        return b["d"], b["x"]
    b = P.match(Cb("cb.select", Cb("cb.not", V("d")), V("x"), K(0)), t)
    if b:
        return b["d"], b["x"]
    b = P.match(Cb("cb.mul", Cb("cb.not", V("d")), V("x")), t)
    if b:
        return b["d"], b["x"]
    return None


def analyse(ck, prog=None):
    prog = prog or ck.prog
    ob = Ob()
    body = prog.one(r"public_batch::circuit::circuit_logic::build_public_batch_constraints$", AGG)
    ck.saw(body)
    # helpers of the aggregator crate are expanded in place (an extracted helper is the same circuit); gadgets of the common crate stay atomic
    ev = T.Evaluator(prog, inline=lambda p: (p.startswith(AGG + "::") or p.startswith("<" + AGG + "::")) and "{closure" not in p, names=False)
    fr = ev.frame(body)
    effs = fr.effects()
    for e in effs:
        ck.saw(e.frame.body)
    targets = ("param", body.path, 2, "targets")
    n = ("param", body.path, 3, "n_inner")
    m = ("param", body.path, 4, "private_batch_num_leaves")
    proofs = ("fld", targets, "private_batch_proofs")
    # lengths: targets.private_batch_proofs has n_inner entries (constructor fact); vectors filled one entry per inner have the loop's length
    from .pb import proofs_length_fact
    proofs_length_fact(ck, prog, body, targets, n, "private_batch_proofs", r"public_batch::circuit::circuit_logic::PublicBatchCircuit::new$")
    lc.register_filled(effs)
    loc0 = "%s:%s" % (body.file, body.line)
    cv = lambda s: prog.const_value("private_batch::circuit::constants::aggregated_output::" + s)
    OFF = {k: cv(k) for k in ("NUM_EXIT_SLOTS_OFFSET", "ASSET_ID_OFFSET", "VOLUME_FEE_BPS_OFFSET", "BLOCK_HASH_OFFSET", "BLOCK_NUMBER_OFFSET", "HEADER_LEN", "EXIT_SLOT_LEN")}
    ADDR_LEN = prog.const_value("public_batch::circuit::constants::AGGREGATOR_ADDRESS_LEN")
    nests = {}

    def nest(e):
        if id(e) not in nests:
            nests[id(e)] = lc.Nest(e)
        return nests[id(e)]

    def C(t, e=None):
        """loop-canonical form of a term, relative to e's loop nest when given"""
        return P.norm((nest(e).canon if e is not None else lc.canon)(P.norm(t)))

    def over_inners(v):
        """v is a loop variable ranging over 0..n_inner"""
        return lc.is_var(v, 0, n)

    def pis_index(c):
        c = P.norm(c)
        if isinstance(c, tuple) and c and c[0] == "fld" and c[2] == "public_inputs":
            b = P.norm(c[1])
            if isinstance(b, tuple) and b and b[0] == "idx" and b[1] == proofs:
                return b[2]
        return None

    def read(c):
        """(inner index, offset term) for a canonical pis_i[off]"""
        c = P.norm(c)
        if isinstance(c, tuple) and c and c[0] == "idx":
            i = pis_index(c[1])
            if i is not None:
                return i, c[2]
        return None

    regs = [e for e in effs if e.name in ("cb.register_public_inputs", "cb.register_public_input")]
    ob.add({"C12", "C10"}, len(regs) == 1 and regs[0].name == "cb.register_public_inputs" and not circ.uncond_problems(regs[0]), "WMC", "pub/register-once",
           "the wrapper registers its public inputs exactly once, unconditionally (found %d)" % len(regs), regs[0].loc if regs else loc0)
    if not regs:
        return ob, None
    out = P.norm(regs[0].args[1])
    seq = T.contents(effs, out)

    # flags
    D = B = None
    d_eff = None
    J = ("sym", "J")
    for e in effs:
        if e.raw.get("name") == "push" and len(e.args) == 2:
            val = P.norm(e.args[1])
            nm = P.call_name(val)
            if nm and nm.endswith("gadgets::bytes_digest_eq"):
                a = [P.norm(x) for x in val[4][1:]]
                zs = [x for x in a if isinstance(x, tuple) and x[0] == "array" and len(x[1]) == 4 and all(P.const_of(y) == 0 for y in x[1])]
                blk = [x for x in a if x not in zs]
                if zs and len(blk) == 1:
                    bt = blk[0]
                    el = C(fr.index(bt, J), e) if isinstance(bt, tuple) and bt[0] == "from_fn" else None
                    rd = read(el) if el is not None else None
                    off = P.norm(rd[1]) if rd else None
                    if (rd and isinstance(off, tuple) and off[0] == "bin" and off[1] == "Add"
                            and ((P.const_of(off[2]) == OFF["BLOCK_HASH_OFFSET"] and off[3] == J) or (P.const_of(off[3]) == OFF["BLOCK_HASH_OFFSET"] and off[2] == J))):
                        D, d_eff, d_block, d_idx = e.args[0], e, bt, rd[0]
    def flag_of(val, e=None):
        """inner index i when `val` is bytes_digest_eq(<the 4 BLOCK_HASH limbs of inner i>, [zero; 4]) — the dummy flag by definition,
        wherever it is stored (a pushed vector, a collected map whose indexing folds to the call, an unzip ..)"""
        val = P.norm(val)
        nm_ = P.call_name(val)
        if not (nm_ and nm_.endswith("gadgets::bytes_digest_eq")):
            return None
        a_ = [P.norm(x) for x in val[4][1:]]
        zs_ = [x for x in a_ if isinstance(x, tuple) and x[0] == "array" and len(x[1]) == 4 and all(P.const_of(y) == 0 for y in x[1])]
        blk_ = [x for x in a_ if x not in zs_]
        if not zs_ or len(blk_) != 1 or not (isinstance(blk_[0], tuple) and blk_[0][0] == "from_fn"):
            return None
        el_ = C(fr.index(blk_[0], J), e)
        rd_ = read(el_)
        off_ = P.norm(rd_[1]) if rd_ else None
        if (rd_ and isinstance(off_, tuple) and off_[0] == "bin" and off_[1] == "Add"
                and ((P.const_of(off_[2]) == OFF["BLOCK_HASH_OFFSET"] and off_[3] == J) or (P.const_of(off_[3]) == OFF["BLOCK_HASH_OFFSET"] and off_[2] == J))):
            return rd_[0]
        return None

    def block_inner(t, e=None):
        """inner index i when t is the array of the four BLOCK_HASH limbs of inner i (from_fn over pis_i[BLOCK_HASH_OFFSET + j])"""
        t = P.norm(t)
        if not (isinstance(t, tuple) and t and t[0] == "from_fn"):
            return None
        rd_ = read(C(fr.index(t, J), e))
        off_ = P.norm(rd_[1]) if rd_ else None
        if (rd_ and isinstance(off_, tuple) and off_[0] == "bin" and off_[1] == "Add"
                and ((P.const_of(off_[2]) == OFF["BLOCK_HASH_OFFSET"] and off_[3] == J) or (P.const_of(off_[3]) == OFF["BLOCK_HASH_OFFSET"] and off_[2] == J))):
            return rd_[0]
        return None

    inline_flags = False
    if D is None:
        # the flags are not pushed into a vector one by one: look for the gadget call itself (a `.map(..).collect()` of flags indexes
        # straight to the call)
        ge = [e for e in effs if e.name.endswith("gadgets::bytes_digest_eq") and e.result is not None and flag_of(e.result, e) is not None]
        if len(ge) == 1:
            inline_flags = True
            d_eff, d_idx = ge[0], flag_of(ge[0].result, ge[0])
    if D is None and not inline_flags:
        ob.add({"C12", "C13"}, False, "TERM", "pub/is-dummy-flag", "no per-inner flag is_dummy_i = bytes_digest_eq(pis_i[BLOCK_HASH_OFFSET..+4], [0;4]) found", loc0)
        return ob, None
    d_nest = nest(d_eff)
    ok = (inline_flags or len(T.contents(effs, D)) == 1) and d_nest.depth() == 1 and d_nest.var(0) == d_idx and over_inners(d_idx) and not circ.uncond_problems(d_eff)
    ob.add({"C12", "C13"}, ok, "TERM", "pub/is-dummy-flag", "is_dummy_i = bytes_digest_eq(pis_i[%d..%d], [zero;4]), one flag per inner proof in proof order for the first n_inner proofs" % (OFF["BLOCK_HASH_OFFSET"], OFF["BLOCK_HASH_OFFSET"] + 4), d_eff.loc,
           [T.show(l)[:160] for l in d_nest.loops])
    for e in ([] if inline_flags else effs):
        if e.raw.get("name") == "push" and len(e.args) == 2 and P.norm(e.args[1]) == d_block and e.args[0] != D and circ.loops_of(e) == d_nest.loops:
            B = e.args[0]
    ob.add({"C12", "C13"}, inline_flags or (B is not None and len(T.contents(effs, B)) == 1), "TERM", "pub/block-hashes",
           "block_hashes[i] holds the same four BLOCK_HASH limbs" + (" (read straight from the inner public inputs wherever used)" if inline_flags else ""), d_eff.loc)

    def Dat(c):
        c = P.norm(c)
        if D is not None and isinstance(c, tuple) and c and c[0] == "idx" and c[1] == D:
            return c[2]
        if inline_flags:
            return flag_of(c)
        return None

    def notD(c):
        a = P.match(Cb("cb.not", V("x")), c)
        return Dat(a["x"]) if a else None

    def check_take(take, what, e):
        lv = [P.norm(x) for x in _and_leaves(take)]
        idxs = [notD(x) for x in lv]
        i = [x for x in idxs if x is not None]
        rest = [x for x, ix in zip(lv, idxs) if ix is None]
        ok = len(lv) == 2 and len(i) == 1 and len(rest) == 1
        fr_ok = False
        if ok:
            a = P.match(Cb("cb.not", V("f")), rest[0])
            if a:
                f = P.norm(a["f"])
                if isinstance(f, tuple) and f[0] == "phi" and len(f[2]) == 2:
                    init = [x for x in f[2] if P.const_of(x) == 0]
                    step = [x for x in f[2] if P.const_of(x) is None]
                    if len(init) == 1 and len(step) == 1:
                        o = P.cb_args(step[0], "cb.or")
                        if o is not None:
                            o = [P.norm(x) for x in o]
                            recs = [x for x in o if isinstance(x, tuple) and x[0] in ("rec", "phi")]
                            oth = [x for x in o if not (isinstance(x, tuple) and x[0] in ("rec", "phi"))]
                            fr_ok = len(recs) == 1 and len(oth) == 1 and notD(oth[0]) == i[0]
        rng_ok = ok and over_inners(i[0])
        ob.add({"C12"}, ok and fr_ok and rng_ok, "TERM", "pub/first-real/%s/take" % what,
               "take_i = and(not is_dummy_i, not found_real), found_real = {false, or(found_real, not is_dummy_i)}, i over 0..n_inner", e.loc, T.show(take, maxdepth=8)[:400])
        return i[0] if ok else None

    def scalar_ref(t, off, what, e):
        t = C(t)
        good = False
        if isinstance(t, tuple) and t[0] == "phi" and len(t[2]) == 2:
            init = [x for x in t[2] if P.const_of(x) == 0]
            step = [x for x in t[2] if P.const_of(x) is None]
            if len(init) == 1 and len(step) == 1:
                b = P.match(Cb("cb.select", V("take"), V("val"), V("keep")), step[0])
                if b:
                    i = check_take(b["take"], what, e)
                    rd = read(b["val"])
                    kp = P.norm(b["keep"])
                    good = i is not None and rd is not None and rd[0] == i and P.const_of(rd[1]) == off and isinstance(kp, tuple) and kp[0] in ("rec", "phi")
        ob.add({"C12"}, good, "TERM", "pub/first-real/%s" % what, "%s_ref = {zero, select(take_i, pis_i[%d], %s_ref)}: first real inner's value, zero if none" % (what, off, what), e.loc, T.show(t, maxdepth=5)[:300])
        return t

    items = list(seq)
    if len(items) < 8:
        ob.add({"C12"}, False, "ORDER", "pub/out/header", "output vector has fewer than 8 append sites (%d)" % len(items), loc0)
        return ob, None
    k0, t0, e0 = items[0]
    ob.add({"C12", "C18"}, k0 == "all" and P.norm(t0) == ("fld", targets, "aggregator_address") and ADDR_LEN == 4, "TERM", "pub/out/address",
           "output[0..4] = the 4 aggregator-address targets", e0.loc, T.show(t0))
    asset_ref = scalar_ref(items[1][1], OFF["ASSET_ID_OFFSET"], "asset", items[1][2])
    fee_ref = scalar_ref(items[2][1], OFF["VOLUME_FEE_BPS_OFFSET"], "fee", items[2][2])
    k3, t3, e3 = items[3]
    t3 = C(t3)
    good = False
    if k3 == "all" and isinstance(t3, tuple) and t3[0] == "upd" and isinstance(t3[2], tuple) and t3[2][0] == "array" and len(t3[2][1]) == 4 and all(P.const_of(x) == 0 for x in t3[2][1]) and len(t3[3]) == 1:
        proj, val = t3[3][0]
        b = P.match(Cb("cb.select", V("take"), V("val"), V("keep")), val)
        if b and len(proj) == 1 and proj[0][0] == "i":
            j = proj[0][1]
            i = check_take(b["take"], "block-hash", e3)
            kp = P.norm(b["keep"])
            bval = P.norm(b["val"])
            rdv = read(bval)
            from_b = bval == ("idx", ("idx", B, i), j) if B is not None else False
            from_pis = rdv is not None and rdv[0] == i and P.norm(rdv[1]) in (("bin", "Add", ("c", OFF["BLOCK_HASH_OFFSET"], None), j), ("bin", "Add", j, ("c", OFF["BLOCK_HASH_OFFSET"], None)))
            good = (i is not None and lc.is_var(j, 0, 4) and (from_b or from_pis)
                    and isinstance(kp, tuple) and kp[0] == "idx" and kp[2] == j)
            # the write happens for every (inner, limb): its only control context is the enclosing loops
            good = good and all(g[0] == "loop" for c in T.upd_write_ctrl(ev, t3) for g in c) and bool(T.upd_write_ctrl(ev, t3))
    ob.add({"C12"}, good, "TERM", "pub/first-real/block-hash", "block_ref[j] = {zero, select(take_i, block_hashes[i][j], block_ref[j])}, j in 0..4", e3.loc, T.show(t3, maxdepth=6)[:400])
    block_ref = t3
    scalar_ref(items[4][1], OFF["BLOCK_NUMBER_OFFSET"], "block-number", items[4][2])
    k5, t5, e5 = items[5]
    c5 = P.cb_args(t5, "cb.constant")
    v5 = P.norm(P.norm(c5[0])[4][-1]) if c5 is not None and P.call_name(c5[0]) else None
    badn = [(a, b_) for a in (1, 2, 7, 64) for b_ in (1, 3, 64) if v5 is None or eval_int(v5, {n: a, m: b_}) != 2 * a * b_]
    ob.add({"C12"}, k5 == "one" and not badn, "TERM", "pub/out/total-exit-slots", "output[11] = constant(2 * N * M)", e5.loc, T.show(t5))
    hdr_uncond = all(not circ.uncond_problems(e) and not circ.loops_of(e) for _, _, e in items[:6]) and [k for k, _, _ in items[:6]] == ["all", "one", "one", "all", "one", "one"]
    ob.add({"C12"}, hdr_uncond, "ORDER", "pub/out/header-order", "header appends are [address(4), asset, fee, block hash(4), block number, total slots], straight-line (12 felts)", e0.loc, [k for k, _, _ in items[:6]])

    # forwarding regions
    def region(item, what, count_term_fn, width, start_fn):
        k, t, e = item
        ns = nest(e)
        vs = ns.vars() if ns.depth() == 3 else []
        okr = k == "one" and len(vs) == 3 and all(v is not None for v in vs) and over_inners(vs[0]) and vs[1][1] == 0 and lc.is_var(vs[2], 0, width) and not circ.uncond_problems(e)
        det = {"loops": [T.show(l)[:160] for l in ns.loops], "term": T.show(t, maxdepth=6)[:400]}
        if not okr and k == "one" and ns.depth() == 2 and all(v is not None for v in ns.vars()) and over_inners(ns.var(0)) and not circ.uncond_problems(e):
            # the region walked as ONE contiguous range per inner proof: for inner i, position p in 0..count*width: push pis_i[start + p]
            i, pv = ns.vars()
            mk = masked(C(t, e))
            rd = read(mk[1]) if mk else None
            okf = mk is not None and Dat(mk[0]) == i and rd is not None and rd[0] == i and pv[1] == 0
            bad = []
            if okf:
                for mv in range(1, 65):
                    ln = eval_int(pv[2], {m: mv}) if not isinstance(pv[2], int) else pv[2]
                    if ln != count_term_fn(mv) * width:
                        bad.append(("length", mv, ln))
                        break
                    for p_ in (0, 1, ln - 1):
                        got = eval_int(rd[1], {m: mv, pv: p_})
                        if got != start_fn(mv) + p_:
                            bad.append(("index", mv, p_, got))
            det["bad"] = bad[:4]
            ob.add({"C12", "C36"}, okf and not bad, "ORDER+TERM", "pub/out/%s" % what,
                   "%s region: for inner i (outermost), position p in one contiguous range of count*%d felts: push pis_i[start + p] masked to zero when is_dummy_i; lengths and offsets evaluated for every M in 1..64" % (what, width),
                   e.loc, det)
            return
        if okr:
            i, s, j = vs
            mk = masked(C(t, e))
            okr = mk is not None and Dat(mk[0]) == i
            rd = read(mk[1]) if mk else None
            okr = okr and rd is not None and rd[0] == i
            bad = []
            if okr:
                for mv in range(1, 65):
                    cnt = eval_int(s[2], {m: mv}) if not isinstance(s[2], int) else s[2]
                    if cnt != count_term_fn(mv):
                        bad.append(("count", mv, cnt))
                        break
                    for sv in (0, 1, cnt - 1):
                        for jv in (0, width - 1):
                            got = eval_int(rd[1], {m: mv, s: sv, j: jv})
                            if got != start_fn(mv) + sv * width + jv:
                                bad.append(("index", mv, sv, jv, got))
                okr = not bad
                det["bad"] = bad[:4]
        ob.add({"C12", "C36"}, okr, "ORDER+TERM", "pub/out/%s" % what,
               "%s region: for inner i (outermost), element k, limb j: push pis_i[start + k*%d + j] masked to zero when is_dummy_i; counts and offsets evaluated for every M in 1..64" % (what, width), e.loc, det)

    region(items[6], "exit-slots", lambda mv: 2 * mv, OFF["EXIT_SLOT_LEN"], lambda mv: OFF["HEADER_LEN"])
    region(items[7], "nullifiers", lambda mv: mv, 4, lambda mv: OFF["HEADER_LEN"] + 2 * mv * OFF["EXIT_SLOT_LEN"])
    muts = [k for k, _, _ in seq if k.startswith("mutate")]
    ob.add({"C12"}, len(items) == 8 and not muts, "ORDER", "pub/out/append-only", "the output vector is only appended to, by exactly these 8 sites", loc0, [k for k, _, _ in items])

    # constraints
    cons = [e for e in effs if e.name in circ.CONSTRAINT_NAMES and e.name != "cb.register_public_inputs"]
    found = {}
    for e in cons:
        ops = [C(x, e) for x in circ.cb_operands(e)]
        ns = nest(e)
        cls = None
        if e.name == "cb.connect" and ns.depth() == 1 and over_inners(ns.var(0)):
            iv = ns.var(0)
            for x, y in ((ops[0], ops[1]), (ops[1], ops[0])):
                if P.const_of(y) != 1:
                    continue
                o = P.cb_args(x, "cb.or")
                if o is None:
                    continue
                o = [P.norm(z) for z in o]
                di = [Dat(z) for z in o]
                if sum(1 for d in di if d is not None) != 1:
                    continue
                i = [d for d in di if d is not None][0]
                other = [z for z, d in zip(o, di) if d is None][0]
                if i != iv:
                    continue
                eq = P.cb_args(other, "cb.is_equal")
                if eq is not None:
                    eq = [P.norm(z) for z in eq]
                    rds = [read(z) for z in eq]
                    for ref, off, nm in ((asset_ref, OFF["ASSET_ID_OFFSET"], "asset"), (fee_ref, OFF["VOLUME_FEE_BPS_OFFSET"], "fee")):
                        if ref in eq and any(r and r[0] == iv and P.const_of(r[1]) == off for r in rds):
                            cls = nm
                nmo = P.call_name(other)
                if nmo and nmo.endswith("gadgets::bytes_digest_eq"):
                    a = [P.norm(z) for z in other[4][1:]]
                    if B is not None and ("idx", B, i) in a and block_ref in a:
                        cls = "block"
                    elif inline_flags and block_ref in a and any(block_inner(z, e) == i for z in a if z != block_ref):
                        cls = "block"
        if cls is None:
            ob.add({"C13", "C10"}, False, "INV", "pub/constraint/unexpected@%s" % e.name, "a constraint outside the three metadata classes (slot contents, nullifiers and block numbers must not be cross-checked)", e.loc,
                   [T.show(x, maxdepth=5)[:300] for x in ops])
        else:
            found.setdefault(cls, []).append(e)
    for nm in ("asset", "fee", "block"):
        hs = found.get(nm, [])
        okc = len(hs) == 1 and not circ.uncond_problems(hs[0])
        ob.add({"C13"}, okc, "INV", "pub/constraint/%s" % nm, "exactly one `is_dummy_i OR %s_i == %s_ref` constraint, for every inner i in 0..n_inner (found %d)" % (nm, nm, len(hs)), hs[0].loc if hs else loc0)
    free = [e for e in effs if e.name in circ.FREE_NAMES or e.name.endswith("BoolTarget::new_unsafe")]
    ob.add({"C10"}, not free, "FREE", "pub/free-none", "the public-batch wrapper logic creates no virtual target and no unsafe boolean", free[0].loc if free else loc0)
    return ob, {"D": D, "B": B, "seq": seq, "effs": effs, "fr": fr}
