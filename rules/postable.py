"""Position-insertion tables of the three siblings (circuit select network, native insert_at_position, Lean stepUp).
A table maps position p in 0..3 to the 4 children ['cur'|'s0'|'s1'|'s2'] in slot order."""
import os
import re
from . import terms as T
from . import pat as P
from . import circ
from .facts import AnchorMissing

SPEC_TABLE = {0: ["cur", "s0", "s1", "s2"], 1: ["s0", "cur", "s1", "s2"], 2: ["s0", "s1", "cur", "s2"], 3: ["s0", "s1", "s2", "cur"]}


def native_table(ck):
    body = ck.prog.one(r"zk_merkle::insert_at_position$", "qp_zk_circuits_common")
    ck.saw(body)
    ev = T.Evaluator(ck.prog)
    table = {}
    cur = ("param", body.path, 1, "current")
    sibs = ("param", body.path, 2, "sorted_siblings")
    for p in range(4):
        fr = ev.frame(body, env={1: cur, 2: sibs, 3: ("c", p, None)})
        r = fr.return_term()
        if not (isinstance(r, tuple) and r[0] == "array" and len(r[1]) == 4):
            raise AnchorMissing("insert_at_position(pos=%d) does not return a 4-array literal: %s" % (p, T.show(r)[:200]))
        row = []
        for x in r[1]:
            if x == cur:
                row.append("cur")
            elif isinstance(x, tuple) and x[0] == "idx" and x[1] == sibs and T.is_const(x[2]):
                row.append("s%d" % x[2][1])
            else:
                row.append("?" + T.show(x)[:40])
        table[p] = row
    # out-of-range positions are an error
    fr = ev.frame(body, env={1: cur, 2: sibs, 3: ("c", 4, None)})
    r4 = fr.return_term()
    err = isinstance(r4, tuple) and r4[0] == "err"
    return table, err, "%s:%s" % (body.file, body.line)


def eval_select(t, pos_term, atoms, p):
    """evaluate a select/or/is_equal network for position value p; atoms: dict term -> name"""
    t = P.norm(t)
    if t in atoms:
        return atoms[t]
    a = P.cb_args(t, "cb.select")
    if a is not None:
        c = eval_bool(a[0], pos_term, p)
        if c is None:
            return "?cond:" + T.show(a[0])[:60]
        return eval_select(a[1] if c else a[2], pos_term, atoms, p)
    return "?" + T.show(t)[:60]


def eval_bool(t, pos_term, p):
    t = P.norm(t)
    a = P.cb_args(t, "cb.is_equal")
    if a is not None:
        x, y = P.norm(a[0]), P.norm(a[1])
        if x == pos_term and P.const_of(y) is not None:
            return p == P.const_of(y)
        if y == pos_term and P.const_of(x) is not None:
            return p == P.const_of(x)
        return None
    for nm, f in (("cb.or", lambda u, v: u or v), ("cb.and", lambda u, v: u and v)):
        a = P.cb_args(t, nm)
        if a is not None:
            u, v = eval_bool(a[0], pos_term, p), eval_bool(a[1], pos_term, p)
            if u is None or v is None:
                return None
            return f(u, v)
    a = P.cb_args(t, "cb.not")
    if a is not None:
        u = eval_bool(a[0], pos_term, p)
        return None if u is None else (not u)
    return None


def lean_defs(repo):
    """name -> body text of `def name ... :=` blocks in formal/WormholeSpec/*.lean (comments stripped)"""
    base = os.path.join(repo, "formal", "WormholeSpec")
    out = {}
    if not os.path.isdir(base):
        raise AnchorMissing("formal/WormholeSpec not found")
    for fn in sorted(os.listdir(base)):
        if not fn.endswith(".lean"):
            continue
        src = open(os.path.join(base, fn)).read()
        src = re.sub(r"/-.*?-/", "", src, flags=re.S)
        src = re.sub(r"--[^\n]*", "", src)
        for m in re.finditer(r"^(?:noncomputable\s+|private\s+|protected\s+)*(def|abbrev|structure|theorem|lemma|axiom|instance)\s+([A-Za-z0-9_.']+)(.*?)(?=^\s*(?:noncomputable\s+|private\s+|protected\s+|@\[[^\]]*\]\s*)*(?:def|abbrev|structure|theorem|lemma|axiom|instance|end|namespace|section|variable|open)\b|\Z)", src, flags=re.S | re.M):
            kind, name, rest = m.group(1), m.group(2), m.group(3)
            out.setdefault(name, (kind, rest.strip(), fn))
    return out


def lean_table(repo):
    defs = lean_defs(repo)
    if "stepUp" not in defs:
        raise AnchorMissing("Lean def stepUp not found")
    body = defs["stepUp"][1]
    table = {}
    for m in re.finditer(r"\|\s*(\d+|_)\s*=>\s*ro\.nodeHash\s+(\S+)\s+(\S+)\s+(\S+)\s+(\S+)", body):
        k = m.group(1)
        row = []
        for a in m.groups()[1:]:
            a = a.strip()
            row.append("cur" if a == "cur" else (a.split(".")[-1] if a.startswith("lvl.") else "?" + a))
        table[3 if k == "_" else int(k)] = row
    if sorted(table) != [0, 1, 2, 3]:
        raise AnchorMissing("Lean stepUp: could not read the four match arms")
    return table
