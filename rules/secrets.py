"""C32 (Debug never reveals secret / deposit-identifying data) and C33 (secret material scrubbed before release): item + taint rules."""
import re
from . import cfg, guards, e2, circ
from . import terms as T
from . import pat as P
from .pb import Ob

CIRC = "qp_wormhole_circuit"
PROVER = "qp_wormhole_prover"

SENSITIVE = {  # type suffix -> sensitive fields
    "inputs::PrivateCircuitInputs": ["secret", "transfer_count", "unspendable_account", "digest", "input_amount", "zk_merkle_siblings", "zk_merkle_positions"],
    "nullifier::Nullifier": ["secret", "transfer_count"],
    "unspendable_account::UnspendableAccount": ["account_id", "secret"],
    "zk_merkle_proof::ZkLeafData": ["to_account", "transfer_count", "input_amount"],
    "zk_merkle_proof::ZkMerkleProofData": ["siblings", "positions"],
    "block_header::header::HeaderInputs": ["digest"],
    "WormholeProver": ["partial_witness"],
}
RENDER_TRAITS = ("Debug", "Display", "Serialize", "LowerHex", "UpperHex")


def fields_read(body):
    """names of fields of `self` (local 1) read anywhere in a body: projections (*_1).f in any operand / place"""
    out = set()

    def scan_place(pl):
        if pl and pl["l"] == 1:
            for p in pl["p"]:
                if isinstance(p, dict) and "f" in p:
                    out.add(p["n"])
                    break

    def scan_op(o):
        if isinstance(o, dict):
            scan_place(o.get("c") or o.get("m"))

    for blk in body.blocks:
        for s in blk["s"]:
            r = s.get("r")
            if not r:
                continue
            for k in ("a", "b"):
                scan_op(r.get(k))
            if "p" in r:
                scan_place(r["p"])
            for o in r.get("ops", []) or []:
                scan_op(o)
        t = blk["t"]
        if t["k"] == "call":
            for a in t["args"]:
                scan_op(a)
        elif t["k"] == "switch":
            scan_op(t["d"])
    return out


def fields_read_deep(prog, body, param=1, seen=None):
    """fields of the value behind parameter `param` that are read in `body` or in any function of the program that is handed that
    value whole (`self.helper()`, `helper(self)`, through reborrows / copies of the reference).  Returns (field names, opaque): `opaque`
    lists callees that received the whole value but whose body is not in the program (nothing is known about what they read)."""
    seen = seen if seen is not None else set()
    key = (body.id, param)
    if key in seen:
        return set(), []
    seen.add(key)
    alias = {param}
    grew = True
    while grew:
        grew = False
        for blk in body.blocks:
            for st in blk["s"]:
                d, r = st.get("d"), st.get("r") or {}
                if not d or d["p"] or d["l"] in alias:
                    continue
                src = None
                if r.get("k") in ("use", "cast"):
                    o = r.get("a") or {}
                    src = o.get("c") or o.get("m")
                elif r.get("k") == "ref":
                    src = r.get("p")
                if src and src["l"] in alias and all(q == "*" for q in src["p"]):
                    alias.add(d["l"])
                    grew = True
    out, opaque = set(), []

    def scan_place(pl):
        if pl and pl["l"] in alias:
            for q in pl["p"]:
                if isinstance(q, dict) and "f" in q:
                    out.add(q["n"])
                    break

    def scan_op(o):
        if isinstance(o, dict):
            scan_place(o.get("c") or o.get("m"))

    for blk in body.blocks:
        for st in blk["s"]:
            r = st.get("r")
            if not r:
                continue
            for k in ("a", "b"):
                scan_op(r.get(k))
            if "p" in r:
                scan_place(r["p"])
            for o in r.get("ops", []) or []:
                scan_op(o)
        t = blk["t"]
        if t["k"] == "call":
            for i, a in enumerate(t["args"]):
                scan_op(a)
                pl = isinstance(a, dict) and (a.get("c") or a.get("m"))
                if pl and pl["l"] in alias and all(q == "*" for q in pl["p"]):
                    cb = prog.bodies.get(t.get("rid") or t.get("fid") or "")
                    if cb is None:
                        opaque.append(t.get("f") or "<indirect>")
                    else:
                        o2, q2 = fields_read_deep(prog, cb, i + 1, seen)
                        out |= o2
                        opaque += q2
        elif t["k"] == "switch":
            scan_op(t["d"])
    return out, opaque


def analyse32(ck):
    ob = Ob()
    prog = ck.prog
    for ty, fields in SENSITIVE.items():
        adt = prog.adt(ty)
        have = [f["n"] for v in adt["variants"] for f in v["fields"]]
        ob.add({"C32"}, all(f in have for f in fields), "ANCHOR", "table/" + ty, "sensitive fields %s exist on %s" % (fields, ty), "%s:%s" % (adt["file"], adt["line"]), have)
        ims = prog.impls_of(ty)
        for tr in RENDER_TRAITS:
            hits = [i for i in ims if (i.get("trait") or "").rsplit("::", 1)[-1] == tr]
            if tr == "Debug":
                ok = len(hits) == 1 and not hits[0]["derived"]
                ob.add({"C32"}, ok, "ITEM", "debug-manual/" + ty, "%s has a hand-written Debug impl (a #[derive(Debug)] would print the sensitive primitive fields)" % ty,
                       "%s:%s" % (hits[0]["file"], hits[0]["line"]) if hits else None, [(h.get("trait"), h["derived"]) for h in hits])
            else:
                ob.add({"C32"}, not hits, "ITEM", "no-%s/%s" % (tr.lower(), ty), "%s does not implement %s" % (ty, tr), None, [h.get("trait_ref") for h in hits])
        # TAINT inside the fmt body: no sensitive field is read
        fm = [b for b in prog.bodies.values() if b.kind == "AssocFn" and b.d.get("impl_trait", "").endswith("fmt::Debug") and (b.d.get("impl_adt") or "").endswith(ty) and b.name == "fmt"]
        if len(fm) == 1:
            ck.saw(fm[0])
            # reads in the fmt body itself and in every function `self` is handed to whole (a helper method that derives a value
            # from a sensitive field prints that field: seed C32d); a callee outside the program that receives `self` is unknown
            rd, opaque = fields_read_deep(prog, fm[0])
            rd |= fields_read(fm[0])
            leak = sorted(set(fields) & rd)
            ob.add({"C32"}, not leak and not opaque and not prog.closures_of(fm[0]), "TAINT", "debug-redacts/" + ty,
                   "the Debug impl of %s never reads %s, itself or through a function it passes `self` to (fields read: %s)" % (ty, fields, sorted(rd)),
                   "%s:%s" % (fm[0].file, fm[0].line), {"leak": leak, "self passed to unknown code": opaque})
        else:
            ob.add({"C32"}, False, "ANCHOR", "debug-body/" + ty, "exactly one Debug::fmt body for %s (found %d)" % (ty, len(fm)))
    # the secret wrappers implement no rendering trait at all
    for ty in ("sensitive::Secret", "sensitive::SensitiveFelts"):
        ims = prog.impls_of(ty)
        hits = [i.get("trait_ref") for i in ims if (i.get("trait") or "").rsplit("::", 1)[-1] in RENDER_TRAITS + ("Clone", "Copy")]
        ob.add({"C32", "C33"}, not hits, "ITEM", "no-render-no-clone/" + ty, "%s implements none of Debug/Display/Serialize/Clone/Copy" % ty, None, hits)
    # containment closure: any production type holding a table type by value may derive Debug only because the field's own impl redacts;
    # a production type that holds a *primitive copy* of sensitive data is in the table above. Check that no other type in the circuit/prover
    # crates has a field literally named like a secret with a primitive type and a derived Debug.
    suspicious = []
    for path, adt in prog.adts.items():
        if adt["crate"] not in (CIRC, PROVER) or any(path.endswith(t) for t in SENSITIVE):
            continue
        dbg = [i for i in prog.impls_of(path.split("::", 1)[1]) if (i.get("trait") or "").endswith("fmt::Debug") and i.get("adt") == path]
        if not dbg or not dbg[0]["derived"]:
            continue
        for v in adt["variants"]:
            for f in v["fields"]:
                if f["n"] in ("secret", "preimage", "input_amount", "transfer_count", "unspendable_account") and not re.search(r"Target|Secret|SensitiveFelts", f["ty"]):
                    suspicious.append((path, f["n"], f["ty"]))
    ob.add({"C32"}, not suspicious, "ITEM", "no-derived-debug-on-secret-fields", "no other type in the circuit/prover crates derives Debug over a raw (non-target, non-wrapper) secret-named field", None, suspicious)
    return ob


def _carrier(ty):
    """a type that can hold a mutable pointer into someone else's storage: `&mut T`, `Option<&mut T>`, `IterMut<T>`, `&mut IterMut<..>` …"""
    return "&mut" in ty or "*mut" in ty or "Mut<" in ty


def _op_local(o):
    pl = isinstance(o, dict) and (o.get("c") or o.get("m"))
    return pl["l"] if pl else None


def _derived_pointers(body, roots):
    """locals of `body` that hold a mutable pointer DERIVED from one of the `roots` (pointer-typed locals): reborrows of a place reached
    through such a pointer, moves of the pointer, and results of calls that were handed one and return a pointer-carrying type (an
    elided lifetime ties the returned `&mut` to the `&mut` argument).  A value COPIED out of the pointee (`let mut b = *self.0`) is
    not a pointer: scrubbing it leaves the original untouched."""
    S = set(roots)
    changed = True
    while changed:
        changed = False
        for blk in body.blocks:
            if blk["cleanup"]:
                continue
            for s in blk["s"]:
                r, d = s.get("r"), s.get("d")
                if not r or not d or d["p"] or d["l"] in S:
                    continue
                ok = False
                if r["k"] == "ref" and r.get("mut") and r["p"]["l"] in S:
                    ok = True
                elif r["k"] == "use" and _op_local(r.get("a")) in S and _carrier(body.local_ty(d["l"])):
                    ok = True
                elif r["k"] == "cast" and _op_local(r.get("a")) in S and _carrier(body.local_ty(d["l"])):
                    ok = True
                if ok:
                    S.add(d["l"])
                    changed = True
            t = blk["t"]
            if t["k"] == "call" and t.get("dest") and not t["dest"]["p"] and t["dest"]["l"] not in S:
                if any(_op_local(a) in S for a in t["args"]) and _carrier(body.local_ty(t["dest"]["l"])):
                    S.add(t["dest"]["l"])
                    changed = True
    return S


def scrubs_in_place(prog, e, root_body, root_local):
    """the zeroize call `e` writes THROUGH a mutable pointer derived from `root_local` of `root_body` (not into a copy of the bytes).
    The call may sit in root_body itself or in a closure that root_body hands to a call whose receiver is such a pointer
    (`self.0.iter_mut().for_each(|f| f.0.zeroize())`)."""
    body = e.frame.body
    arg = _op_local(e.raw["args"][0])
    if body.id == root_body.id:
        return arg in _derived_pointers(body, {root_local})
    if body.kind != "Closure" or body.d.get("parent", body.d.get("root")) != root_body.id:
        return False
    S = _derived_pointers(root_body, {root_local})
    handed = False
    held = set()
    for blk in root_body.blocks:
        for s in blk["s"]:
            r = s.get("r") or {}
            if r.get("k") == "agg" and r["ak"].get("t") == "closure" and r["ak"].get("id") == body.id:
                held.add(s["d"]["l"])
            elif r.get("k") == "use" and _op_local(r.get("a")) in held and not s["d"]["p"]:
                held.add(s["d"]["l"])
    for blk in root_body.blocks:
        t = blk["t"]
        if t["k"] == "call" and any(_op_local(a) in held for a in t["args"]) and any(_op_local(a) in S for a in t["args"]):
            handed = True
    if not handed:
        return False
    roots = set(i for i in range(2, body.argc + 1) if _carrier(body.local_ty(i)))
    return arg in _derived_pointers(body, roots)


def analyse33(ck):
    ob = Ob()
    prog = ck.prog
    # Drop impls
    for ty in ("sensitive::Secret", "sensitive::SensitiveFelts"):
        d = prog.impls_of(ty, "Drop")
        ob.add({"C33"}, len(d) == 1 and not d[0]["derived"], "ITEM", "drop/" + ty, "%s has a Drop impl" % ty, "%s:%s" % (d[0]["file"], d[0]["line"]) if d else None)
    sd = e2.MethodView(ck, r"sensitive::Secret as core::ops::drop::Drop>::drop$", CIRC)
    z = [e for e in sd.effects if e.raw.get("name") == "zeroize"]
    ob.add({"C33"}, len(z) == 1 and P.param_path(z[0].args[0]) == "self.0" and not circ.uncond_problems(z[0]) and scrubs_in_place(prog, z[0], sd.body, 1), "TERM", "drop/secret-zeroizes-all",
           "Secret::drop zeroizes self.0 (the whole 32-byte array), unconditionally and in place (through a mutable borrow derived from `self`, not a copy of the bytes)", z[0].loc if z else sd.loc0)
    fd = e2.MethodView(ck, r"sensitive::SensitiveFelts as core::ops::drop::Drop>::drop$", CIRC)
    z = [e for e in fd.effects if e.raw.get("name") == "zeroize"]
    ok = len(z) == 1
    if ok:
        lp = circ.loops_of(z[0])
        ok = len(lp) == 1 and P.param_path(lp[0]) == "self.0" and P.norm(z[0].args[0]) == ("fld", ("elem", lp[0]), "0") and not [c for c in circ.uncond_problems(z[0])]
        ok = ok and scrubs_in_place(prog, z[0], fd.body, 1)
    ob.add({"C33"}, ok, "TERM", "drop/felts-zeroizes-every-element", "SensitiveFelts::drop zeroizes the inner u64 of every element of self.0 (loop over the whole vector, no early exit), in place (through `iter_mut`-style mutable borrows, not copies)", z[0].loc if z else fd.loc0)
    # the wrapper keeps the very buffer it is handed: the pre-sizing rule below ends at "moved into SensitiveFelts::new", so a
    # conversion inside `new` that may reallocate (into_boxed_slice / shrink_to_fit / to_vec / collect) would free the caller's
    # block unscrubbed behind it (seed C33d)
    fnew = e2.MethodView(ck, r"sensitive::SensitiveFelts::new$", CIRC)
    rt = P.norm(fnew.fr.return_term())
    kept = isinstance(rt, tuple) and rt and rt[0] == "adt" and len(rt[3]) == 1 and P.norm(rt[3][0][1]) == fnew.param(1)
    # (the term view reads conversions as the identity, so the by-value flow is followed in the MIR: no call consumes the parameter
    # or a moved copy of it, or a `&mut` to it — a shared borrow, e.g. for a length assertion, is not a consumption)
    owned = {1}
    grew = True
    while grew:
        grew = False
        for blk in fnew.body.blocks:
            for st in blk["s"]:
                d, r = st.get("d"), st.get("r") or {}
                if d and not d["p"] and r.get("k") == "use" and _op_local(r.get("a") or {}) in owned and d["l"] not in owned:
                    owned.add(d["l"])
                    grew = True
    touched = _derived_pointers(fnew.body, owned)     # the owned locals and every `&mut` into them (shrink_to_fit / reserve / push take `&mut self`)
    consumers = [(bb, t) for bb, t in fnew.body.calls() if any(_op_local(a) in touched for a in t.get("args", []))]
    kept = kept and not consumers
    ob.add({"C33"}, kept, "TERM", "felts-new/keeps-buffer", "SensitiveFelts::new stores its argument itself (the wrapped value is the parameter, not the result of a conversion that may move the elements to another allocation)",
           fnew.loc0, T.show(rt, maxdepth=4)[:300])
    # not clonable
    for ty in ("sensitive::Secret", "nullifier::Nullifier", "unspendable_account::UnspendableAccount", "inputs::PrivateCircuitInputs", "inputs::CircuitInputs"):
        hits = [i.get("trait_ref") for i in prog.impls_of(ty) if (i.get("trait") or "").rsplit("::", 1)[-1] in ("Clone", "Copy")]
        ob.add({"C33"}, not hits, "ITEM", "no-clone/" + ty, "%s is neither Clone nor Copy (a secret cannot be duplicated into unscrubbed storage)" % ty, None, hits)
    # Secret::new scrubs its source on every path
    sn = e2.MethodView(ck, r"sensitive::Secret::new$", CIRC)
    z = sn.calls(lambda t: t.get("name") == "zeroize")
    ok = len(z) == 1 and P.norm(sn.fr.operand_term(z[0][1]["args"][0])) == sn.param(1) and cfg.postdominates(sn.body, z[0][0], 0)
    ok = ok and _op_local(z[0][1]["args"][0]) in _derived_pointers(sn.body, {1})   # the caller's buffer itself, not a copy of it
    early = [g for g in sn.gt if g["outcome"] & {"err"}]
    ob.add({"C33"}, ok and not [g for g in early if not cfg.dominates(sn.body, z[0][0], g["bb"])], "DOM", "secret-new/zeroize-postdominates", "Secret::new zeroizes the caller's buffer on every path (the call post-dominates entry; no `?` before it)", sn.body.loc(z[0][0]) if z else sn.loc0)
    # return-type rule for functions that expose secret bytes
    exposers = {}
    for b, bb, t in prog.call_sites(r"sensitive::Secret::(expose_felts|expose_digest|as_bytes)$"):
        root = e2.root_of(prog, b)
        exposers.setdefault(root.path, root)
    n_heap = 0
    for path, root in sorted(exposers.items()):
        if root.crate not in (CIRC, PROVER) or root.path.endswith(("Secret::expose_felts", "Secret::expose_digest")):
            continue
        fi = prog.fn_item(root)
        out = fi["output"] if fi else ""
        heap = bool(re.search(r"\bVec<|\bString\b|\bBox<", out))
        wrapped = bool(re.search(r"Zeroizing<|SensitiveFelts", out))
        if heap:
            n_heap += 1
        ob.add({"C33"}, (not heap) or wrapped, "ITEM", "exposer-return/" + path.split("::", 1)[1], "a function that exposes secret bytes returns no bare heap buffer (returns `%s`)" % out[:90], "%s:%s" % (root.file, root.line))
    ob.add({"C33"}, len(exposers) >= 5, "ITEM", "exposer-return/floor", "%d functions expose secret material (floor 5)" % len(exposers))
    # pre-sized buffers moved into a scrubbing wrapper
    for rx, wrapper in ((r"nullifier::Nullifier::from_preimage$", "SensitiveFelts::new"), (r"nullifier::Nullifier::to_bytes$", "Zeroizing"), (r"nullifier::Nullifier::to_field_elements$", "SensitiveFelts::new"),
                        (r"unspendable_account::UnspendableAccount::from_secret$", "SensitiveFelts::new"), (r"unspendable_account::UnspendableAccount::to_bytes$", "Zeroizing")):
        mv = e2.MethodView(ck, rx, CIRC)
        wc = [e for e in mv.effects if e.raw.get("name") == "with_capacity" and "Vec" in (e.path or "")]
        newv = [e for e in mv.effects if e.raw.get("name") == "new" and (e.path or "").startswith("alloc::vec::Vec")]
        ok = len(wc) == 1 and not newv
        det = {}
        if ok:
            cont = P.norm(wc[0].result)
            cap = P.const_of(wc[0].args[0])
            apps = T.contents(mv.effects, cont)
            known = 0
            unknown = []
            for k, tm, e in apps:
                # statically known length of what is appended: array-typed operand
                a = e.raw["args"][-1]
                pl = a.get("c") or a.get("m")
                ty = e.frame.body.local_ty(pl["l"]) if pl and not pl["p"] else ""
                m = re.search(r";\s*(\d+)\]", ty)
                if m:
                    known += int(m.group(1))
                else:
                    unknown.append(T.show(tm)[:60])
            wrapped = [e for e in mv.effects if (wrapper in (e.raw.get("f") or "") + (e.raw.get("r") or "") or (wrapper == "Zeroizing" and "Zeroizing" in (e.raw.get("f") or ""))) and e.args and P.norm(e.args[0]) == cont]
            # only the salt (non-secret, appended first) may have a length the analysis cannot see
            salt_only = all("string_to_felts" in u for u in unknown)
            salt_decl = 0
            if unknown:
                try:
                    salt_decl = prog.const_value("nullifier::SALT_NUM_TARGETS")
                except Exception:
                    salt_decl = 0
            ok = cap is not None and cap >= known + (salt_decl if unknown else 0) and salt_only and len(wrapped) == 1
            # no other use of the raw vector after wrapping: every effect taking the raw container is an append or the wrapper
            others = [e for e in mv.effects if e.args and any(P.norm(a) == cont for a in e.args) and e not in wrapped and e.raw.get("name") not in T.APPENDERS and e.raw.get("name") not in ("len",)]
            ok = ok and not others
            det = {"capacity": cap, "known_appended": known, "unknown": unknown, "wrapped": len(wrapped), "other_uses": [e.name for e in others]}
        ob.add({"C33"}, ok, "TAINT", "presized/" + mv.body.path.split("::", 1)[1], "the secret-bearing buffer is created with_capacity >= everything appended (no reallocation leaves an unscrubbed copy) and is moved into %s before any other use" % wrapper,
               wc[0].loc if wc else mv.loc0, det)
    # forbid(unsafe_code) on the circuit crate
    attrs = " ".join(prog.crate_attrs.get(CIRC + ".lib", []))
    ob.add({"C33"}, "forbid" in attrs and "unsafe_code" in attrs, "ITEM", "forbid-unsafe", "the circuit crate carries #![forbid(unsafe_code)] (no raw-pointer path around the wrappers)")
    return ob
