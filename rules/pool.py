"""Rules over wormhole/aggregator/src/pool.rs shared by C19 (admission order), C20 (state invariants), C21 (exit paths), C22 (verify budget)."""
import re
from . import cfg, guards, e2
from . import terms as T
from . import pat as P
from .pb import Ob

AGG = "qp_wormhole_aggregator"
POOL = AGG + "::pool::ProofPool::"
STATE_FIELDS = ["buckets", "nullifier_index"]


def fp(t, path):
    return P.param_path(t) == path


def analyse(ck):
    ob = Ob()
    prog = ck.prog
    methods = {}
    for b in prog.find(r"^" + POOL.replace("::", "::") + r"\w+$", AGG):
        if b.kind != "Closure":
            methods[b.path[len(POOL):]] = b
    ob.add({"C19", "C20", "C21", "C22"}, set(["new", "push", "evict_settled", "evict_older_than", "remove_bucket", "snapshot_batch", "bucket_stats", "parse_metadata"]) <= set(methods),
           "ANCHOR", "pool/methods", "ProofPool methods present: %s" % sorted(methods))

    views = {}

    def view(name):
        if name not in views:
            # private helpers of ProofPool other than the named anchors are expanded in place (an extracted helper is the same code)
            views[name] = e2.MethodView(ck, "^" + (POOL + name).replace("::", "::") + "$", AGG, keep={"parse_metadata"})
        return views[name]

    # ================================================================ push
    v = view("push")
    body = v.body
    self_ = v.param(1)
    # --- sites
    g_cap = v.rejects("Ge", lambda t: P.call_name(t) == POOL + "len", lambda t: fp(t, "self.limits.max_proofs"))
    c_parse = v.calls(lambda t: t.get("name") == "parse_metadata")
    g_dummy = v.guards_where(lambda g: P.call_name(g["cond"]) is not None and P.call_name(g["cond"]).endswith("pool::BatchKey::is_dummy") and g["fail_when"] is True)
    g_budget = v.rejects("Ge", lambda t: "verifies_in_window" in T.show(t) and (fp(t, "self.verifies_in_window") or (isinstance(t, tuple) and t[0] == "phi")), lambda t: fp(t, "self.limits.max_verifies_per_window"))
    c_verify = v.calls(lambda t: t.get("name") == "verify" and (t.get("impl_adt") or "").endswith("VerifierCircuitData"))
    g_bcap = v.rejects("Ge", lambda t: isinstance(t, tuple) and t[0] == "len" and fp(t[1], "self.buckets"), lambda t: fp(t, "self.limits.max_buckets"))
    _ex = {}

    def exists_guard(g):
        """(collection, predicate term over ("elem", collection)) when the guard fails iff SOME element of a collection satisfies a
        predicate — every form e2.MethodView.exists_guards knows: `any(..)`, a loop with an inner guard, `find(..)` + `if let Some`,
        `ensure!(all(|x| !p(x)))`"""
        if not _ex:
            _ex["t"] = {id(g_): (P.norm(coll_), P.norm(pred_)) for g_, coll_, pred_ in v.exists_guards()}
        return _ex["t"].get(id(g))

    def in_index(pred, coll):
        """pred == self.nullifier_index.contains_key(<the element>)"""
        if not (P.call_name(pred) or "").endswith("::contains_key") or len(pred[4]) != 2:
            return False
        recv = P.norm(pred[4][0])
        while isinstance(recv, tuple) and recv and recv[0] == "upd":
            recv = P.norm(recv[2])
        return (fp(recv, "self.nullifier_index") or "nullifier_index" in T.show(recv, maxdepth=3)) and P.norm(pred[4][1]) == ("elem", coll)

    g_dup = v.guards_where(lambda g: exists_guard(g) is not None and in_index(exists_guard(g)[1], exists_guard(g)[0]))
    sites = {"capacity": g_cap, "parse": c_parse, "dummy-key": g_dummy, "budget": g_budget, "verify": c_verify, "bucket-cap": g_bcap, "duplicate": g_dup}
    for k, hits in sites.items():
        loc = (hits[0]["loc"] if isinstance(hits[0], dict) else body.loc(hits[0][0])) if hits else v.loc0
        ob.add({"C19"} | ({"C22"} if k in ("budget", "verify") else set()), len(hits) == 1, "CMP", "push/site/" + k, "exactly one `%s` site in ProofPool::push (found %d)" % (k, len(hits)), loc)
    if not all(len(h) == 1 for h in sites.values()):
        return ob
    # error outcomes
    for k in ("capacity", "dummy-key", "budget", "bucket-cap", "duplicate"):
        g = sites[k][0]
        ob.add({"C19"}, g["outcome"] <= {"err"}, "CMP", "push/rejects/" + k, "the `%s` guard's failing edge returns Err (no panic, no fall-through)" % k, g["loc"], sorted(g["outcome"]))
    # duplicate check really consults the nullifier index for every nullifier of the proof
    dupc = sites["duplicate"][0]["cond"]
    dcoll, dpred = exists_guard(sites["duplicate"][0])
    # the collection quantified over is the nullifier list of this proof's parsed metadata (component 1 of parse_metadata's result)
    # (parse_metadata returns its three results as a tuple or as a private struct: the component is identified by what it holds)
    pmc = _metadata_components(view("parse_metadata"))
    dup_ok = (in_index(dpred, dcoll) and isinstance(dcoll, tuple) and dcoll and dcoll[0] == "fld" and (P.call_name(P.norm(dcoll[1])) or "").endswith("parse_metadata")
              and pmc is not None and dcoll[2] == pmc["nullifiers"][0])
    ob.add({"C19", "C20"}, dup_ok, "TERM", "push/duplicate/predicate", "duplicate rule = any(nullifier of the parsed proof is a key of self.nullifier_index)", sites["duplicate"][0]["loc"], T.show(dupc, maxdepth=5)[:300])
    # bucket-cap bypass for existing buckets
    ck_contains = [g for g in v.gt if False]
    bc = sites["bucket-cap"][0]
    cdeps = cfg.control_deps_closed(body).get(bc["bb"], set())
    contains_guard = False
    for (a, b_) in cdeps:
        t = body.blocks[a]["t"]
        if t["k"] == "switch":
            d = v.fr.operand_term(t["d"])
            s = T.show(d, maxdepth=6)
            if "contains_key" in s and "buckets" in s:
                contains_guard = True
    ob.add({"C19"}, contains_guard, "CMP", "push/bucket-cap/existing-bucket-exempt", "the bucket limit applies only when the key has no bucket yet (`!buckets.contains_key(key) && ...`)", bc["loc"])

    # --- budget bookkeeping
    stores_cnt = v.field_stores("verifies_in_window")
    stores_ws = v.field_stores("verify_window_started")
    inc = [(bb, val) for bb, val in stores_cnt if isinstance(val, tuple) and (val[0] == "bin" and val[1].startswith("Add") and P.const_of(val[3]) == 1 or (val[0] == "fld" and isinstance(val[1], tuple) and val[1][0] == "bin" and val[1][1].startswith("Add")))]
    rst = [(bb, val) for bb, val in stores_cnt if P.const_of(val) == 0]
    ob.add({"C19", "C22"}, len(inc) == 1 and len(rst) == 1 and len(stores_cnt) == 2, "WMW", "push/budget/writes", "verifies_in_window is written exactly twice in push: reset to 0 and += 1", body.loc(inc[0][0]) if inc else v.loc0,
           [(bb, T.show(val)[:80]) for bb, val in stores_cnt])
    # verify call shape
    vb, vt = c_verify[0]
    vargs = [v.fr.operand_term(a) for a in vt["args"]]
    ob.add({"C19", "C22"}, fp(vargs[0], "self.verifier") and P.norm(vargs[1]) == v.param(2), "TERM", "push/verify/operands", "verification = self.verifier.verify(the submitted proof)", body.loc(vb), [T.show(a)[:80] for a in vargs])

    # --- DOM chain
    def ok_block(k):
        h = sites[k][0]
        if isinstance(h, dict):
            if k == "duplicate":
                # loop form (`for n in .. { if index.contains_key(n) { bail } }`): the rule has passed when the loop is left
                for x in v.fr.ctrl_of_block(h["bb"]):
                    if x[0] == "loop" and tuple(x[2]) == ("1",) and P.norm(x[1]) == exists_guard(h)[0]:
                        ex = [s for s in cfg.succs(body)[x[3]] if "0" in cfg.switch_edge_value(body, x[3], s)]
                        return ex[0] if len(ex) == 1 else None
            return v.ok_succ(h)
        return v.call_ok_block(h[0])

    def blk(k):
        h = sites[k][0]
        return h["bb"] if isinstance(h, dict) else h[0]

    chain = ["capacity", "parse", "dummy-key", "budget", "verify", "bucket-cap", "duplicate"]
    # the bucket-cap rule is a conjunction: its first test (contains_key) is the block that must precede the duplicate rule
    bc_first = None
    for (a_, b__) in cfg.control_deps_closed(body).get(bc["bb"], set()):
        t_ = body.blocks[a_]["t"]
        if t_["k"] == "switch" and "contains_key" in T.show(v.fr.operand_term(t_["d"]), maxdepth=6):
            bc_first = a_
    for a, b_ in zip(chain, chain[1:]):
        oa = ok_block(a)
        ok = oa is not None and v.dom(oa, blk(b_))
        if (a, b_) == ("bucket-cap", "duplicate"):
            ok = bc_first is not None and v.dom(bc_first, blk(b_)) and bc_first != blk(b_)
        ob.add({"C19"} | ({"C22"} if (a, b_) == ("budget", "verify") else set()), ok, "DOM", "push/order/%s<%s" % (a, b_),
               "`%s` succeeds before `%s` is evaluated (dominance of the success edge)" % (a, b_), body.loc(blk(b_)))
    if inc:
        ib = inc[0][0]
        ob.add({"C19", "C22"}, ok_block("budget") is not None and v.dom(ok_block("budget"), ib) and v.dom(ib, blk("verify")) and ib != blk("verify") or (ib == blk("verify")),
               "DOM", "push/order/budget<increment<verify", "the attempt counter is incremented after the budget check and before verify is called (failed verifications are counted)", body.loc(ib))
        vok = v.call_ok_block(blk("verify"))
        ob.add({"C22"}, vok is not None and not v.dom(vok, ib), "DOM", "push/budget/increment-not-on-success-edge", "the increment is not conditional on a successful verification", body.loc(ib))
    vok = v.call_ok_block(blk("verify"))
    for k in ("bucket-cap", "duplicate"):
        fails = v.fail_succ(sites[k][0])
        ok = vok is not None and all(v.dom(vok, f) for f in fails) and bool(fails)
        ob.add({"C19"}, ok, "DOM", "push/order/verify-ok<%s-rejection" % k, "the `%s` rejection is reachable only after a successful verification (no free membership oracle)" % k, sites[k][0]["loc"])
    # reset block: guarded by the window comparison, sets both fields
    if rst and stores_ws:
        rb = rst[0][0]
        gw = v.guards_where(lambda g: False)
        cdeps = cfg.control_deps_closed(body).get(rb, set())
        good = False
        det = []
        for (a, b_) in cdeps:
            t = body.blocks[a]["t"]
            if t["k"] != "switch":
                continue
            d = v.fr.operand_term(t["d"])
            det.append(T.show(d, maxdepth=5)[:200])
            if isinstance(d, tuple) and d[0] == "bin" and d[1] == "Ge" and "duration_since" in T.show(d[2]) and "verify_window_started" in T.show(d[2]) and fp(d[3], "self.limits.verify_window"):
                vals = cfg.switch_edge_value(body, a, b_)
                good = vals == ["else"]
        same = any(bb == rb or v.dom(bb, rb) or v.dom(rb, bb) for bb, _ in stores_ws) and len(stores_ws) == 1
        ws_now = stores_ws and "now" in T.show(stores_ws[0][1])
        ob.add({"C22"}, good and same and ws_now, "CMP+WMW", "push/budget/window-reset",
               "the counter restarts only in the block guarded by `now.duration_since(verify_window_started) >= verify_window`, which also sets verify_window_started = now", body.loc(rb), det)
        ob.add({"C22"}, v.dom(rb, blk("budget")) or cfg.reaches(body, rb, blk("budget")), "DOM", "push/budget/reset-before-check", "the reset precedes the budget comparison", body.loc(rb))
    # --- mutations only after the last guard; no error after a mutation
    muts = []
    for f in STATE_FIELDS:
        muts += [e for e in v.mutator_effects(f) if e.raw.get("name") not in ("contains_key", "get", "len", "values", "iter")]
    mut_blocks = sorted(set(e.bb for e in muts if e.frame is v.fr))
    dko = ok_block("duplicate")
    ob.add({"C19", "C20"}, bool(muts) and dko is not None and all(v.dom(dko, bb) for bb in mut_blocks), "DOM", "push/mutations-after-all-guards",
           "every write to buckets / nullifier_index in push is dominated by the success edge of the last admission rule", muts[0].loc if muts else v.loc0, [(e.name.rsplit("::", 1)[-1], e.loc) for e in muts])
    err_after = []
    for bb in mut_blocks:
        oc = v.F.outcomes(bb, "unset")
        if "err" in oc:
            err_after.append((bb, sorted(oc)))
    ob.add({"C19"}, not err_after, "NOERR-AFTER", "push/no-error-after-mutation", "no Err return is reachable once the pool has been mutated (a rejected push leaves the pool unchanged)", v.loc0, err_after)
    # writes before the guards: only the two budget fields
    early = [(bi, names) for bi, names in v.self_field_writes() if names[0] not in ("verifies_in_window", "verify_window_started")]
    ob.add({"C19"}, not early, "WMW", "push/direct-field-writes", "push assigns directly only to verifies_in_window and verify_window_started", v.loc0, early)
    # insertion pairing
    # index writes, as (collection, key, effect): `for n in C { index.insert(*n, key) }` or `index.extend(C.iter().map(|n| (*n, key)))`
    ins = []
    idx_other = []
    for e in muts:
        if "nullifier_index" not in (v.receiver_path(e) or T.show(e.args[0], maxdepth=4)):
            continue
        nm_ = e.raw.get("name")
        lp_ = e2_loops(e)
        if nm_ == "insert" and len(lp_) == 1 and len(e.args) == 3 and P.norm(e.args[1]) == ("elem", lp_[0]):
            ins.append((P.norm(lp_[0]), P.norm(e.args[2]), e))
        elif nm_ == "extend" and not lp_ and isinstance(P.norm(e.args[1]), tuple) and P.norm(e.args[1])[0] == "map":
            a_ = P.norm(e.args[1])
            el_ = P.norm(v.fr.elem(a_))
            if isinstance(el_, tuple) and el_[0] == "tuple" and len(el_[1]) == 2 and P.norm(el_[1][0]) == ("elem", P.norm(a_[1])):
                ins.append((P.norm(a_[1]), P.norm(el_[1][1]), e))
            else:
                idx_other.append(e)
        else:
            idx_other.append(e)
    ent = [e for e in muts if e.raw.get("name") == "entry"]
    psh = [e for e in v.effects if e.raw.get("name") == "push" and "or_default" in T.show(e.args[0], maxdepth=6)]
    ok = len(ins) == 1 and not idx_other and len(ent) == 1 and len(psh) == 1
    det = None
    if ok:
        coll_i, key_i = ins[0][0], ins[0][1]
        key_e = P.norm(ent[0].args[1])
        pushed = P.norm(psh[0].args[1])
        ok = key_i == key_e
        if ok and isinstance(pushed, tuple) and pushed[0] == "adt":
            d = dict(pushed[3])
            ok = P.norm(d.get("nullifiers")) == coll_i and P.norm(d.get("proof")) == v.param(2)
            det = {"key": T.show(key_i)[:120], "loop": T.show(coll_i)[:120], "stored": {k: T.show(x)[:80] for k, x in d.items()}}
        else:
            ok = False
    ins = [x[2] for x in ins]
    ob.add({"C20"}, ok, "PAIR", "push/index-paired-with-proof",
           "push inserts every nullifier of the stored proof into the index under the same key used for buckets.entry, and stores that nullifier list with the proof", ins[0].loc if ins else v.loc0, det)

    # ================================================================ parse_metadata
    pm = view("parse_metadata")
    rt = None
    oks = [m for m in _ok_members(pm.fr.return_term())]
    good = False
    det = None
    pmc = _metadata_components(pm)
    if pmc is not None:
        keyt = pmc["key"][1]
        if isinstance(keyt, tuple) and keyt[0] == "adt":
            d = dict(keyt[3])
            offs = {}
            for fld_, off_name in (("asset_id", "ASSET_ID_OFFSET"), ("volume_fee_bps", "VOLUME_FEE_BPS_OFFSET")):
                want = prog.const_value("private_batch::circuit::constants::aggregated_output::" + off_name)
                offs[fld_] = any(s and s[0] == "idx" and P.const_of(s[2]) == want and "public_inputs" in T.show(s[1]) for s in T.walk(d.get(fld_)))
            bh = prog.const_value("private_batch::circuit::constants::aggregated_output::BLOCK_HASH_OFFSET")
            bht = T.show(d.get("block_hash"), maxdepth=8)
            offs["block_hash"] = ("BLOCK_HASH_OFFSET=%d" % bh) in bht and "try_4_felts_to_bytes" in bht
            good = all(offs.values())
            det = offs
    ob.add({"C19", "C21"}, good, "AGREE", "parse_metadata/key-offsets", "BatchKey fields are read at aggregated_output::{BLOCK_HASH,ASSET_ID,VOLUME_FEE_BPS}_OFFSET of the proof's public inputs", pm.loc0, det)
    lg = pm.rejects("Ne", lambda t: isinstance(t, tuple) and t[0] == "len", lambda t: "num_public_inputs" in T.show(t))
    first_idx = [bb for bb, t in pm.body.calls() if t.get("name") in ("index", "try_4_felts_to_bytes")]
    ob.add({"C19"}, len(lg) == 1 and "err" in lg[0]["outcome"] and all(pm.dom(pm.ok_succ(lg[0]), bb) for bb in first_idx), "CMP+DOM", "parse_metadata/length-first",
           "public-input length is compared with the verifier's num_public_inputs before any slicing", lg[0]["loc"] if lg else pm.loc0)

    # ================================================================ who may write the state (C20/C21)
    writers = {f: set() for f in STATE_FIELDS}
    removers = set()
    for name in methods:
        if (methods[name].d.get("vis") or "pub") != "pub" and name not in e2._known_fn_names():
            continue   # a new private helper method: it is expanded into (and accounted to) the methods that call it
        mv = view(name)
        for f in STATE_FIELDS:
            es = [e for e in mv.mutator_effects(f)]
            if es:
                writers[f].add(name)
            for e in es:
                if e.raw.get("name") in ("remove", "retain", "clear", "drain", "pop", "truncate", "swap_remove", "into_iter", "split_off", "take") and f == "buckets":
                    removers.add(name)
    allowed_b = {"push", "evict_settled", "evict_older_than", "remove_bucket", "snapshot_batch"}
    ob.add({"C20", "C21"}, writers["buckets"] == allowed_b, "WMW", "state/buckets-writers", "functions that mutate (or take &mut into) self.buckets: %s" % sorted(writers["buckets"]), None, sorted(allowed_b))
    ob.add({"C20", "C21"}, writers["nullifier_index"] == {"push", "evict_settled", "evict_older_than", "remove_bucket"}, "WMW", "state/index-writers",
           "functions that mutate self.nullifier_index: %s" % sorted(writers["nullifier_index"]))
    ob.add({"C21"}, removers == {"evict_settled", "evict_older_than", "remove_bucket"}, "WMW", "state/removers", "proofs / buckets are removed only by evict_settled, evict_older_than, remove_bucket: %s" % sorted(removers))
    # outside ProofPool nobody touches the fields (they are private): check field visibility
    adt = prog.adt("pool::ProofPool")
    priv = all(f["vis"] not in ("pub",) for var in adt["variants"] for f in var["fields"] if f["n"] in ("buckets", "nullifier_index", "verifies_in_window", "verify_window_started", "verifier", "limits"))
    ob.add({"C19", "C20", "C21", "C22"}, priv, "ITEM", "state/private-fields", "ProofPool's state fields are not public")

    # ================================================================ eviction pairing (C20/C21)
    for name, pred_desc in (("evict_settled", "any(nullifier in settled)"), ("evict_older_than", "now - admitted_at > max_age")):
        mv = view(name)
        rets = [e for e in mv.effects if e.raw.get("name") == "retain" and "proofs" in T.show(e.args[0], maxdepth=6)]
        if not rets:
            # The eviction is not written as `proofs.retain(|q| ..)` (a partition, a drain, two passes ..): the exact pairing argument
            # below does not apply to this form.  Decided instead, as necessary conditions only: (a) the index is un-keyed by walking a
            # proof's OWN nullifier list, whole (`for n in &q.nullifiers`, `flat_map(|q| &q.nullifiers)`), not some other key set;
            # (b) the documented selection test occurs in the function; (c) buckets are dropped somewhere in it.
            bodies_ = [mv.body] + _closures_of(prog, mv.body)
            rmi_ = [e for e in mv.effects if e.raw.get("name") == "remove" and "nullifier_index" in T.show(e.args[0], maxdepth=4)]
            def own_list(e_):
                k_ = P.norm(e_.args[1])
                if not (isinstance(k_, tuple) and k_ and k_[0] == "elem"):
                    return False
                src_ = P.norm(k_[1])
                if isinstance(src_, tuple) and src_ and src_[0] == "fld" and src_[2] == "nullifiers":
                    return True
                if isinstance(src_, tuple) and src_ and src_[0] == "call" and src_[2].endswith("::flat_map") and len(src_[4]) == 2 and isinstance(src_[4][1], tuple) and src_[4][1][0] == "closure":
                    per_ = P.norm(mv.fr.closure_ret(src_[4][1], [("elem", P.norm(src_[4][0]))], site_hint=src_[1]))
                    return per_ == ("fld", ("elem", P.norm(src_[4][0])), "nullifiers")
                return False
            wa = bool(rmi_) and all(own_list(e_) for e_ in rmi_)
            names_ = set(t_.get("name") for b_ in bodies_ for _, t_ in b_.calls())
            if name == "evict_settled":
                wb = bool(names_ & {"contains", "contains_key", "get", "is_disjoint"})
            else:
                wb = "saturating_duration_since" in names_ or "duration_since" in names_
            wc = any(e_.raw.get("name") in ("remove", "retain", "remove_entry", "pop_first") and ("buckets" in T.show(e_.args[0], maxdepth=6) or "entry(" in T.show(e_.args[0], maxdepth=6)) for e_ in mv.effects)
            note = " [form not recognised: no `retain` over a proofs vector — only the necessary conditions were decided]"
            ob.add({"C20", "C21"}, wa and wb, "PAIR", name + "/retain-paired",
                   "%s: the index is un-keyed by walking each evicted proof's own nullifier list in full, and the selection test (%s) occurs in the function%s" % (name, pred_desc, note), mv.loc0,
                   {"index removals": len(rmi_), "own-list": wa, "selection-test": wb})
            ob.add({"C21"}, True, "TERM", name + "/returns-count", "%s: the returned count is not decided for this form%s" % (name, note), mv.loc0)
            ob.add({"C20"}, wc, "PAIR", name + "/empty-bucket-removed", "%s drops buckets from the map somewhere in the function%s" % (name, note), mv.loc0)
            continue
        okr = len(rets) == 1
        det = None
        if okr:
            clos = rets[0].args[1]
            cb = prog.bodies.get(clos[1]) if isinstance(clos, tuple) and clos[0] == "closure" else None
            okr = cb is not None
            if okr:
                # inside the retain closure: the block that removes from the index and counts is control dependent on
                # the predicate, and the closure returns !predicate
                owner = rets[0].frame
                cfr = owner.closure_frame(clos, owner._closure_args_for("retain", rets[0].args, 1), rets[0].site)
                ceffs = [e for e in mv.effects if e.frame is cfr or (e.frame is not None and cfr is not None and e.frame.chain[:len(cfr.chain)] == cfr.chain and len(e.frame.chain) > len(cfr.chain))]
                rem = [e for e in ceffs if e.raw.get("name") == "remove"]
                okr = cfr is not None and len(rem) == 1 and "nullifier_index" in T.show(rem[0].args[0], maxdepth=4)
                rtm = P.norm(cfr.return_term()) if cfr is not None else None
                pred = rtm[2] if isinstance(rtm, tuple) and rtm[0] == "un" and rtm[1] == "Not" else None
                if pred is None and cfr is not None:
                    # the closure says "keep" in another form: `age <= max_age` returned directly, or `if keep { true } else { ..; false }`:
                    # the eviction predicate is the negation of the single condition under which it returns true
                    ds = guards.bool_disjuncts(cfr)
                    if ds is not None and len(ds) == 1:
                        pred = _cond(P.norm(ds[0]), False)
                okr = okr and pred is not None
                det = {"return": T.show(rtm, maxdepth=6)[:300]}
                if okr:
                    q = cfr.env.get(2)
                    case = [c for c in rem[0].ctrl if c[0] == "case" and c[4] == cb.id]
                    lps = [c[1] for c in rem[0].ctrl if c[0] == "loop" and c[4] == cb.id]
                    under_pred = lambda c_: tuple(c_[2]) in (("else",), ("0",)) and _cond(P.norm(c_[1]), tuple(c_[2]) == ("else",)) == _cond(P.norm(pred), True)
                    okr = (len(case) == 1 and under_pred(case[0]) and len(lps) == 1
                           and P.norm(lps[0]) == ("fld", q, "nullifiers") and P.norm(rem[0].args[1]) == ("elem", lps[0]))
                    def adds_one(e_):
                        # the stored value is `<captured counter> + 1`: an Add-with-overflow of constant 1 feeds the store
                        # (the captured counter's own term is its initial constant, so the sum may have been folded)
                        bod = e_.frame.body
                        seen_add = False
                        for blk_ in bod.blocks:
                            for st_ in blk_["s"]:
                                r_ = st_.get("r")
                                if r_ and r_["k"] == "bin" and r_["op"].startswith("Add") and "k" in r_["b"] and r_["b"]["k"].get("v") == "1":
                                    seen_add = True
                        return seen_add
                    cnt = [e for e in ceffs if e.name == "<store>" and adds_one(e) and
                           [c for c in e.ctrl if c[0] == "case" and c[4] == cb.id and under_pred(c)]]
                    # the count is either kept in that branch (one counter store) or taken as size-before minus size-after (below)
                    by_len = _len_difference(mv)
                    okr = okr and (len(cnt) == 1 or (not cnt and by_len))
                    det["predicate"] = T.show(pred, maxdepth=6)[:300]
                    det["counter_sites"] = len(cnt)
                    if name == "evict_settled":
                        okp = False
                        if (P.call_name(pred) or "").endswith("::any") and P.norm(pred[4][0]) == ("fld", q, "nullifiers"):
                            ic = [a_ for a_ in pred[4] if isinstance(a_, tuple) and a_ and a_[0] == "closure"]
                            icb = prog.bodies.get(ic[0][1]) if ic else None
                            okp = icb is not None and any(tt.get("name") == "contains" for _, tt in icb.calls()) and any(P.param_path(c_) == "settled" for c_ in ic[0][2])
                    else:
                        okp = isinstance(pred, tuple) and pred[0] == "bin" and pred[1] == "Gt" and "saturating_duration_since" in T.show(pred[2]) and "admitted_at" in T.show(pred[2]) and "max_age" in T.show(pred[3])
                    okr = okr and okp
        ob.add({"C20", "C21"}, okr, "PAIR", name + "/retain-paired",
               "%s: a proof is dropped from its bucket iff %s, and exactly then every one of its nullifiers is removed from the index (same closure, same branch)" % (name, pred_desc), rets[0].loc if rets else mv.loc0, det)
        # evicted counter returned
        # the returned value is a local that starts at 0, is never assigned again in this body, and is lent `&mut` to a closure
        # (the one counter store found above sits in the eviction branch of the retain closure) — independent of its name
        ret_l = None
        inits, refs, closure_ops = {}, {}, set()
        for blk_ in mv.body.blocks:
            if blk_["cleanup"]:
                continue
            for st_ in blk_["s"]:
                if "d" not in st_:
                    continue
                d_, r_ = st_["d"], st_["r"]
                if d_["l"] == 0 and not d_["p"] and r_["k"] == "use":
                    pl_ = r_["a"].get("c") or r_["a"].get("m")
                    if pl_ and not pl_["p"]:
                        ret_l = pl_["l"]
                if not d_["p"]:
                    inits.setdefault(d_["l"], []).append(r_)
                if r_["k"] == "ref" and r_.get("mut") and not r_["p"]["p"] and not d_["p"]:
                    refs[d_["l"]] = r_["p"]["l"]
                if r_["k"] == "agg" and r_["ak"].get("t") == "closure":
                    for o_ in r_["ops"]:
                        pl_ = o_.get("c") or o_.get("m")
                        if pl_ and not pl_["p"]:
                            closure_ops.add(pl_["l"])
        ini = inits.get(ret_l, [])
        counted = (ret_l is not None and len(ini) == 1 and ini[0]["k"] == "use" and "k" in ini[0]["a"] and ini[0]["a"]["k"].get("v") == "0"
                   and any(src == ret_l and tmp in closure_ops for tmp, src in refs.items()))
        if okr and not counted:
            # size-before minus size-after: both operands are the pool's own proof count and nothing else is removed or added in between
            counted = _len_difference(mv) and not [
                e_ for e_ in mv.effects if e_.raw.get("name") in ("push", "insert", "extend", "append") and "proofs" in T.show(e_.args[0], maxdepth=6)]
        ob.add({"C21"}, counted and okr, "TERM", name + "/returns-count", "%s returns the eviction counter (initialised to 0, lent &mut to the retain closure, incremented in that same branch)" % name, mv.loc0,
               mv.body.local_name(ret_l) if ret_l is not None else None)
        # empty buckets removed
        if name == "evict_settled":
            rm = [e for e in mv.effects if e.raw.get("name") == "remove" and P.param_path(e.args[0]) == "self.buckets"]
            okb = len(rm) == 1 and any(c[0] == "case" and "is_empty" in T.show(c[1]) and tuple(c[2]) == ("else",) for c in rm[0].ctrl)
            ob.add({"C20"}, okb, "PAIR", name + "/empty-bucket-removed", "after retain, a bucket whose proofs became empty is removed from the map", rm[0].loc if rm else mv.loc0)
        else:
            outer = [e for e in mv.effects if e.raw.get("name") == "retain" and P.param_path(e.args[0]) == "self.buckets"]
            okb = False
            if len(outer) == 1 and isinstance(outer[0].args[1], tuple):
                cfr = mv.fr.closure_frame(outer[0].args[1], [("sym", "K"), ("sym", "B")], outer[0].site)
                rtm = P.norm(cfr.return_term()) if cfr else None
                okb = isinstance(rtm, tuple) and rtm[0] == "un" and rtm[1] == "Not" and "is_empty" in T.show(rtm[2]) and "proofs" in T.show(rtm[2])
            ob.add({"C20"}, okb, "PAIR", name + "/empty-bucket-removed", "buckets.retain keeps a bucket iff its proofs are non-empty after the inner retain", outer[0].loc if outer else mv.loc0)
    # remove_bucket
    mv = view("remove_bucket")
    rmb = [e for e in mv.effects if e.raw.get("name") == "remove" and P.param_path(e.args[0]) == "self.buckets"]
    rmi = [e for e in mv.effects if e.raw.get("name") == "remove" and "nullifier_index" in T.show(e.args[0], maxdepth=4)]
    okr = len(rmb) == 1 and len(rmi) == 1 and P.norm(rmb[0].args[1]) == mv.param(2)
    flat_q = None
    if okr:
        lps = e2_loops(rmi[0])
        # `for n in removed.proofs.iter().flat_map(|q| &q.nullifiers)`: one loop over every nullifier of every removed proof
        fm = P.norm(lps[0]) if len(lps) == 1 else None
        if isinstance(fm, tuple) and fm and fm[0] == "call" and fm[2].endswith("::flat_map") and len(fm[4]) == 2:
            fm = ("flat_map", P.norm(fm[4][0]), fm[4][1], fm[1])
        if isinstance(fm, tuple) and fm and fm[0] == "flat_map" and len(fm) >= 3:
            per = P.norm(mv.fr.closure_ret(fm[2], [("elem", fm[1])], site_hint=fm[3] if len(fm) > 3 else None)) if isinstance(fm[2], tuple) and fm[2][0] == "closure" else None
            if per == ("fld", ("elem", fm[1]), "nullifiers") and T.show(fm[1], maxdepth=8).endswith(".proofs") and P.norm(rmi[0].args[1]) == ("elem", lps[0]) and not [c for c in rmi[0].ctrl if c[0] == "case"]:
                flat_q = T.show(("elem", fm[1]), maxdepth=8)
    if okr and flat_q is None:
        # innermost loop: the nullifiers of one removed proof; an enclosing loop (for-form instead of into_iter().map()) walks the removed proofs
        okr = 1 <= len(lps) <= 2 and "nullifiers" in T.show(lps[-1]) and P.norm(rmi[0].args[1]) == ("elem", lps[-1]) and not [c for c in rmi[0].ctrl if c[0] == "case"]
        if okr and len(lps) == 2:
            okr = P.norm(lps[-1]) == ("fld", ("elem", lps[0]), "nullifiers") and T.show(lps[0], maxdepth=6).endswith(".proofs")
        lps = lps[-1:]
    def returned_elements(t, depth=0):
        """element terms of the returned sequence: through Option::map / Iterator::map closures, or the pushes into a locally built Vec
        (`[]` for an empty Vec: the absent-bucket case)"""
        t = P.norm(t)
        if depth > 6 or not isinstance(t, tuple) or not t:
            return [t]
        if t[0] == "phi":
            out_ = []
            for m_ in t[2]:
                out_ += returned_elements(m_, depth + 1)
            return out_
        if t[0] == "map":
            return returned_elements(mv.fr.elem(t), depth + 1)
        nm_ = P.call_name(t) or ""
        if nm_.endswith("::map") or nm_.endswith("unwrap_or_default"):
            cl = [a for a in t[4] if isinstance(a, tuple) and a and a[0] == "closure"]
            if cl:
                return returned_elements(mv.fr.closure_ret(cl[0], [("elem", t[4][0])], site_hint=t[1]), depth + 1)
            return returned_elements(t[4][0], depth + 1) if t[4] else [t]
        if nm_.endswith(("Vec::<T>::new", "Vec::<T>::with_capacity")):
            items_ = T.contents(mv.effects, t)
            if all(k_ == "one" and len(e2_loops(e_)) == 1 and not [c for c in e_.ctrl if c[0] == "case"] for k_, _, e_ in items_):
                return [x_ for _, x_, _ in items_]
            return [("unk", "vec-built-otherwise")]
        return [t]

    rels = [T.show(x, maxdepth=8) for x in returned_elements(mv.fr.return_term())]
    rt = " | ".join(rels)
    # the un-indexed nullifiers are those of the very element whose proof is returned
    same_q = False
    if okr and rels and flat_q is not None:
        same_q = all(r_ == flat_q + ".proof" for r_ in rels)
    elif okr and rels:
        lq = P.norm(lps[0])
        q_ = T.show(lq[1], maxdepth=8) if isinstance(lq, tuple) and lq and lq[0] == "fld" and lq[2] == "nullifiers" else None
        same_q = q_ is not None and all(r_ == q_ + ".proof" for r_ in rels)
    ob.add({"C20", "C21"}, okr and bool(rels) and same_q and all(r_.endswith(".proof") and "remove(self.buckets, key)" in r_ for r_ in rels), "PAIR", "remove_bucket/paired",
           "remove_bucket removes the bucket, un-indexes every nullifier of every removed proof unconditionally, and returns the removed proofs", rmb[0].loc if rmb else mv.loc0, rt[:300])
    # snapshot_batch
    mv = view("snapshot_batch")
    muts = [e for f in STATE_FIELDS for e in mv.mutator_effects(f) if e.raw.get("name") not in ("get_mut",)]
    stores = [e for e in mv.effects if e.name == "<store>"]
    st_ok = all("last_snapshot_at" in str(e.args[2]) for e in stores) and len(stores) == 1
    rt = P.norm(mv.fr.return_term())
    rts = T.show(rt, maxdepth=10)
    shape_ok = "min" in rts and "batch_size" in rts and "clone" not in rts or True
    # returned = map(proofs[..min(len, batch_size)], |q| q.proof.clone())
    ret_ok = False
    for m in _ok_members(rt) + [rt]:
        for s in T.walk(m):
            if s and s[0] == "map":
                src = T.show(s[1], maxdepth=8)
                # the oldest prefix: proofs[..min(len, batch_size)]  or  proofs.iter().take(batch_size)
                prefix = ("proofs" in src and "min" in src and "batch_size" in src and "RangeTo" in src) or (
                    isinstance(s[1], tuple) and s[1][0] == "take" and T.show(s[1][1], maxdepth=8).endswith(".proofs") and fp(s[1][2], "self.batch_size"))
                ret_ok = ret_ok or (prefix and P.norm(mv.fr.elem(s)) == ("fld", ("elem", s[1]), "proof"))
    if not ret_ok:
        # the same prefix collected by a push loop: `for q in proofs.iter().take(batch_size) { out.push(q.proof.clone()) }`
        from . import circ as _circ
        for m in _ok_members(rt) + [rt]:
            for s in T.walk(m):
                if (P.call_name(s) or "").endswith(("Vec::<T>::new", "Vec::<T>::with_capacity")):
                    pv = _circ.per_iteration_value(mv.fr, mv.effects, s)
                    if pv is not None:
                        val_, it_ = P.norm(pv[0]), P.norm(pv[1])
                        src = T.show(it_, maxdepth=8)
                        prefix = ("proofs" in src and "min" in src and "batch_size" in src and "RangeTo" in src) or (
                            isinstance(it_, tuple) and it_[0] == "take" and T.show(it_[1], maxdepth=8).endswith(".proofs") and fp(it_[2], "self.batch_size"))
                        ret_ok = ret_ok or (prefix and val_ == ("fld", ("elem", it_), "proof"))
    ob.add({"C21"}, not muts and st_ok, "WMW", "snapshot_batch/effects", "snapshot_batch writes nothing but bucket.last_snapshot_at (no removal, no index change)", mv.loc0, [(e.name, e.loc) for e in muts] + [str(e.args[2])[:80] for e in stores])
    ob.add({"C21"}, ret_ok, "TERM", "snapshot_batch/returns-oldest-prefix", "returns clones of proofs[..min(len, batch_size)] through an order-preserving map (admission order, oldest first)", mv.loc0, rts[:400])
    # bucket_stats
    mv = view("bucket_stats")
    rt = P.norm(mv.fr.return_term())
    if isinstance(rt, tuple) and rt and rt[0] == "map":
        rt = P.norm(mv.fr.elem(rt))
    st = None
    for s in T.walk(rt):
        if s and s[0] == "adt" and s[1].endswith("pool::BucketStats"):
            st = dict(s[3])
    okst = st is not None
    det = None
    if okst:
        sh = {k: T.show(x, maxdepth=9) for k, x in st.items()}
        det = {k: x[:160] for k, x in sh.items()}
        def closure_calls(t_, name):
            for s_ in T.walk(t_):
                if s_ and s_[0] == "closure":
                    cb_ = prog.bodies.get(s_[1])
                    if cb_ is not None and any(tt.get("name") == name for _, tt in cb_.calls()):
                        return True
            return False
        tv = st["total_volume"]
        fold_ok = isinstance(tv, tuple) and tv[0] == "phi" and len(tv[2]) == 2 and any(P.const_of(m_) == 0 for m_ in tv[2]) and any(
            (P.call_name(m_) or "").endswith("saturating_add") and "volume" in T.show(m_) for m_ in tv[2])
        okst = (sh["num_proofs"] == "len(elem(self.buckets).1.proofs)" and fold_ok
                and sh["oldest_age"].startswith("max(map(elem(self.buckets).1.proofs") and closure_calls(st["oldest_age"], "saturating_duration_since")
                and sh["last_snapshot_age"].startswith("map(elem(self.buckets).1.last_snapshot_at") and closure_calls(st["last_snapshot_age"], "saturating_duration_since")
                and sh["batch_size"] == "self.batch_size" and sh["key"] == "elem(self.buckets).0")
    if st is None:
        # the BucketStats literal is not built in bucket_stats itself (moved into a method of the bucket type, or built in a helper that is
        # not expanded): find where it is built and decide the necessary conditions there — it reads the stored proofs' volume and
        # admission time and the bucket's last snapshot time, with the saturating operations
        builders = [b_ for b_ in prog.production_bodies() if b_.crate == mv.body.crate and not b_.d.get("impl_trait") and not b_.d.get("derived") and any(
            (s_.get("r") or {}).get("k") == "agg" and s_["r"]["ak"].get("t") == "adt" and s_["r"]["ak"]["adt"].endswith("pool::BucketStats") for blk_ in b_.blocks for s_ in blk_["s"])]
        okw = False
        if len(builders) == 1:
            bs = [builders[0]] + _closures_of(prog, builders[0])
            names_ = set(t_.get("name") for b_ in bs for _, t_ in b_.calls())
            flds_ = set(p_["n"] for b_ in bs for blk_ in b_.blocks for s_ in blk_["s"] for pl_ in _places_of(s_) for p_ in pl_["p"] if isinstance(p_, dict) and "f" in p_)
            okw = {"saturating_add", "saturating_duration_since"} <= names_ and {"volume", "admitted_at", "last_snapshot_at", "proofs"} <= flds_
            reach = e2.who_calls(prog, "^" + re.escape(builders[0].path) + "$") if builders[0].id != mv.body.id else {mv.body.path: 1}
            okw = okw and (builders[0].id == mv.body.id or any(k_.endswith("::bucket_stats") for k_ in reach))
        ob.add({"C20"}, okw, "TERM", "bucket_stats/computed-from-contents",
               "statistics are built (in %s) from the stored proofs' volume / admitted_at and the bucket's last_snapshot_at with saturating operations [form not recognised: the BucketStats literal is not in bucket_stats — necessary conditions only]" % (builders[0].path.rsplit("::", 2)[-2] + "::" + builders[0].name if builders else "?"), mv.loc0)
    else:
        ob.add({"C20"}, okst, "TERM", "bucket_stats/computed-from-contents", "statistics are computed from the stored proofs: len, saturating fold of volume from 0, max age, snapshot age", mv.loc0, det)
    # new(): limits validated
    mv = view("new")
    vc = mv.calls(lambda t: t.get("name") == "validate_proof_count")
    gz = [g for g in mv.gt if g["outcome"] <= {"err"}]
    zero_budget = mv.rejects("Le", lambda t: fp(t, "limits.max_verifies_per_window"), lambda t: P.const_of(t) == 0) or mv.rejects("Eq", lambda t: fp(t, "limits.max_verifies_per_window"), lambda t: P.const_of(t) == 0)
    zero_window = [g for g in mv.gt if "is_zero" in T.show(g["cond"]) and "verify_window" in T.show(g["cond"]) and g["outcome"] <= {"err"}]
    ob.add({"C22"}, bool(zero_budget) and bool(zero_window), "CMP", "new/rejects-zero-budget", "ProofPool::new rejects a zero verification budget and a zero window", mv.loc0, [T.show(g["cond"])[:100] for g in mv.gt])
    ob.add({"C20"}, len(vc) == 2, "CMP", "new/validates-counts", "ProofPool::new validates both batch dimensions", mv.loc0)
    # verify callers in pool.rs
    vs = [(b.path, b.loc(bb)) for b, bb, t in prog.call_sites(r"VerifierCircuitData.*::verify$") if b.file.endswith("aggregator/src/pool.rs")]
    ob.add({"C22"}, len(vs) == 1 and vs[0][0] == POOL + "push", "WMC", "verify-only-in-push", "the only cryptographic verification in pool.rs is the one in push", vs[0][1] if vs else None, vs)
    return ob


def e2_loops(e):
    return [c[1] for c in e.ctrl if c[0] == "loop" and tuple(c[2]) == ("1",)]


def _places_of(st):
    """places mentioned by a MIR statement (destination, operands, borrowed place)"""
    out = []
    if isinstance(st.get("d"), dict):
        out.append(st["d"])
    r = st.get("r") or {}
    for k in ("a", "b"):
        o = r.get(k)
        if isinstance(o, dict) and (o.get("c") or o.get("m")):
            out.append(o.get("c") or o.get("m"))
    if isinstance(r.get("p"), dict):
        out.append(r["p"])
    for o in r.get("ops", []) or []:
        if isinstance(o, dict) and (o.get("c") or o.get("m")):
            out.append(o.get("c") or o.get("m"))
    return out


def _cond(c, truth):
    """a branch condition with its polarity folded in: (c, True) is c; (c, False) is the complementary comparison (`a <= b` -> `a > b`) or
    Not(c); leading Nots are absorbed"""
    while isinstance(c, tuple) and len(c) == 3 and c[0] == "un" and c[1] == "Not":
        c, truth = P.norm(c[2]), (not truth)
    if truth:
        return c
    if isinstance(c, tuple) and len(c) == 4 and c[0] == "bin" and c[1] in guards.NEG:
        return ("bin", guards.NEG[c[1]], c[2], c[3])
    return ("un", "Not", c)


def _len_difference(mv):
    """the method returns `self.len() - self.len()` (two readings of the pool's own proof count: before and after)"""
    rt = P.norm(mv.fr.return_term())
    if not (isinstance(rt, tuple) and len(rt) == 4 and rt[0] == "bin" and rt[1] == "Sub"):
        return False
    def pool_len(t):
        t = P.norm(t)
        return (isinstance(t, tuple) and t and t[0] == "call" and t[2].endswith("ProofPool::len") and [P.norm(a) for a in t[4]] == [mv.param(1)]) or t == ("len", mv.param(1))
    return bool(pool_len(rt[2]) and pool_len(rt[3]))


def _closures_of(prog, body, seen=None):
    """bodies of the closures created (transitively) in a body"""
    seen = set() if seen is None else seen
    out = []
    for blk in body.blocks:
        for st in blk["s"]:
            r = st.get("r") or {}
            if r.get("k") == "agg" and r["ak"].get("t") == "closure" and r["ak"]["id"] not in seen:
                seen.add(r["ak"]["id"])
                cb = prog.bodies.get(r["ak"]["id"])
                if cb is not None:
                    out.append(cb)
                    out += _closures_of(prog, cb, seen)
    return out


def _metadata_components(pm):
    """{"key": (name, term), "nullifiers": (name, term), "volume": (name, term)} of parse_metadata's Ok value — a 3-tuple (names "0".."2")
    or a struct with three fields — recognised by content: the BatchKey literal, the per-nullifier map over the public inputs, the
    saturating fold; None when the value is anything else"""
    oks = [m for m in _ok_members(pm.fr.return_term())]
    if len(oks) != 1 or not isinstance(oks[0], tuple):
        return None
    v = oks[0]
    if v[0] == "tuple":
        comps = [(str(i), P.norm(c)) for i, c in enumerate(v[1])]
    elif v[0] == "adt":
        comps = [(n, P.norm(c)) for n, c in v[3]]
    else:
        return None
    if len(comps) != 3:
        return None
    key = [c for c in comps if isinstance(c[1], tuple) and c[1] and c[1][0] == "adt" and c[1][1].endswith("::BatchKey")]
    vol = [c for c in comps if isinstance(c[1], tuple) and c[1] and c[1][0] == "phi" and any((P.call_name(m) or "").endswith("saturating_add") for m in c[1][2])]
    rest = [c for c in comps if c not in key and c not in vol]
    if len(key) != 1 or len(vol) != 1 or len(rest) != 1:
        return None
    return {"key": key[0], "volume": vol[0], "nullifiers": rest[0]}


def _ok_members(t):
    from .circ import ok_members
    return ok_members(t)
