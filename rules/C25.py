"""C25 — encodings reject out-of-range input (DESIGN.md §5 C25)."""
from . import encoding


def run(ck):
    ck.explanation = """C25: the rejection guards exist with the right constants/operators and dominate the encoder calls and accumulations (length caps, 32-bit limb check, quantized range, canonical digest limbs); the three copies of the Goldilocks modulus (two Rust, one Lean) are equal; Secret is only built from a validated digest"""
    ck.not_decided = ["""round-trip and injectivity are value-level facts inside qp_poseidon_core (not decided)"""]
    ob = encoding.analyse25(ck)
    ob.emit(ck, "C25")
    ck.floor("CMP", "encoding/obligations", len([1 for it in ob.items if "C25" in it[0]]), 11, "C25 obligations evaluated")
