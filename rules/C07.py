"""C07 — private-batch acceptance is exactly compatibility plus replay-freedom (DESIGN.md §5 C07)."""
from . import pb


def run(ck):
    ck.explanation = ("C07: inventory of the wrapper's own constraint sites (missing AND unexpected sites are reported), each classified by operand "
                      "provenance into {block, asset, fee, nullifier uniqueness, exit-sum range}, with per-slot coverage and gating")
    ck.not_decided = ["the semantic iff (given gadget semantics) is the trusted base", "constraints inside sort_digests4 / recursive verification are acceptance-neutral by C10/C31/C11"]
    ob, v = pb.analyse(ck)
    ob.emit(ck, "C07")
    ck.floor("INV", "pb/obligations", len([1 for it in ob.items if "C07" in it[0]]), 12, "C07 obligations evaluated")
