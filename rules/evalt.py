"""Finite evaluation of extracted guard terms (IVL/CMP support): the terms of a function's rejection guards are evaluated under an
assignment of its inputs (lengths, header elements, counts) so that the *set of rejected inputs on a grid* can be compared with the
specification — whatever way the comparisons are written.  This evaluates the extracted terms, never the program.

Values: int, bool, NONE (an Option::None / failed checked op), ERR (a failed fallible conversion), UNK (cannot evaluate)."""
from . import terms as T
from . import pat as P

NONE = ("none",)
ERR = ("err!",)
UNK = ("unk!",)
U64 = 1 << 64

_BIN = {
    "Add": lambda a, b: a + b, "Sub": lambda a, b: a - b, "Mul": lambda a, b: a * b,
    "Div": lambda a, b: a // b if b else UNK, "Rem": lambda a, b: a % b if b else UNK,
    "BitAnd": lambda a, b: a & b, "BitOr": lambda a, b: a | b, "BitXor": lambda a, b: a ^ b,
    "Shl": lambda a, b: a << b, "Shr": lambda a, b: a >> b,
    "Eq": lambda a, b: a == b, "Ne": lambda a, b: a != b, "Lt": lambda a, b: a < b, "Le": lambda a, b: a <= b,
    "Gt": lambda a, b: a > b, "Ge": lambda a, b: a >= b,
}


def ev(t, env, fr=None):
    t = P.norm(t)
    if t in env:
        return env[t]
    if isinstance(t, int):
        return t
    if not isinstance(t, tuple) or not t:
        return UNK
    tag = t[0]
    if tag == "c":
        return t[1]
    if tag == "none":
        return NONE
    if tag == "bin":
        op = t[1].replace("WithOverflow", "").replace("Unchecked", "")
        a, b = ev(t[2], env, fr), ev(t[3], env, fr)
        if a in (UNK, NONE, ERR) or b in (UNK, NONE, ERR) or op not in _BIN:
            return UNK
        if isinstance(a, bool) or isinstance(b, bool):
            a, b = int(a), int(b)
        r = _BIN[op](a, b)
        if isinstance(r, int) and not isinstance(r, bool) and r < 0:
            return UNK   # unsigned underflow: a panic path in debug builds, not a value
        return r
    if tag == "un":
        a = ev(t[2], env, fr)
        if a in (UNK, NONE, ERR):
            return UNK
        if t[1] == "Not":
            return (not a) if isinstance(a, bool) else UNK
        return UNK
    if tag == "discr":
        inner = P.norm(t[1])
        v = ev(inner, env, fr)
        if v == UNK:
            return UNK
        nm = (P.call_name(inner) or "").rsplit("::", 1)[-1]
        if nm == "branch":
            return 1 if v in (ERR, NONE) else 0     # ControlFlow: Continue = 0, Break = 1
        if nm in ("checked_sub", "checked_add", "checked_mul", "get", "first", "last", "checked_div"):
            return 0 if v in (NONE, ERR) else 1      # Option: None = 0, Some = 1
        return UNK   # the discriminated type is not known from the term (fallible conversions are transparent): do not guess
    if tag == "call" and len(t) == 5:
        nm = t[2].rsplit("::", 1)[-1]
        if nm == "filter" and len(t[4]) == 2 and isinstance(t[4][1], tuple) and t[4][1] and t[4][1][0] == "closure" and fr is not None:
            o = ev(t[4][0], env, fr)
            if o in (UNK,):
                return UNK
            if o in (NONE, ERR):
                return NONE
            sym = ("sym", "evalt-filter")
            env2 = dict(env)
            env2[sym] = o
            keep = ev(fr.closure_ret(t[4][1], [sym], site_hint=t[1]), env2, fr)
            return o if keep is True else (NONE if keep is False else UNK)
        args = [ev(a, env, fr) for a in t[4]]
        # operator traits called as functions (`<&usize as Rem<usize>>::rem`)
        optrait = {"rem": "Rem", "add": "Add", "sub": "Sub", "mul": "Mul", "div": "Div", "bitand": "BitAnd", "bitor": "BitOr", "shl": "Shl", "shr": "Shr"}
        if nm in optrait and "core::ops::" in t[2] and len(args) == 2:
            a, b = args
            if a in (UNK, NONE, ERR) or b in (UNK, NONE, ERR) or isinstance(a, bool) or isinstance(b, bool):
                return UNK
            r = _BIN[optrait[nm]](a, b)
            return UNK if (isinstance(r, int) and r < 0) else r
        if nm in ("checked_sub", "checked_add", "checked_mul") and len(args) == 2:
            a, b = args
            if a in (UNK, ERR) or b in (UNK, ERR):
                return UNK
            if a == NONE or b == NONE:
                return NONE
            r = {"checked_sub": a - b, "checked_add": a + b, "checked_mul": a * b}[nm]
            return NONE if (r < 0 or r >= U64) else r
        if nm in ("saturating_sub",) and len(args) == 2 and all(isinstance(x, int) for x in args):
            return max(0, args[0] - args[1])
        if nm == "is_multiple_of" and len(args) == 2 and all(isinstance(x, int) for x in args):
            return (args[0] % args[1] == 0) if args[1] else (args[0] == 0)
        if nm in ("is_none", "is_some") and len(args) == 1:
            if args[0] == UNK:
                return UNK
            return (args[0] in (NONE, ERR)) == (nm == "is_none")
        if nm in ("unwrap_or",) and len(args) == 2:
            return args[1] if args[0] in (NONE, ERR) else args[0]
        if nm in ("branch", "context", "with_context", "map_err", "ok_or", "ok_or_else", "ok", "from_output", "into", "from", "try_into", "try_from",
                  "to_canonical_u64", "to_u64", "clone", "copied", "min", "max") and args:
            if nm == "min" and len(args) == 2 and all(isinstance(x, int) for x in args):
                return min(args)
            if nm == "max" and len(args) == 2 and all(isinstance(x, int) for x in args):
                return max(args)
            return args[0]
        return UNK
    if tag == "phi":
        vals = set()
        for m in t[2]:
            v = ev(m, env, fr)
            vals.add(v if not isinstance(v, list) else tuple(v))
        return vals.pop() if len(vals) == 1 else UNK
    return UNK


def guard_rejects(g, env, fr=None):
    """True / False / None (cannot tell) — does guard g fail under env?"""
    c = P.norm(g["cond"])
    if isinstance(c, tuple) and c and c[0] == "discr" and g.get("kind") == "match" and set(g.get("vals") or []) <= {"0", "1", "else"}:
        # `x?` / `let Some(v) = x else { fail }`: whatever the encoding of the discriminant, the guard fails exactly when the
        # fallible value is None / Err (fallible conversions are transparent in terms and succeed on the small grid values)
        v = ev(c[1], env, fr)
        if v == UNK:
            return None
        return v in (NONE, ERR)
    v = ev(g["cond"], env, fr)
    if v == UNK:
        return None
    fw = g["fail_when"]
    if isinstance(fw, bool):
        if isinstance(v, bool):
            return v == fw
        if isinstance(v, int):
            return bool(v) == fw
        return None
    vals = g.get("vals") or []
    if isinstance(v, bool):
        v = int(v)
    if isinstance(v, int):
        if str(v) in vals:
            return True
        if "else" in vals:
            # `else` arm fails: every value not named by another arm
            return None
        return False
    return None
