"""C29 — per-layer proof counts are bounded at every entry point (DESIGN.md §5 C29)."""
from . import limits


def run(ck):
    ck.explanation = ("C29: comparison table of validate_proof_count (0 and > MAX_PROOF_COUNT=64 → Err, nothing else); every count operand of an unchecked layout helper, "
                      "of add_recursive_verifiers and of a count-sized allocation is validated on every path before the use — in the same function or, for non-public functions, in every caller; "
                      "pool fields initialised only with validated counts; checked arithmetic in try_pi_len; config constructor/loader return Ok only after validation; legacy key alias")
    ck.not_decided = ["config file round-trip as a value property"]
    ob = limits.analyse29(ck)
    ob.emit(ck, "C29")
    ck.floor("MPT", "limits/obligations", len(ob.items), 30, "C29 obligations evaluated")
