"""C30 — the less-than gadget (DESIGN.md §5 C30)."""
from . import gadgets_rules


def run(ck):
    ck.explanation = ("C30: term shape of is_const_less_than (bit recurrence and its update order, width guards, 64-bit dispatch to the canonical half split), "
                      "u32_lt, xor, split_canonical_u32_halves and enforce_target_less_than_const")
    ck.not_decided = ["functional equivalence of the recurrence with integer comparison for every width (the pattern is the reference comparator; equivalence is not proven here)"]
    ob = gadgets_rules.analyse(ck)
    ob.emit(ck, "C30")
    ck.floor("TERM", "gadget/obligations", len([1 for it in ob.items if "C30" in it[0]]), 14, "C30 obligations evaluated")
