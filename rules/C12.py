"""C12 — public-batch output is order-preserving forwarding (DESIGN.md §5 C12)."""
from . import pubb


def run(ck):
    ck.explanation = ("C12: ordered-append structure of the public-batch output vector: header references from a first-real scan, then every inner's exit slots "
                      "and then every inner's nullifiers with inner index outermost, each element masked by that inner's dummy flag; layout offsets evaluated for all M in 1..64")
    ck.not_decided = ["numeric outputs on concrete batches"]
    ob, v = pubb.analyse(ck)
    ob.emit(ck, "C12")
    ck.floor("ORDER", "pub/obligations", len([1 for it in ob.items if "C12" in it[0]]), 15, "C12 obligations evaluated")
