"""C27 — native Merkle verification: guards, fold, position table, shared constants (DESIGN.md §5 C27)."""
from . import encoding


def run(ck):
    ck.explanation = """C27: verify_with_positions' four false-returning guards precede the fold; errors of the fold become false; final comparison with the root; position table of insert_at_position equals the specification and the circuit's (C03); circuit and native use the same MAX_DEPTH item; both from_unsorted copies (common and circuit) carry the three guards before hashing, and their per-level step sorts the node once before use, pushes the rank of the running hash, hashes the node into the running hash and takes the level's siblings from the node by index (no second comparison of hash values; the index-skipping copy loop is checked exactly when that is the form)"""
    ck.not_decided = ["""that `sort` orders and `position` finds the first equal element (library semantics); circuit/native equivalence on values"""]
    ob = encoding.analyse27(ck)
    ob.emit(ck, "C27")
    ck.floor("CMP", "encoding/obligations", len([1 for it in ob.items if "C27" in it[0]]), 13, "C27 obligations evaluated")
