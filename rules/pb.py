"""Structural decomposition of the private-batch wrapper (`build_private_batch_constraints`).
Produces obligations tagged with the properties they serve (C06, C07, C08, C09, C10, C36)."""
from . import terms as T
from . import pat as P
from . import circ
from .pat import V, K, Cb, Phi, Rec, Any
from .facts import AnchorMissing

AGG = "qp_wormhole_aggregator"


class Ob:
    def __init__(self):
        self.items = []

    def add(self, props, ok, rule, key, what, loc=None, detail=None):
        self.items.append((set(props), bool(ok), rule, key, what, loc, detail))
        return bool(ok)

    def emit(self, ck, prop):
        for props, ok, rule, key, what, loc, detail in self.items:
            if prop in props:
                ck.require(ok, rule, key, what, loc, detail)


def consts(prog):
    names = ["LEAF_PI_LEN", "ASSET_ID_START", "OUTPUT_AMOUNT_1_START", "OUTPUT_AMOUNT_2_START", "VOLUME_FEE_BPS_START",
             "NULLIFIER_START", "EXIT_1_START", "EXIT_2_START", "BLOCK_HASH_START", "BLOCK_NUMBER_START"]
    return {n: prog.const_value("private_batch::circuit::constants::" + n) for n in names}


class PBView:
    def __init__(self, ck, prog=None):
        prog = prog or ck.prog
        self.prog = prog
        self.body = prog.one(r"private_batch::circuit::circuit_logic::build_private_batch_constraints$", AGG)
        ck.saw(self.body)
        # helpers of the aggregator crate are expanded in place (an extracted helper is the same circuit); gadgets of the common crate stay atomic
        self.ev = T.Evaluator(prog, inline=lambda p: (p.startswith(AGG + "::") or p.startswith("<" + AGG + "::")) and "{closure" not in p, names=False)
        self.fr = self.ev.frame(self.body)
        self.effects = self.fr.effects()
        for e in self.effects:
            ck.saw(e.frame.body)
        self.K = consts(prog)
        self.targets = ("param", self.body.path, 2, "targets")
        self.n = ("param", self.body.path, 3, "n_leaf")
        self.proofs = ("fld", self.targets, "leaf_proofs")

    # pis of proof i
    def pis_index(self, t):
        """i if t == targets.leaf_proofs[i].public_inputs (also elem(...) forms: returns ('elem*', iterable))"""
        t = P.norm(t)
        if isinstance(t, tuple) and t and t[0] == "fld" and t[2] == "public_inputs":
            b = t[1]
            if isinstance(b, tuple) and b and b[0] == "idx" and b[1] == self.proofs:
                return b[2]
            if isinstance(b, tuple) and b and b[0] == "elem":
                it = b[1]
                while isinstance(it, tuple) and it and it[0] in ("take",):
                    it = it[1]
                if it == self.proofs:
                    return ("elem", b[1])
        return None

    def read(self, t):
        """(index, offset, width) if t reads limb(s) of a child's public inputs, else None"""
        t = P.norm(t)
        n = P.call_name(t)
        if n and (n.endswith("gadgets::limb1_at_offset") or n.endswith("gadgets::limbs4_at_offset")):
            cga = t[3]
            args = t[4]
            i = self.pis_index(args[0])
            if i is not None and len(cga) >= 2 and cga[0] == self.K["LEAF_PI_LEN"] and P.const_of(args[1]) == 0:
                return (i, cga[1], 4 if n.endswith("limbs4_at_offset") else 1)
            return ("?", None, 0)
        if isinstance(t, tuple) and t and t[0] == "idx":
            i = self.pis_index(t[1])
            if i is not None:
                off = P.const_of(t[2])
                return (i, off, 1)
        return None


def _is(t, name):
    return P.cb_args(t, name)


def unmap(l):
    """iterable with `map(closure)` layers removed (the closure's effect is already applied to the element term)"""
    if isinstance(l, tuple) and l:
        if l[0] == "map":
            return unmap(l[1])
        if l[0] in ("take", "skip"):
            return (l[0], unmap(l[1]), l[2])
        if l[0] in ("enumerate", "rev"):
            return (l[0], unmap(l[1]))
        if l[0] == "zip":
            return ("zip", unmap(l[1]), unmap(l[2]))
    return l


def analyse(ck, prog=None):
    ob = Ob()
    v = PBView(ck, prog)
    effs = v.effects
    Kc = v.K
    fr = v.fr
    n = v.n
    loc0 = "%s:%s" % (v.body.file, v.body.line)

    def loc(e):
        return e.loc if e is not None else loc0

    # ---------------------------------------------------------------- output vector
    regs = [e for e in effs if e.name in ("cb.register_public_inputs", "cb.register_public_input")]
    ob.add({"C06", "C10"}, len(regs) == 1 and regs[0].name == "cb.register_public_inputs", "WMC", "pb/register-once",
           "the wrapper registers its public inputs exactly once (found %d site(s))" % len(regs), loc(regs[0]) if regs else loc0)
    if not regs:
        return ob, v
    circ_bad = circ.uncond_problems(regs[0])
    ob.add({"C06"}, not circ_bad, "UNCOND", "pb/register-uncond", "register_public_inputs is unconditional", loc(regs[0]))
    out = P.norm(regs[0].args[1])
    seq = T.contents(effs, out)
    ob.add({"C06"}, P.call_name(out) is not None and "Vec" in P.call_name(out), "PROV", "pb/output-vector", "the registered vector is a locally built Vec", loc(regs[0]), T.show(out))

    # locate the containers by what is pushed into them
    def container_pushes(c):
        return T.contents(effs, c)

    # is_dummy flags: a container D whose only push is bytes_digest_eq(limbs4<BLOCK_HASH>(pis_i), [zero;4])
    D = B = None
    d_eff = None
    for e in effs:
        if e.raw.get("name") == "push" and len(e.args) == 2:
            val = P.norm(e.args[1])
            nm = P.call_name(val)
            if nm and nm.endswith("gadgets::bytes_digest_eq"):
                a = [P.norm(x) for x in val[4][1:]]
                rd = [v.read(x) for x in a]
                zs = [x for x in a if isinstance(x, tuple) and x[0] == "array" and len(x[1]) == 4 and all(P.const_of(y) == 0 for y in x[1])]
                hit = [r for r in rd if r and r[1] == Kc["BLOCK_HASH_START"] and r[2] == 4]
                if hit and zs:
                    D = e.args[0]
                    d_eff = e
                    d_read = hit[0]
                    d_block = [x for x, r in zip(a, rd) if r and r[1] == Kc["BLOCK_HASH_START"]][0]
    if D is None:
        ob.add({"C06", "C07", "C09", "C08"}, False, "TERM", "pb/is-dummy-flag", "no per-slot flag is_dummy_i = bytes_digest_eq(block_hash_i, [0;4]) found", loc0)
        return ob, v
    dpush = container_pushes(D)
    ob.add({"C06", "C07", "C09"}, len(dpush) == 1 and dpush[0][0] == "one", "TERM", "pb/is-dummy-flag",
           "is_dummy_i = bytes_digest_eq(limbs4<%d,BLOCK_HASH_START=%d>(pis_i), [zero;4]), one flag per slot, nothing else written to the flag vector" % (Kc["LEAF_PI_LEN"], Kc["BLOCK_HASH_START"]),
           loc(d_eff), [(k, T.show(t)[:200]) for k, t, _ in dpush])
    d_loop = circ.loops_of(d_eff)
    take_ok = len(d_loop) == 1 and unmap(d_loop[0]) == ("take", v.proofs, n) and isinstance(d_read[0], tuple) and d_read[0][0] == "elem" and d_read[0][1] == unmap(d_loop[0])
    # the iterable is the per-proof PI view in proof order
    ob.add({"C06", "C07", "C09"}, take_ok, "TERM", "pb/is-dummy-flag/all-slots", "flags are pushed once per proof, in proof order, for the first n_leaf proofs (D[i] belongs to proof i)", loc(d_eff),
           [T.show(x)[:200] for x in d_loop])
    # block hashes container: same loop, pushes the same block term
    for e in effs:
        if e.raw.get("name") == "push" and len(e.args) == 2 and P.norm(e.args[1]) == d_block and e.args[0] != D and circ.loops_of(e) == d_loop:
            B = e.args[0]
    ob.add({"C06", "C07"}, B is not None and len(container_pushes(B)) == 1, "TERM", "pb/block-hashes", "block_hashes[i] is the same BLOCK_HASH limbs read as the flag's operand, pushed in the same loop", loc(d_eff))

    def Dat(t):
        """index i if t == D[i]"""
        t = P.norm(t)
        if isinstance(t, tuple) and t and t[0] == "idx" and t[1] == D:
            return t[2]
        return None

    def notD(t):
        a = P.match(Cb("cb.not", V("x")), t)
        return Dat(a["x"]) if a else None

    # ---------------------------------------------------------------- first-real scan
    rng_n = None
    scan = {}
    items = list(seq)

    def scan_select(step, key):
        """step = select(take_i, value_i, Rec) -> (take_i, value_i)"""
        b = P.match(Cb("cb.select", V("take"), V("val"), V("keep")), step)
        if not b:
            return None
        kp = P.norm(b["keep"])
        return b["take"], b["val"], kp

    def check_take(take, what, e):
        """take_i = and(not D[i], not found_real) with found_real = phi(false, or(rec, not D[i])); returns i"""
        lv = [P.norm(x) for x in _and_leaves(take)]
        idxs = [notD(x) for x in lv]
        i = [x for x in idxs if x is not None]
        rest = [x for x, ix in zip(lv, idxs) if ix is None]
        ok = len(lv) == 2 and len(i) == 1 and len(rest) == 1
        fr_ok = False
        if ok:
            a = P.match(Cb("cb.not", V("f")), rest[0])
            if a:
                f = P.norm(a["f"])
                if isinstance(f, tuple) and f[0] == "phi" and len(f[2]) == 2:
                    init = [m for m in f[2] if P.const_of(m) == 0]
                    step = [m for m in f[2] if P.const_of(m) is None]
                    if len(init) == 1 and len(step) == 1:
                        o = P.cb_args(step[0], "cb.or")
                        if o is not None:
                            o = [P.norm(x) for x in o]
                            recs = [x for x in o if isinstance(x, tuple) and x[0] in ("rec", "phi")]
                            others = [x for x in o if not (isinstance(x, tuple) and x[0] in ("rec", "phi"))]
                            fr_ok = len(recs) == 1 and len(others) == 1 and notD(others[0]) == i[0]
        r = circ.range_expr(i[0][1]) if (ok and isinstance(i[0], tuple) and i[0][0] == "elem") else None
        # 0..n_leaf, also written 0..is_dummy_flags.len(): the flag vector has exactly one entry per slot (pb/is-dummy-flag/all-slots)
        rng_ok = r is not None and P.const_of(r[0]) == 0 and (P.norm(r[1]) == n or (take_ok and P.norm(r[1]) == ("len", D)))
        ob.add({"C06", "C09"}, ok and fr_ok and rng_ok, "TERM", "pb/first-real/%s/take" % what,
               "take_i = and(not is_dummy_i, not found_real), found_real = {false, or(found_real, not is_dummy_i)}, i over 0..n_leaf", loc(e), T.show(take, maxdepth=9)[:500])
        return i[0] if ok else None

    def expect_scalar_ref(t, off, what, e):
        t = P.norm(t)
        good = False
        if isinstance(t, tuple) and t[0] == "phi" and len(t[2]) == 2:
            init = [m for m in t[2] if P.const_of(m) == 0]
            step = [m for m in t[2] if P.const_of(m) is None]
            if len(init) == 1 and len(step) == 1:
                s = scan_select(step[0], t[1])
                if s:
                    take, val, keep = s
                    i = check_take(take, what, e)
                    rd = v.read(val)
                    good = (i is not None and rd is not None and rd[0] == i and rd[1] == off and rd[2] == 1 and isinstance(keep, tuple) and keep[0] in ("rec", "phi"))
        ob.add({"C06", "C09"}, good, "TERM", "pb/first-real/%s" % what,
               "%s_ref = {zero, select(take_i, pis_i[%d], %s_ref)}: the value of the first non-dummy slot, zero if none" % (what, off, what), loc(e), T.show(t, maxdepth=6)[:400])

    # expected order of the header
    hdr_ok = len(items) >= 5
    if hdr_ok:
        k0, t0, e0 = items[0]
        c0 = P.cb_args(t0, "cb.constant")
        v0 = None
        if c0 is not None:
            inner = P.norm(c0[0])
            if P.call_name(inner) and inner[4]:
                v0 = P.norm(inner[4][-1])
        ob.add({"C06"}, k0 == "one" and v0 == ("bin", "Mul", n, ("c", 2, None)) or v0 == ("bin", "Mul", ("c", 2, None), n), "TERM", "pb/out/num-exit-slots",
               "output[0] = constant(2 * n_leaf)", loc(e0), T.show(t0))
        k1, t1, e1 = items[1]
        rd = v.read(t1)
        ob.add({"C06"}, k1 == "one" and rd is not None and P.const_of(rd[0]) == 0 and rd[1] == Kc["ASSET_ID_START"] and rd[2] == 1, "TERM", "pb/out/asset",
               "output[1] = asset id of slot 0 (all slots are constrained equal to it)", loc(e1), T.show(t1))
        asset_ref = P.norm(t1)
        k2, t2, e2 = items[2]
        ob.add({"C06"}, k2 == "one", "ORDER", "pb/out/fee-pos", "output[2] is one felt (fee reference)", loc(e2))
        expect_scalar_ref(t2, Kc["VOLUME_FEE_BPS_START"], "fee", e2)
        fee_ref = P.norm(t2)
        k3, t3, e3 = items[3]
        t3 = P.norm(t3)
        good = False
        if k3 == "all" and isinstance(t3, tuple) and t3[0] == "upd" and isinstance(t3[2], tuple) and t3[2][0] == "array" and len(t3[2][1]) == 4 and all(P.const_of(x) == 0 for x in t3[2][1]) and len(t3[3]) == 1:
            proj, val = t3[3][0]
            s = scan_select(val, t3[1])
            if s and len(proj) == 1 and proj[0][0] == "i":
                j = proj[0][1]
                take, bv, keep = s
                i = check_take(take, "block-hash", e3)
                bv = P.norm(bv)
                rj = circ.range_expr(j[1]) if isinstance(j, tuple) and j[0] == "elem" else None
                good = (i is not None and rj is not None and P.const_of(rj[0]) == 0 and P.const_of(rj[1]) == 4
                        and bv == ("idx", ("idx", B, i), j) and isinstance(keep, tuple) and keep[0] == "idx" and keep[2] == j)
        ob.add({"C06", "C09"}, good, "TERM", "pb/first-real/block-hash", "block_ref[j] = {zero, select(take_i, block_hashes[i][j], block_ref[j])} for j in 0..4; emitted as 4 felts at output[3..7]", loc(e3), T.show(t3, maxdepth=6)[:500])
        block_ref = t3
        k4, t4, e4 = items[4]
        ob.add({"C06"}, k4 == "one", "ORDER", "pb/out/block-number-pos", "output[7] is one felt (block number reference)", loc(e4))
        expect_scalar_ref(t4, Kc["BLOCK_NUMBER_START"], "block-number", e4)
        hdr_uncond = all(not circ.uncond_problems(e) and not circ.loops_of(e) for _, _, e in items[:5])
        ob.add({"C06"}, hdr_uncond, "UNCOND", "pb/out/header-straight-line", "the five header appends are unconditional and outside any loop (header length is 8)", loc(e0))
    else:
        ob.add({"C06"}, False, "ORDER", "pb/out/header", "output vector has fewer than 5 header appends", loc0)
        return ob, v

    # ---------------------------------------------------------------- consistency constraints (C07)
    cons = [e for e in effs if e.name in circ.CONSTRAINT_NAMES and e.name not in ("cb.register_public_inputs",)]
    classified = {}
    for e in cons:
        ops = [P.norm(x) for x in circ.cb_operands(e)]
        cls = None
        detail = [T.show(x, maxdepth=6)[:300] for x in ops]
        if e.name == "cb.connect":
            for x, y in ((ops[0], ops[1]), (ops[1], ops[0])):
                if P.const_of(y) == 1:
                    o = P.cb_args(x, "cb.or")
                    if o is not None:
                        o = [P.norm(z) for z in o]
                        di = [Dat(z) for z in o]
                        if sum(1 for d in di if d is not None) == 1:
                            i = [d for d in di if d is not None][0]
                            other = [z for z, d in zip(o, di) if d is None][0]
                            nm = P.call_name(other)
                            if nm and nm.endswith("gadgets::bytes_digest_eq"):
                                a = [P.norm(z) for z in other[4][1:]]
                                if ("idx", B, i) in a and block_ref in a:
                                    cls = ("block", i)
                            eq = P.cb_args(other, "cb.is_equal")
                            if eq is not None:
                                eq = [P.norm(z) for z in eq]
                                rds = [v.read(z) for z in eq]
                                if fee_ref in eq and any(r and r[1] == Kc["VOLUME_FEE_BPS_START"] and r[2] == 1 for r in rds):
                                    r = [r for r in rds if r][0]
                                    cls = ("fee", i, r[0])
                if P.const_of(y) == 0:
                    lv = [P.norm(z) for z in _and_leaves(x)]
                    nd = [notD(z) for z in lv]
                    idx = [d for d in nd if d is not None]
                    rest = [z for z, d in zip(lv, nd) if d is None]
                    if len(lv) == 3 and len(idx) == 2 and len(rest) == 1:
                        nm = P.call_name(rest[0])
                        if nm and nm.endswith("gadgets::bytes_digest_eq"):
                            a = [v.read(z) for z in rest[0][4][1:]]
                            if all(r and r[1] == Kc["NULLIFIER_START"] and r[2] == 4 for r in a) and sorted(map(str, [a[0][0], a[1][0]])) == sorted(map(str, idx)):
                                cls = ("unique", idx[0], idx[1])
            if cls is None:
                rds = [v.read(z) for z in ops]
                hit = [r for r, z in zip(rds, ops) if r and r[1] == Kc["ASSET_ID_START"] and r[2] == 1 and z != asset_ref]
                if asset_ref in ops and hit:
                    cls = ("asset", hit[0][0])
        elif e.name == "cb.range_check":
            cls = ("range", P.const_of(ops[1]))
        classified.setdefault(cls[0] if cls else None, []).append((e, cls, detail))
    for e, cls, detail in classified.get(None, []):
        ob.add({"C07", "C10"}, False, "INV", "pb/constraint/unexpected@%s" % e.name, "a constraint outside the five acceptance classes (it changes the accepted set)", loc(e), detail)
    enum_loop = None
    for name, what in (("block", "is_dummy_i OR block_hash_i == block_ref"), ("asset", "asset_i == asset_ref (ungated)"), ("fee", "is_dummy_i OR fee_i == fee_ref")):
        hits = classified.get(name, [])
        ok = len(hits) == 1
        e = hits[0][0] if hits else None
        if ok:
            loops = circ.loops_of(e)
            ok_loop = len(loops) == 1 and unmap(loops[0]) == ("enumerate", ("take", v.proofs, n))
            cls = hits[0][1]
            if name in ("block", "fee"):
                ok_loop = ok_loop and cls[1] == ("index", loops[0][1]) if ok_loop else False
            if name == "fee" and ok_loop:
                ok_loop = cls[2] == ("elem", ("take", v.proofs, n))
            if name == "asset" and ok_loop:
                ok_loop = cls[1] == ("elem", ("take", v.proofs, n))
            ob.add({"C07"}, ok_loop and not circ.uncond_problems(e), "TERM+UNCOND", "pb/constraint/%s/every-slot" % name,
                   "the %s constraint is emitted for every slot i in 0..n_leaf with the flag and the data of the same slot" % name, loc(e), [T.show(l)[:200] for l in loops])
        ob.add({"C07"}, ok, "INV", "pb/constraint/%s" % name, "exactly one `%s` constraint site (found %d)" % (what, len(hits)), loc(e))
    # asset constraint must not be gated
    hits = classified.get("asset", [])
    if hits:
        e = hits[0][0]
        ops = [P.norm(x) for x in circ.cb_operands(e)]
        gated = any(Dat(s) is not None for o in ops for s in T.walk(o))
        ob.add({"C07"}, not gated, "TERM", "pb/constraint/asset/ungated", "asset equality holds for dummy slots too (no flag in its operands)", loc(e))
    hits = classified.get("unique", [])
    ok = len(hits) == 1
    e = hits[0][0] if hits else None
    ob.add({"C07"}, ok, "INV", "pb/constraint/unique", "exactly one `NOT(real_i AND real_j AND nullifier_i == nullifier_j)` constraint site (found %d)" % len(hits), loc(e))
    if ok:
        loops = circ.loops_of(e)
        good = False
        if len(loops) == 2:
            r0, r1 = circ.range_expr(loops[0]), circ.range_expr(loops[1])
            if r0 and r1:
                i = ("elem", loops[0])
                good = (P.const_of(r0[0]) == 0 and P.norm(r0[1]) == n and P.norm(r1[1]) == n and P.norm(r1[0]) == ("bin", "Add", i, ("c", 1, None)))
                cls = hits[0][1]
                good = good and {str(cls[1]), str(cls[2])} == {str(i), str(("elem", loops[1]))}
        ob.add({"C07"}, good and not circ.uncond_problems(e), "TERM+UNCOND", "pb/constraint/unique/all-pairs", "emitted for every pair i in 0..n, j in i+1..n", loc(e), [T.show(l)[:160] for l in loops])
    hits = classified.get("range", [])
    ob.add({"C07", "C08"}, len(hits) == 1 and hits[0][1][1] is not None and hits[0][1][1] <= 32, "INV", "pb/constraint/range",
           "exactly one range_check site, on the grouped exit sum, to <= 32 bits (found %d, bits %s)" % (len(hits), hits[0][1][1] if hits else None), loc(hits[0][0]) if hits else loc0)

    # ---------------------------------------------------------------- masking + grouping
    # slot loop: items[5] = final_sum (one), items[6..9] = final_exit limbs
    body_items = items[5:]
    slot_items = [it for it in body_items if it[2] is not None and len(circ.loops_of(it[2])) == 1 and circ.range_expr(circ.loops_of(it[2])[0])]
    good = len(slot_items) == 5
    SE = SA = None
    if good:
        lp = circ.loops_of(slot_items[0][2])[0]
        r = circ.range_expr(lp)
        two_n = ("bin", "Mul", n, ("c", 2, None))
        good = P.const_of(r[0]) == 0 and P.norm(r[1]) == two_n and all(circ.loops_of(it[2]) == [lp] for it in slot_items)
        slot = ("elem", lp)
    ob.add({"C06"}, good, "ORDER", "pb/out/exit-slots", "after the header, one loop over slot in 0..2*n_leaf appends [sum, exit limb 0..3] per slot (5 felts)", loc(slot_items[0][2]) if slot_items else loc0,
           [(k, T.show(t, maxdepth=3)[:120]) for k, t, _ in body_items[:8]])
    if good:
        fs = P.norm(slot_items[0][1])
        b = P.match(Cb("cb.select", V("dup"), K(0), V("acc")), fs)
        gsum = False
        if b:
            dup, acc = P.norm(b["dup"]), P.norm(b["acc"])
            # acc
            if isinstance(acc, tuple) and acc[0] == "phi" and len(acc[2]) == 2:
                init = [m for m in acc[2] if P.const_of(m) == 0]
                step = [m for m in acc[2] if P.const_of(m) is None]
                if len(init) == 1 and len(step) == 1:
                    a = P.cb_args(step[0], "cb.add")
                    if a is not None:
                        a = [P.norm(x) for x in a]
                        recs = [x for x in a if isinstance(x, tuple) and x[0] in ("rec", "phi")]
                        oth = [x for x in a if not (isinstance(x, tuple) and x[0] in ("rec", "phi"))]
                        if len(recs) == 1 and len(oth) == 1:
                            s = P.match(Cb("cb.select", V("m"), V("amt"), K(0)), oth[0])
                            if s:
                                m, amt = P.norm(s["m"]), P.norm(s["amt"])
                                if P.call_name(m) and P.call_name(m).endswith("gadgets::bytes_digest_eq"):
                                    ma = [P.norm(x) for x in m[4][1:]]
                                    ej = [x for x in ma if isinstance(x, tuple) and x[0] == "elem"]
                                    es = [x for x in ma if isinstance(x, tuple) and x[0] == "idx" and x[2] == slot]
                                    if len(ej) == 1 and len(es) == 1 and isinstance(amt, tuple) and amt[0] == "elem":
                                        SE, SA = ej[0][1], amt[1]
                                        gsum = es[0][1] == SE
            ob.add({"C06", "C08"}, gsum, "TERM", "pb/group/sum", "acc = {zero, add(acc, select(exit_j == exit_slot, amount_j, zero))} over ALL (exit_j, amount_j) pairs", loc(slot_items[0][2]), T.show(acc, maxdepth=7)[:500])
            if gsum:
                # the loop that carries acc is the zip of both vectors in full
                add_sites = [e for e in effs if e.name == "cb.add" and e.result is not None and any(s == P.norm(e.result) for s in T.walk(acc))]
                zl = [l for e in add_sites for l in circ.loops_of(e) if isinstance(l, tuple) and l[0] == "zip"]
                ob.add({"C08"}, any(l == ("zip", SE, SA) for l in zl), "TERM", "pb/group/sum-over-all", "the summation loop ranges over zip(slot_exits, slot_amounts) without take/skip", loc(add_sites[0]) if add_sites else loc0, [T.show(l)[:200] for l in zl])
                # is_duplicate
                gd = False
                if isinstance(dup, tuple) and dup[0] == "phi" and len(dup[2]) == 2:
                    init = [m for m in dup[2] if P.const_of(m) == 0]
                    step = [m for m in dup[2] if P.const_of(m) is None]
                    if len(init) == 1 and len(step) == 1:
                        o = P.cb_args(step[0], "cb.or")
                        if o is not None:
                            o = [P.norm(x) for x in o]
                            oth = [x for x in o if not (isinstance(x, tuple) and x[0] in ("rec", "phi"))]
                            if len(oth) == 1 and P.call_name(oth[0]) and P.call_name(oth[0]).endswith("gadgets::bytes_digest_eq"):
                                ma = [P.norm(x) for x in oth[0][4][1:]]
                                gd = ("elem", ("take", SE, slot)) in ma and ("idx", SE, slot) in ma
                ob.add({"C06", "C08"}, gd, "TERM", "pb/group/duplicate", "is_duplicate = {false, or(is_duplicate, exit_earlier == exit_slot)} over slot_exits.take(slot) — exactly the earlier slots", loc(slot_items[0][2]), T.show(dup, maxdepth=6)[:400])
                # final exit limbs
                fe = True
                for k in range(4):
                    tk = P.norm(slot_items[1 + k][1])
                    bb = P.match(Cb("cb.select", V("d"), K(0), V("x")), tk)
                    fe = fe and bb is not None and P.norm(bb["d"]) == dup and P.norm(bb["x"]) == ("idx", ("idx", SE, slot), ("c", k, None))
                ob.add({"C06", "C08", "C09"}, fe, "TERM", "pb/group/final-exit", "final_exit[k] = select(is_duplicate, zero, exit_slot[k]) for k = 0..3, appended in limb order after the sum", loc(slot_items[1][2]))
                # range check is on final_sum
                rc = classified.get("range", [])
                if rc:
                    e = rc[0][0]
                    ob.add({"C07", "C08"}, P.norm(circ.cb_operands(e)[0]) == fs and circ.loops_of(e) == [lp] and not circ.uncond_problems(e), "TERM+UNCOND", "pb/constraint/range/operand",
                           "range_check(final_sum, 32) for every exit slot", loc(e))
        else:
            ob.add({"C06", "C08"}, False, "TERM", "pb/group/final-sum", "final_sum = select(is_duplicate, zero, acc)", loc(slot_items[0][2]), T.show(fs, maxdepth=4)[:300])
    # masking of the slot vectors
    if SE is not None:
        for cont, nm in ((SE, "exit"), (SA, "amount")):
            ps = container_pushes(cont)
            okp = len(ps) == 1 and ps[0][0] == "one" and len(circ.loops_of(ps[0][2])) == 1
            detail = [(k, T.show(t, maxdepth=5)[:300]) for k, t, _ in ps]
            if okp:
                e = ps[0][2]
                lp2 = circ.loops_of(e)[0]
                r = circ.range_expr(lp2)
                s2 = ("elem", lp2)
                okp = r is not None and P.const_of(r[0]) == 0 and P.norm(r[1]) == ("bin", "Mul", n, ("c", 2, None))
                pidx = ("bin", "Div", s2, ("c", 2, None))
                val = P.norm(ps[0][1])
                if nm == "exit":
                    if isinstance(val, tuple) and val[0] == "from_fn":
                        J = ("sym", "J")
                        val = P.norm(fr.index(val, J))
                    else:
                        J = None
                b = P.match(Cb("cb.select", V("d"), K(0), V("raw")), val)
                okm = b is not None and Dat(b["d"]) == pidx
                ob.add({"C06", "C08", "C09"}, okp and okm, "TERM", "pb/mask/%s" % nm,
                       "slot_%ss[slot] = select(is_dummy[slot / 2], zero, raw) for slot in 0..2*n_leaf (dummy slots contribute the zero %s)" % (nm, nm), loc(e), detail)
                if okp and okm:
                    raw = P.norm(b["raw"])
                    # raw comes from the (proof_idx, output_idx) accessor: evaluate it for output_idx 0 and 1
                    pair_ok = False
                    det = None
                    clos = None
                    for x in effs:
                        if x.raw.get("name") in ("call", "call_mut", "call_once") and circ.loops_of(x) == [lp2] and isinstance(x.args[0], tuple) and x.args[0][0] == "closure":
                            clos = x
                    if clos is not None:
                        argt = clos.args[1]
                        a_ok = isinstance(argt, tuple) and argt[0] == "tuple" and P.norm(argt[1][0]) == pidx and P.norm(argt[1][1]) == ("bin", "Rem", s2, ("c", 2, None))
                        res = []
                        for oi in (0, 1):
                            rt = fr.closure_ret(clos.args[0], [pidx, ("c", oi, None)], site_hint=clos.site + "#o%d" % oi)
                            if isinstance(rt, tuple) and rt[0] == "tuple" and len(rt[1]) == 2:
                                res.append((v.read(rt[1][0]), v.read(rt[1][1])))
                        want = [((pidx, Kc["EXIT_1_START"], 4), (pidx, Kc["OUTPUT_AMOUNT_1_START"], 1)), ((pidx, Kc["EXIT_2_START"], 4), (pidx, Kc["OUTPUT_AMOUNT_2_START"], 1))]
                        pair_ok = a_ok and res == want
                        det = {"args": T.show(argt)[:200], "evaluated": str(res)[:400]}
                        # and the masked raw value is that accessor's component
                        comp = fr.closure_ret(clos.args[0], list(argt[1]) if a_ok else [], site_hint=clos.site) if a_ok else None
                        if comp is not None and isinstance(comp, tuple) and comp[0] == "tuple":
                            want_raw = P.norm(comp[1][0]) if nm == "exit" else P.norm(comp[1][1])
                            got_raw = raw[1] if (nm == "exit" and isinstance(raw, tuple) and raw[0] == "idx") else raw
                            pair_ok = pair_ok and (got_raw == want_raw)
                    ob.add({"C06", "C08", "C09"}, pair_ok, "TERM", "pb/mask/%s/source" % nm,
                           "slot 2i reads (EXIT_1, OUTPUT_AMOUNT_1) and slot 2i+1 reads (EXIT_2, OUTPUT_AMOUNT_2) of proof i = slot / 2", loc(e), det)
            else:
                ob.add({"C06", "C08", "C09"}, False, "TERM", "pb/mask/%s" % nm, "slot_%ss has exactly one masked push per slot" % nm, loc0, detail)

    # ---------------------------------------------------------------- nullifier region
    after = [it for it in body_items if it not in slot_items]
    null_items = [it for it in after if it[2] is not None and any(P.call_name(l) and P.call_name(l).endswith("gadgets::sort_digests4") for l in circ.loops_of(it[2]))]
    okn = len(null_items) == 1 and null_items[0][0] == "all"
    SN = None
    if okn:
        e = null_items[0][2]
        lp3 = circ.loops_of(e)[0]
        okn = P.norm(null_items[0][1]) == ("elem", lp3) and len(circ.loops_of(e)) == 1
        SN = P.norm(lp3[4][1])
    ob.add({"C06", "C09", "C10"}, okn, "ORDER+PROV", "pb/out/nullifiers-sorted", "the nullifier region is appended digest by digest from the result of sort_digests4(selected_nullifiers)", loc(null_items[0][2]) if null_items else loc0,
           [(k, T.show(t)[:200]) for k, t, _ in after[:4]])
    if SN is not None:
        ps = container_pushes(SN)
        good = len(ps) == 1 and ps[0][0] == "one"
        okh = True
        det = [(k, T.show(t, maxdepth=6)[:600]) for k, t, _ in ps]
        if good:
            e = ps[0][2]
            arr = P.norm(ps[0][1])
            lps = circ.loops_of(e)
            r = circ.range_expr(lps[0]) if len(lps) == 1 else None
            i = ("elem", lps[0]) if lps else None
            good = r is not None and P.const_of(r[0]) == 0 and P.norm(r[1]) == n and isinstance(arr, tuple) and arr[0] == "array" and len(arr[1]) == 4
            if good:
                for k in range(4):
                    b = P.match(Cb("cb.select", V("d"), V("dn"), V("rn")), arr[1][k])
                    if not b or Dat(b["d"]) != i:
                        good = False
                        break
                    rn = P.norm(b["rn"])
                    dn = P.norm(b["dn"])
                    rrd = v.read(rn[1]) if (isinstance(rn, tuple) and rn[0] == "idx" and rn[2] == ("c", k, None)) else None
                    good = good and rrd == (i, Kc["NULLIFIER_START"], 4)
                    # helpers of the crate are expanded in place, so the dummy replacement is visible as H(H(preimage_i)).elements[k]
                    from .leaf import double_hash_preimage
                    dpre = double_hash_preimage(dn[1]) if (isinstance(dn, tuple) and dn[0] == "idx" and dn[2] == ("c", k, None)) else None
                    dn_ok = dpre is not None and P.norm(dpre) == ("idx", ("fld", v.targets, "dummy_nullifier_pre_images"), i)
                    okh = okh and dn_ok
                    good = good and dn_ok
        ob.add({"C06", "C09"}, good, "TERM", "pb/nullifier/select", "selected[i][k] = select(is_dummy_i, H(H(preimage_i))[k], nullifier_i[k]) for i in 0..n_leaf, k in 0..4", loc(ps[0][2]) if ps else loc0, det)
        ob.add({"C06"}, good and okh, "TERM", "pb/nullifier/dummy-hash", "dummy replacement is H(H(preimage)) (double Poseidon2 over the 4 preimage felts of that slot)", loc(ps[0][2]) if ps else loc0, det)

    # ---------------------------------------------------------------- padding
    pad = [it for it in after if it not in null_items]
    okp = len(pad) == 1 and pad[0][0] == "one" and P.const_of(pad[0][1]) == 0
    bound = None
    if okp:
        e = pad[0][2]
        cases = [c for c in e.ctrl if c[0] == "case"]
        okp = len(cases) == 1 and not circ.loops_of(e)
        if okp:
            c = cases[0]
            cond = c[1]
            okp = isinstance(cond, tuple) and cond[0] == "bin" and cond[1] == "Lt" and cond[2] == ("len", out) and tuple(c[2]) == ("else",)
            bound = cond[3] if okp else None
    ob.add({"C06"}, okp, "ORDER", "pb/out/padding", "the only other append is `while output.len() < pi_len(n_leaf) { push(zero) }`", loc(pad[0][2]) if pad else loc0, [(k, T.show(t)[:100]) for k, t, _ in pad])
    if bound is not None:
        bad = []
        for nv in range(1, 65):
            val = eval_int(bound, {n: nv})
            used = 8 + 2 * nv * 5 + 4 * nv
            if val != Kc["LEAF_PI_LEN"] * nv + 8 or used > val:
                bad.append((nv, val, used))
        ob.add({"C06", "C36"}, not bad and Kc["LEAF_PI_LEN"] == 21, "IVL", "pb/out/length", "padded length = 21*n + 8 and header(8) + 10n + 4n fits, for every n in 1..64 (evaluated on the extracted layout terms)", loc(pad[0][2]), bad[:4])
    # no mutation of the output vector other than the appends above
    muts = [k for k, t, e in seq if k.startswith("mutate")]
    ob.add({"C06"}, not muts and len(items) == 5 + 5 + 1 + 1, "ORDER", "pb/out/append-only", "the output vector is only appended to, by exactly the 12 sites above", loc0, [k for k, _, _ in items])

    # ---------------------------------------------------------------- free witnesses
    free = [e for e in effs if e.name in circ.FREE_NAMES or e.name.endswith("BoolTarget::new_unsafe")]
    ob.add({"C10"}, not free, "FREE", "pb/free-none", "the wrapper logic creates no virtual target and no unsafe boolean (every wire is computed from the child public inputs and preimages)", loc(free[0]) if free else loc0)

    v.D, v.B, v.SE, v.SA, v.SN, v.out, v.seq = D, B, SE, SA, SN, out, seq
    v.classified = classified
    return ob, v


def prog_one(prog, rx):
    return prog.one(rx, AGG)


def _and_leaves(t):
    a = P.cb_args(t, "cb.and")
    if a is None:
        return [P.norm(t)]
    return _and_leaves(a[0]) + _and_leaves(a[1])


def eval_int(t, env):
    """evaluate a build-time integer term under an assignment of parameter terms to ints"""
    t = P.norm(t)
    if t in env:
        return env[t]
    if T.is_const(t):
        return t[1]
    if isinstance(t, tuple) and t and t[0] == "bin":
        a, b = eval_int(t[2], env), eval_int(t[3], env)
        if a is None or b is None:
            return None
        op = t[1].replace("WithOverflow", "").replace("Unchecked", "")
        try:
            return {"Add": a + b, "Sub": a - b, "Mul": a * b, "Div": a // b if b else None, "Rem": a % b if b else None}.get(op)
        except Exception:
            return None
    return None


# ---- GATE: every flow from a per-slot child field to an output / constraint operand is cut by that slot's dummy gate

def gate_analysis(ob, v):
    """walk every output item and every constraint operand; a read of child i's public inputs at an offset other than
    the asset id / block hash must sit (a) in the `else` branch of select(is_dummy_i, ·, X), (b) in the `then` branch of
    select(c, X, ·) with c an and-tree containing not(is_dummy_i), (c) beside is_dummy_i in an `or`, or (d) beside
    not(is_dummy_i) in an `and` — with the SAME index term i. Containers are followed through their pushes."""
    Kc = v.K
    D = v.D
    effs = v.effects
    free_offsets = set([Kc["ASSET_ID_START"]]) | set(range(Kc["BLOCK_HASH_START"], Kc["BLOCK_HASH_START"] + 4))
    problems = []
    checked = {"reads": 0, "gated": 0, "free": 0}
    seen_cont = {}

    def Dat(t):
        t = P.norm(t)
        if isinstance(t, tuple) and t and t[0] == "idx" and t[1] == D:
            return t[2]
        return None

    def notD(t):
        a = P.match(Cb("cb.not", V("x")), t)
        return Dat(a["x"]) if a else None

    def same_slot(i, guards):
        if i in guards:
            return True
        # pis of `elem(take(proofs,n))` under enumerate: index(take(...)) names the same iteration
        for g in guards:
            if isinstance(i, tuple) and isinstance(g, tuple) and i[0] == "elem" and g[0] == "index":
                if unmap(g[1]) == i[1]:
                    return True
        return False

    def walk(t, guards, where, depth=0):
        t = P.norm(t)
        if not isinstance(t, tuple) or not t or depth > 60:
            return
        rd = v.read(t)
        if rd is not None:
            i, off, w = rd
            checked["reads"] += 1
            if off is None:
                problems.append((where, "unrecognised child read", T.show(t)[:200]))
                return
            offs = set(range(off, off + w))
            if offs <= free_offsets:
                checked["free"] += 1
                return
            if same_slot(i, guards):
                checked["gated"] += 1
                return
            problems.append((where, "child field at offset %d of slot %s reaches this point without that slot's dummy gate" % (off, T.show(i)[:80]), T.show(t)[:200]))
            return
        tag = t[0]
        a = P.cb_args(t, "cb.select")
        if a is not None:
            c, x, y = [P.norm(z) for z in a]
            di = Dat(c)
            if di is not None:
                walk(x, guards, where, depth + 1)
                walk(y, guards | {di}, where, depth + 1)
                return
            nots = [notD(z) for z in _and_leaves(c)]
            nots = set(z for z in nots if z is not None)
            walk(c, guards, where, depth + 1)
            walk(x, guards | nots, where, depth + 1)
            walk(y, guards, where, depth + 1)
            return
        a = P.cb_args(t, "cb.or")
        if a is not None:
            ops = [P.norm(z) for z in a]
            ds = set(Dat(z) for z in ops if Dat(z) is not None)
            for z in ops:
                if Dat(z) is None:
                    walk(z, guards | ds, where, depth + 1)
            return
        a = P.cb_args(t, "cb.and")
        if a is not None:
            lv = _and_leaves(t)
            nots = set(notD(z) for z in lv if notD(z) is not None)
            for z in lv:
                if notD(z) is None:
                    walk(z, guards | nots, where, depth + 1)
            return
        if tag == "call" and len(t) == 5:
            nm = t[2]
            if nm.endswith(("Vec::<T>::with_capacity", "Vec::<T>::new")):
                return
            for z in t[4]:
                walk(z, guards, where, depth + 1)
            return
        if tag in ("idx", "elem"):
            base = t[1]
            while isinstance(base, tuple) and base and base[0] in ("take", "skip", "zip", "enumerate", "rev", "idx", "elem") and not (P.call_name(base)):
                if base[0] == "zip":
                    walk(("elem", base[1]), guards, where, depth + 1)
                    walk(("elem", base[2]), guards, where, depth + 1)
                    return
                base = base[1]
            nm = P.call_name(base)
            if nm and nm.endswith(("Vec::<T>::with_capacity", "Vec::<T>::new")):
                if base not in seen_cont:
                    seen_cont[base] = True
                    for k, pt, pe in T.contents(effs, base):
                        if pt is not None:
                            walk(pt, frozenset(), "container pushed at %s" % pe.loc, depth + 1)
                return
            walk(t[1], guards, where, depth + 1)
            if tag == "idx":
                walk(t[2], guards, where, depth + 1)
            return
        if tag in ("phi",):
            for m in t[2]:
                walk(m, guards, where, depth + 1)
            return
        if tag == "upd":
            if t[2] is not None:
                walk(t[2], guards, where, depth + 1)
            for proj, val in t[3]:
                walk(val, guards, where, depth + 1)
            return
        if tag in ("array", "tuple"):
            for z in t[1]:
                walk(z, guards, where, depth + 1)
            return
        if tag == "from_fn":
            r = v.fr.index(t, ("sym", "G"))
            if r != ("idx", t, ("sym", "G")):
                walk(r, guards, where, depth + 1)
            return
        if tag in ("fld",):
            walk(t[1], guards, where, depth + 1)
            return
        if tag == "map":
            walk(v.fr.elem(t), guards, where, depth + 1)
            return

    for k, t, e in v.seq:
        if t is not None:
            walk(t, frozenset(), "output append at %s" % e.loc)
    for e in effs:
        if e.name in circ.CONSTRAINT_NAMES and e.name != "cb.register_public_inputs":
            for o in circ.cb_operands(e):
                walk(o, frozenset(), "constraint at %s" % e.loc)
    ob.add({"C09"}, not problems, "GATE", "pb/gate/all-flows",
           "every read of a per-slot child field (outputs, exits, fee, block number, nullifier) that reaches the output vector or a constraint passes that slot's dummy gate "
           "(%d reads: %d gated, %d of the sentinel/asset limbs)" % (checked["reads"], checked["gated"], checked["free"]),
           "%s:%s" % (v.body.file, v.body.line), problems[:6])
    ob.add({"C09"}, checked["gated"] >= 8, "GATE", "pb/gate/floor", "at least 8 gated reads were found (%d): the rule is not vacuous" % checked["gated"], "%s:%s" % (v.body.file, v.body.line))
    return problems
