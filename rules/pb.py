"""Structural decomposition of the private-batch wrapper (`build_private_batch_constraints`).
Produces obligations tagged with the properties they serve (C06, C07, C08, C09, C10, C36).

All index reasoning is done on loop-canonical terms (rules/lc.py): iterator loops (`take`, `enumerate`, `zip`), range loops with indexing and
`map(..).collect()` vectors give the same terms; a vector filled by one unconditional push per iteration is read through (`v[x]` is the
pushed value at position x); helpers of the aggregator crate are expanded in place."""
from . import terms as T
from . import pat as P
from . import circ, lc
from .pat import V, K, Cb, Phi, Rec, Any
from .facts import AnchorMissing

AGG = "qp_wormhole_aggregator"


class Ob:
    def __init__(self):
        self.items = []

    def add(self, props, ok, rule, key, what, loc=None, detail=None):
        self.items.append((set(props), bool(ok), rule, key, what, loc, detail))
        return bool(ok)

    def emit(self, ck, prop):
        for props, ok, rule, key, what, loc, detail in self.items:
            if prop in props:
                ck.require(ok, rule, key, what, loc, detail)


def consts(prog):
    names = ["LEAF_PI_LEN", "ASSET_ID_START", "OUTPUT_AMOUNT_1_START", "OUTPUT_AMOUNT_2_START", "VOLUME_FEE_BPS_START",
             "NULLIFIER_START", "EXIT_1_START", "EXIT_2_START", "BLOCK_HASH_START", "BLOCK_NUMBER_START"]
    return {n: prog.const_value("private_batch::circuit::constants::" + n) for n in names}


def masked(t):
    """(d, x) when t is x unless boolean d holds (then zero): select(d, 0, x) | select(not d, x, 0) | mul(not d, x)"""
    b = P.match(Cb("cb.select", V("d"), K(0), V("x")), t)
    if b:
        return b["d"], b["x"]
    b = P.match(Cb("cb.select", Cb("cb.not", V("d")), V("x"), K(0)), t)
    if b:
        return b["d"], b["x"]
    b = P.match(Cb("cb.mul", Cb("cb.not", V("d")), V("x")), t)
    if b:
        return b["d"], b["x"]
    return None


def kept_when(t):
    """(m, x) when t is x if boolean m holds, else zero: select(m, x, 0) | mul(m, x)"""
    b = P.match(Cb("cb.select", V("m"), V("x"), K(0)), t)
    if b:
        return b["m"], b["x"]
    b = P.match(Cb("cb.mul", V("m"), V("x")), t)
    if b and (P.call_name(b["m"]) or "").endswith("gadgets::bytes_digest_eq"):
        return b["m"], b["x"]
    return None


def proofs_length_fact(ck, prog, build_body, targets_term, n_term, field, ctor_rx, extra_field=None):
    """Is `targets.<field>` (the vector of child proof targets) known to hold exactly `n` entries inside the constraint builder?
    Established across functions: add_recursive_verifiers returns one entry per iteration of 0..num_proofs; the only caller of the
    builder function (the circuit constructor) stores that vector in the targets it passes, and passes the same count.  When it
    holds the length is registered (lc.TERM_LEN), so a loop written `targets.proofs.iter().zip(&flags)` ranges over 0..n like the
    index loop it replaces.  Returns (ok, detail)."""
    try:
        rec = prog.one(r"common::recursive::add_recursive_verifiers$", AGG)
        ctor = prog.one(ctor_rx, AGG)
    except Exception as ex:
        return False, "anchor: %s" % ex
    ev = T.Evaluator(prog)
    rf = ev.frame(rec)
    rvec = P.ok_value(rf.return_term())
    pv = circ.per_iteration_value(rf, rf.effects(), rvec)
    r_ = circ.range_expr(pv[1]) if pv is not None else None
    ok1 = r_ is not None and P.const_of(r_[0]) == 0 and P.norm(r_[1]) == ("param", rec.path, 4, rec.local_name(4))
    callers = prog.callers().get(build_body.id, [])
    ok2 = len(callers) == 1 and callers[0][0].id == ctor.id
    cf = ev.frame(ctor)
    effs = cf.effects()
    er = [e for e in effs if e.frame is cf and e.name.endswith("recursive::add_recursive_verifiers")]
    eb = [e for e in effs if e.frame is cf and (e.path or "") == build_body.path]
    ok3 = False
    if len(er) == 1 and len(eb) == 1 and len(er[0].args) == 4 and len(eb[0].args) >= 3:
        tg = P.norm(eb[0].args[1])
        fld = dict(tg[3]).get(field) if (isinstance(tg, tuple) and tg and tg[0] == "adt") else None
        ok3 = fld is not None and P.ok_value(fld) == P.ok_value(er[0].result) and P.norm(eb[0].args[2]) == P.norm(er[0].args[3])
    if ok1 and ok2 and ok3:
        lc.TERM_LEN[("fld", targets_term, field)] = n_term
    # the same for a per-slot input vector of the targets struct (`dummy_nullifier_pre_images`): one unconditional push per
    # iteration of 0..count in the constructor, count being what is passed on as n
    if ok2 and extra_field and len(eb) == 1 and len(eb[0].args) >= 3:
        tg = P.norm(eb[0].args[1])
        fld = dict(tg[3]).get(extra_field) if (isinstance(tg, tuple) and tg and tg[0] == "adt") else None
        pv2 = circ.per_iteration_value(cf, effs, fld) if fld is not None else None
        r2 = circ.range_expr(pv2[1]) if pv2 is not None else None
        if r2 is not None and P.const_of(r2[0]) == 0 and P.norm(r2[1]) == P.norm(eb[0].args[2]):
            lc.TERM_LEN[("fld", targets_term, extra_field)] = n_term
    return (ok1 and ok2 and ok3), {"one entry per 0..num_proofs": ok1, "single caller (constructor)": ok2, "same vector and same count passed": ok3}


class PBView:
    def __init__(self, ck, prog=None):
        prog = prog or ck.prog
        self.prog = prog
        self.body = prog.one(r"private_batch::circuit::circuit_logic::build_private_batch_constraints$", AGG)
        ck.saw(self.body)
        # helpers of the aggregator crate are expanded in place (an extracted helper is the same circuit); gadgets of the common crate stay atomic
        self.ev = T.Evaluator(prog, inline=lambda p: (p.startswith(AGG + "::") or p.startswith("<" + AGG + "::")) and "{closure" not in p, names=False, stamp_loops=True)
        self.fr = self.ev.frame(self.body)
        self.effects = self.fr.effects()
        for e in self.effects:
            ck.saw(e.frame.body)
        self.K = consts(prog)
        self.targets = ("param", self.body.path, 2, "targets")
        self.n = ("param", self.body.path, 3, "n_leaf")
        self.proofs = ("fld", self.targets, "leaf_proofs")
        self._nests = {}
        self._filled = {}
        # lengths: targets.leaf_proofs has n_leaf entries (constructor fact); vectors filled one entry per slot have the loop's length
        self.len_fact = proofs_length_fact(ck, prog, self.body, self.targets, self.n, "leaf_proofs", r"private_batch::circuit::circuit_logic::PrivateBatchCircuit::new$", extra_field="dummy_nullifier_pre_images")
        lc.register_filled(self.effects)

    # ---- canonical terms ---------------------------------------------------------------
    def nest(self, e):
        if id(e) not in self._nests:
            if None not in self._nests:
                self._nests[None] = lc.frame_nest(self.fr)
            self._nests[id(e)] = lc.Nest(e, fallback=self._nests[None])
        return self._nests[id(e)]

    def C(self, t, e=None):
        """loop-canonical form of a term, relative to e's loop nest when given; loops elsewhere in the function (the one a
        loop-carried value was built in) are resolved through the frame-level nest"""
        if e is None:
            if None not in self._nests:
                self._nests[None] = lc.frame_nest(self.fr)
            return P.norm(lc.Nest(loops=[], fallback=self._nests[None]).canon(P.norm(t)))
        return P.norm(self.nest(e).canon(P.norm(t)))

    def filled(self, cont):
        """(value, var) when the vector `cont` (a Vec::new / with_capacity site) is filled by exactly one unconditional push per iteration
        of one loop and never touched otherwise: cont[x] is then value[var := x]"""
        cont = P.norm(cont)
        if cont in self._filled:
            return self._filled[cont]
        res = None
        nm = P.call_name(cont) or ""
        if nm.endswith(("Vec::<T>::new", "Vec::<T>::with_capacity")):
            items = T.contents(self.effects, cont)
            if len(items) == 1 and items[0][0] == "one":
                e = items[0][2]
                ns = self.nest(e)
                if ns.depth() == 1 and ns.var(0) is not None and ns.var(0)[1] == 0 and not circ.uncond_problems(e):
                    res = (self.C(items[0][1], e), ns.var(0))
        self._filled[cont] = res
        return res

    def resolve(self, c):
        """read through filled vectors: idx(cont, x) -> the pushed value at position x (one level)"""
        c = P.norm(c)
        if isinstance(c, tuple) and c and c[0] == "idx":
            f = self.filled(c[1])
            if f is not None:
                return P.norm(T.subst(f[0], f[1], c[2]))
        return c

    # pis of proof i
    def pis_index(self, c):
        """index IX if c == targets.leaf_proofs[IX].public_inputs (canonical)"""
        c = P.norm(c)
        if isinstance(c, tuple) and c and c[0] == "fld" and c[2] == "public_inputs":
            b = P.norm(c[1])
            if isinstance(b, tuple) and b and b[0] == "idx" and b[1] == self.proofs:
                return b[2]
        return None

    def read(self, c):
        """(index, offset, width) if the canonical term reads limb(s) of a child's public inputs, else None"""
        c = self.resolve(c)
        n = P.call_name(c)
        if n and (n.endswith("gadgets::limb1_at_offset") or n.endswith("gadgets::limbs4_at_offset")):
            cga = c[3]
            args = c[4]
            i = self.pis_index(args[0])
            if i is not None and len(cga) >= 2 and cga[0] == self.K["LEAF_PI_LEN"] and P.const_of(args[1]) == 0:
                return (i, cga[1], 4 if n.endswith("limbs4_at_offset") else 1)
            return ("?", None, 0)
        if isinstance(c, tuple) and c and c[0] == "idx":
            i = self.pis_index(c[1])
            if i is not None:
                return (i, P.const_of(c[2]), 1)
        return None


def _is(t, name):
    return P.cb_args(t, name)


def _expand_items(v, seq):
    """output items with array-valued appends split into their elements (an array literal and `array::from_fn::<_, N, _>` alike)"""
    out = []
    for k, t, e in seq:
        tt = P.norm(t) if t is not None else None
        if k == "all" and isinstance(tt, tuple) and tt and tt[0] == "map" and len(tt) >= 3:
            # `arr.map(|x| f(x))` on a fixed-size array `[T; N]` (N from the array's construction or from the call's const generic
            # argument): element j is f(arr[j])
            n_ = lc.known_len(tt[1])
            me = v.ev.site_effect.get(tt[3]) if len(tt) > 3 else None
            if n_ is None and me is not None and (me.raw.get("f") or "").startswith("core::array") and me.cga and isinstance(me.cga[-1], int):
                n_ = me.cga[-1]
            if isinstance(n_, int) and n_ <= 8:
                for j in range(n_):
                    out.append(("one", v.fr.index(tt, ("c", j, None)), e))
                continue
        if k == "all" and isinstance(tt, tuple) and tt and tt[0] == "from_fn":
            ne = v.ev.site_effect.get(tt[2]) if len(tt) > 2 else None
            n_ = ne.cga[-1] if (ne is not None and ne.cga and isinstance(ne.cga[-1], int)) else None
            if n_ is not None and n_ <= 8:
                for j in range(n_):
                    out.append(("one", v.fr.index(tt, ("c", j, None)), e))
                continue
        out.append((k, t, e))
    return out


def analyse(ck, prog=None):
    ob = Ob()
    v = PBView(ck, prog)
    effs = v.effects
    Kc = v.K
    fr = v.fr
    n = v.n
    C = v.C
    nest = v.nest
    loc0 = "%s:%s" % (v.body.file, v.body.line)

    def loc(e):
        return e.loc if e is not None else loc0

    def over_slots(x):
        """x is a loop variable ranging over 0..n_leaf"""
        return lc.is_var(x, 0, n)

    def twice_n(t):
        """the build-time term t equals 2 * n_leaf"""
        return isinstance(t, int) is False and all(eval_int(t, {n: k}) == 2 * k for k in (1, 2, 7, 64))

    # ---------------------------------------------------------------- output vector
    regs = [e for e in effs if e.name in ("cb.register_public_inputs", "cb.register_public_input")]
    ob.add({"C06", "C10"}, len(regs) == 1 and regs[0].name == "cb.register_public_inputs", "WMC", "pb/register-once",
           "the wrapper registers its public inputs exactly once (found %d site(s))" % len(regs), loc(regs[0]) if regs else loc0)
    if not regs:
        return ob, v
    circ_bad = circ.uncond_problems(regs[0])
    ob.add({"C06"}, not circ_bad, "UNCOND", "pb/register-uncond", "register_public_inputs is unconditional", loc(regs[0]))
    out = P.norm(regs[0].args[1])
    # a Vec built empty and appended to, or started from a literal (`vec![a, b, c]`) and appended to: the literal's elements come first
    init = [("one", x, regs[0]) for x in out[1]] if (isinstance(out, tuple) and out and out[0] == "array") else []
    seq = _expand_items(v, init + T.contents(effs, out))
    ob.add({"C06"}, (P.call_name(out) is not None and "Vec" in P.call_name(out)) or bool(init), "PROV", "pb/output-vector", "the registered vector is a locally built Vec", loc(regs[0]), T.show(out)[:200])

    def container_pushes(c):
        return T.contents(effs, c)

    # is_dummy flags: a container D whose only push is bytes_digest_eq(limbs4<BLOCK_HASH>(pis_i), [zero;4])
    D = B = None
    d_eff = None
    for e in effs:
        if e.raw.get("name") == "push" and len(e.args) == 2:
            val = C(e.args[1], e)
            nm = P.call_name(val)
            if nm and nm.endswith("gadgets::bytes_digest_eq"):
                a = [P.norm(x) for x in val[4][1:]]
                rd = [v.read(x) for x in a]
                zs = [x for x in a if isinstance(x, tuple) and x[0] == "array" and len(x[1]) == 4 and all(P.const_of(y) == 0 for y in x[1])]
                hit = [r for r in rd if r and r[1] == Kc["BLOCK_HASH_START"] and r[2] == 4]
                if hit and zs:
                    D = e.args[0]
                    d_eff = e
                    d_read = hit[0]
                    d_block = [x for x, r in zip(a, rd) if r and r[1] == Kc["BLOCK_HASH_START"]][0]
    if D is None:
        ob.add({"C06", "C07", "C09", "C08"}, False, "TERM", "pb/is-dummy-flag", "no per-slot flag is_dummy_i = bytes_digest_eq(block_hash_i, [0;4]) found", loc0)
        return ob, v
    D = P.norm(D)
    dpush = container_pushes(D)
    ob.add({"C06", "C07", "C09"}, len(dpush) == 1 and dpush[0][0] == "one", "TERM", "pb/is-dummy-flag",
           "is_dummy_i = bytes_digest_eq(limbs4<%d,BLOCK_HASH_START=%d>(pis_i), [zero;4]), one flag per slot, nothing else written to the flag vector" % (Kc["LEAF_PI_LEN"], Kc["BLOCK_HASH_START"]),
           loc(d_eff), [(k, T.show(t)[:200]) for k, t, _ in dpush])
    d_nest = nest(d_eff)
    take_ok = d_nest.depth() == 1 and d_nest.var(0) == d_read[0] and over_slots(d_read[0]) and not circ.uncond_problems(d_eff)
    # the iterable is the per-proof PI view in proof order
    ob.add({"C06", "C07", "C09"}, take_ok, "TERM", "pb/is-dummy-flag/all-slots", "flags are pushed once per proof, in proof order, for the first n_leaf proofs (D[i] belongs to proof i)", loc(d_eff),
           [T.show(x)[:200] for x in d_nest.loops])
    # block hashes container: same loop, pushes the same block term
    for e in effs:
        if e.raw.get("name") == "push" and len(e.args) == 2 and P.norm(e.args[0]) != D and circ.loops_of(e) == d_nest.loops and C(e.args[1], e) == d_block:
            B = P.norm(e.args[0])
    ob.add({"C06", "C07"}, B is not None and len(container_pushes(B)) == 1, "TERM", "pb/block-hashes", "block_hashes[i] is the same BLOCK_HASH limbs read as the flag's operand, pushed in the same loop", loc(d_eff))

    def Dat(t):
        """index i if t == D[i]"""
        t = P.norm(t)
        if isinstance(t, tuple) and t and t[0] == "idx" and t[1] == D:
            return t[2]
        return None

    def notD(t):
        a = P.match(Cb("cb.not", V("x")), t)
        return Dat(a["x"]) if a else None

    def block_of(t):
        """index i if t is block hash i: block_hashes[i] or the same limbs4 read"""
        t = P.norm(t)
        if B is not None and isinstance(t, tuple) and t and t[0] == "idx" and t[1] == B:
            return t[2]
        r = v.read(t)
        if r and r[1] == Kc["BLOCK_HASH_START"] and r[2] == 4:
            return r[0]
        return None

    # ---------------------------------------------------------------- first-real scan
    items = list(seq)

    def scan_select(step, key):
        """step = select(take_i, value_i, Rec) -> (take_i, value_i)"""
        b = P.match(Cb("cb.select", V("take"), V("val"), V("keep")), step)
        if not b:
            return None
        kp = P.norm(b["keep"])
        return b["take"], b["val"], kp

    def check_take(take, what, e):
        """take_i = and(not D[i], not found_real) with found_real = phi(false, or(rec, not D[i])); returns i"""
        lv = [P.norm(x) for x in _and_leaves(take)]
        idxs = [notD(x) for x in lv]
        i = [x for x in idxs if x is not None]
        rest = [x for x, ix in zip(lv, idxs) if ix is None]
        ok = len(lv) == 2 and len(i) == 1 and len(rest) == 1
        fr_ok = False
        if ok:
            a = P.match(Cb("cb.not", V("f")), rest[0])
            if a:
                f = P.norm(a["f"])
                if isinstance(f, tuple) and f[0] == "phi" and len(f[2]) == 2:
                    init = [m for m in f[2] if P.const_of(m) == 0]
                    step = [m for m in f[2] if P.const_of(m) is None]
                    if len(init) == 1 and len(step) == 1:
                        o = P.cb_args(step[0], "cb.or")
                        if o is not None:
                            o = [P.norm(x) for x in o]
                            recs = [x for x in o if isinstance(x, tuple) and x[0] in ("rec", "phi")]
                            others = [x for x in o if not (isinstance(x, tuple) and x[0] in ("rec", "phi"))]
                            fr_ok = len(recs) == 1 and len(others) == 1 and notD(others[0]) == i[0]
        # 0..n_leaf, also written 0..is_dummy_flags.len(): the flag vector has exactly one entry per slot (pb/is-dummy-flag/all-slots)
        rng_ok = ok and (over_slots(i[0]) or (take_ok and lc.is_var(i[0], 0, ("len", D))))
        ob.add({"C06", "C09"}, ok and fr_ok and rng_ok, "TERM", "pb/first-real/%s/take" % what,
               "take_i = and(not is_dummy_i, not found_real), found_real = {false, or(found_real, not is_dummy_i)}, i over 0..n_leaf", loc(e), T.show(take, maxdepth=9)[:500])
        return i[0] if ok else None

    def expect_scalar_ref(t, off, what, e):
        t = C(t)
        good = False
        if isinstance(t, tuple) and t[0] == "phi" and len(t[2]) == 2:
            init = [m for m in t[2] if P.const_of(m) == 0]
            step = [m for m in t[2] if P.const_of(m) is None]
            if len(init) == 1 and len(step) == 1:
                s = scan_select(step[0], t[1])
                if s:
                    take, val, keep = s
                    i = check_take(take, what, e)
                    rd = v.read(val)
                    good = (i is not None and rd is not None and rd[0] == i and rd[1] == off and rd[2] == 1 and isinstance(keep, tuple) and keep[0] in ("rec", "phi"))
        ob.add({"C06", "C09"}, good, "TERM", "pb/first-real/%s" % what,
               "%s_ref = {zero, select(take_i, pis_i[%d], %s_ref)}: the value of the first non-dummy slot, zero if none" % (what, off, what), loc(e), T.show(t, maxdepth=6)[:400])
        return t

    # expected order of the header
    hdr_ok = len(items) >= 5
    if hdr_ok:
        k0, t0, e0 = items[0]
        c0 = P.cb_args(t0, "cb.constant")
        v0 = None
        if c0 is not None:
            inner = P.norm(c0[0])
            if P.call_name(inner) and inner[4]:
                v0 = P.norm(inner[4][-1])
        ob.add({"C06"}, k0 == "one" and v0 is not None and twice_n(v0), "TERM", "pb/out/num-exit-slots",
               "output[0] = constant(2 * n_leaf)", loc(e0), T.show(t0))
        k1, t1, e1 = items[1]
        rd = v.read(C(t1))
        ob.add({"C06"}, k1 == "one" and rd is not None and P.const_of(rd[0]) == 0 and rd[1] == Kc["ASSET_ID_START"] and rd[2] == 1, "TERM", "pb/out/asset",
               "output[1] = asset id of slot 0 (all slots are constrained equal to it)", loc(e1), T.show(t1))
        asset_ref = C(t1)
        k2, t2, e2 = items[2]
        ob.add({"C06"}, k2 == "one", "ORDER", "pb/out/fee-pos", "output[2] is one felt (fee reference)", loc(e2))
        fee_ref = expect_scalar_ref(t2, Kc["VOLUME_FEE_BPS_START"], "fee", e2)
        k3, t3, e3 = items[3]
        t3 = C(t3)
        good = False
        if k3 == "all" and isinstance(t3, tuple) and t3[0] == "upd" and isinstance(t3[2], tuple) and t3[2][0] == "array" and len(t3[2][1]) == 4 and all(P.const_of(x) == 0 for x in t3[2][1]) and len(t3[3]) == 1:
            proj, val = t3[3][0]
            s = scan_select(val, t3[1])
            if s and len(proj) == 1 and proj[0][0] == "i":
                j = proj[0][1]
                take, bv, keep = s
                i = check_take(take, "block-hash", e3)
                bv = P.norm(bv)
                good = (i is not None and lc.is_var(j, 0, 4) and isinstance(bv, tuple) and bv[0] == "idx" and bv[2] == j and block_of(bv[1]) == i
                        and isinstance(keep, tuple) and keep[0] == "idx" and keep[2] == j)
                # the write happens for every (slot, limb): its only control context is the enclosing loops
                good = good and all(g[0] == "loop" for c in T.upd_write_ctrl(v.ev, t3) for g in c) and bool(T.upd_write_ctrl(v.ev, t3))
        ob.add({"C06", "C09"}, good, "TERM", "pb/first-real/block-hash", "block_ref[j] = {zero, select(take_i, block_hashes[i][j], block_ref[j])} for j in 0..4; emitted as 4 felts at output[3..7]", loc(e3), T.show(t3, maxdepth=6)[:500])
        block_ref = t3
        k4, t4, e4 = items[4]
        ob.add({"C06"}, k4 == "one", "ORDER", "pb/out/block-number-pos", "output[7] is one felt (block number reference)", loc(e4))
        expect_scalar_ref(t4, Kc["BLOCK_NUMBER_START"], "block-number", e4)
        hdr_uncond = all(not circ.uncond_problems(e) and not circ.loops_of(e) for _, _, e in items[:5])
        ob.add({"C06"}, hdr_uncond, "UNCOND", "pb/out/header-straight-line", "the five header appends are unconditional and outside any loop (header length is 8)", loc(e0))
    else:
        ob.add({"C06"}, False, "ORDER", "pb/out/header", "output vector has fewer than 5 header appends", loc0)
        return ob, v

    # ---------------------------------------------------------------- consistency constraints (C07)
    cons = [e for e in effs if e.name in circ.CONSTRAINT_NAMES and e.name not in ("cb.register_public_inputs",)]
    classified = {}
    for e in cons:
        ops = [C(x, e) for x in circ.cb_operands(e)]
        cls = None
        detail = [T.show(x, maxdepth=6)[:300] for x in ops]
        if e.name == "cb.connect":
            for x, y in ((ops[0], ops[1]), (ops[1], ops[0])):
                if P.const_of(y) == 1:
                    o = P.cb_args(x, "cb.or")
                    if o is not None:
                        o = [P.norm(z) for z in o]
                        di = [Dat(z) for z in o]
                        if sum(1 for d in di if d is not None) == 1:
                            i = [d for d in di if d is not None][0]
                            other = [z for z, d in zip(o, di) if d is None][0]
                            nm = P.call_name(other)
                            if nm and nm.endswith("gadgets::bytes_digest_eq"):
                                a = [P.norm(z) for z in other[4][1:]]
                                if block_ref in a and any(block_of(z) == i for z in a if z != block_ref):
                                    cls = ("block", i)
                            eq = P.cb_args(other, "cb.is_equal")
                            if eq is not None:
                                eq = [P.norm(z) for z in eq]
                                rds = [v.read(z) for z in eq]
                                if fee_ref in eq and any(r and r[1] == Kc["VOLUME_FEE_BPS_START"] and r[2] == 1 for r in rds):
                                    r = [r for r in rds if r][0]
                                    cls = ("fee", i, r[0])
                if P.const_of(y) == 0:
                    lv = [P.norm(z) for z in _and_leaves(x)]
                    nd = [notD(z) for z in lv]
                    idx = [d for d in nd if d is not None]
                    rest = [z for z, d in zip(lv, nd) if d is None]
                    if len(lv) == 3 and len(idx) == 2 and len(rest) == 1:
                        nm = P.call_name(rest[0])
                        if nm and nm.endswith("gadgets::bytes_digest_eq"):
                            a = [v.read(z) for z in rest[0][4][1:]]
                            if all(r and r[1] == Kc["NULLIFIER_START"] and r[2] == 4 for r in a) and sorted(map(str, [a[0][0], a[1][0]])) == sorted(map(str, idx)):
                                cls = ("unique", idx[0], idx[1])
            if cls is None:
                rds = [v.read(z) for z in ops]
                hit = [r for r, z in zip(rds, ops) if r and r[1] == Kc["ASSET_ID_START"] and r[2] == 1 and z != asset_ref]
                if asset_ref in ops and hit:
                    cls = ("asset", hit[0][0])
        elif e.name == "cb.range_check":
            cls = ("range", P.const_of(ops[1]))
        classified.setdefault(cls[0] if cls else None, []).append((e, cls, detail))
    for e, cls, detail in classified.get(None, []):
        ob.add({"C07", "C10"}, False, "INV", "pb/constraint/unexpected@%s" % e.name, "a constraint outside the five acceptance classes (it changes the accepted set)", loc(e), detail)
    for name, what in (("block", "is_dummy_i OR block_hash_i == block_ref"), ("asset", "asset_i == asset_ref (ungated)"), ("fee", "is_dummy_i OR fee_i == fee_ref")):
        hits = classified.get(name, [])
        ok = len(hits) == 1
        e = hits[0][0] if hits else None
        if ok:
            ns = nest(e)
            iv = ns.var(0) if ns.depth() == 1 else None
            ok_loop = iv is not None and over_slots(iv)
            cls = hits[0][1]
            if name in ("block", "fee"):
                ok_loop = ok_loop and cls[1] == iv
            if name == "fee" and ok_loop:
                ok_loop = cls[2] == iv
            if name == "asset" and ok_loop:
                ok_loop = cls[1] == iv
            ob.add({"C07"}, ok_loop and not circ.uncond_problems(e), "TERM+UNCOND", "pb/constraint/%s/every-slot" % name,
                   "the %s constraint is emitted for every slot i in 0..n_leaf with the flag and the data of the same slot" % name, loc(e), [T.show(l)[:200] for l in ns.loops])
        ob.add({"C07"}, ok, "INV", "pb/constraint/%s" % name, "exactly one `%s` constraint site (found %d)" % (what, len(hits)), loc(e))
    # asset constraint must not be gated
    hits = classified.get("asset", [])
    if hits:
        e = hits[0][0]
        ops = [C(x, e) for x in circ.cb_operands(e)]
        gated = any(Dat(s) is not None for o in ops for s in T.walk(o))
        ob.add({"C07"}, not gated, "TERM", "pb/constraint/asset/ungated", "asset equality holds for dummy slots too (no flag in its operands)", loc(e))
    hits = classified.get("unique", [])
    ok = len(hits) == 1
    e = hits[0][0] if hits else None
    ob.add({"C07"}, ok, "INV", "pb/constraint/unique", "exactly one `NOT(real_i AND real_j AND nullifier_i == nullifier_j)` constraint site (found %d)" % len(hits), loc(e))
    if ok:
        ns = nest(e)
        good = False
        if ns.depth() == 2 and ns.var(0) is not None and ns.var(1) is not None:
            i, j = ns.var(0), ns.var(1)
            lo = P.norm(j[1]) if not isinstance(j[1], int) else j[1]
            next_i = isinstance(lo, tuple) and lo[0] == "bin" and lo[1].startswith("Add") and ((lo[2] == i and P.const_of(lo[3]) == 1) or (lo[3] == i and P.const_of(lo[2]) == 1))
            good = over_slots(i) and next_i and j[2] == i[2]
            cls = hits[0][1]
            good = good and {str(cls[1]), str(cls[2])} == {str(i), str(j)}
        ob.add({"C07"}, good and not circ.uncond_problems(e), "TERM+UNCOND", "pb/constraint/unique/all-pairs", "emitted for every pair i in 0..n, j in i+1..n", loc(e), [T.show(l)[:160] for l in ns.loops])
    hits = classified.get("range", [])
    ob.add({"C07", "C08"}, len(hits) == 1 and hits[0][1][1] is not None and hits[0][1][1] <= 32, "INV", "pb/constraint/range",
           "exactly one range_check site, on the grouped exit sum, to <= 32 bits (found %d, bits %s)" % (len(hits), hits[0][1][1] if hits else None), loc(hits[0][0]) if hits else loc0)

    # ---------------------------------------------------------------- masking + grouping
    # slot loop: items[5] = final_sum (one), items[6..9] = final_exit limbs
    body_items = items[5:]

    def slot_loop(e_):
        ns_ = nest(e_)
        x = ns_.var(0) if ns_.depth() == 1 else None
        return x if (x is not None and slot_dom(x)) else None

    def slot_dom(x):
        """x ranges over the 2 * n_leaf exit slots: 0..2n, or 0..len(v) for a vector v holding exactly one entry per slot"""
        if not (isinstance(x, tuple) and len(x) == 4 and x[0] == "lv" and x[1] == 0) or isinstance(x[2], int):
            return False
        if twice_n(x[2]):
            return True
        if isinstance(x[2], tuple) and len(x[2]) == 2 and x[2][0] == "len":
            f = v.filled(x[2][1])
            return f is not None and f[1][1] == 0 and not isinstance(f[1][2], int) and twice_n(f[1][2])
        return False

    slot_items = [it for it in body_items if it[2] is not None and slot_loop(it[2]) is not None]
    good = len(slot_items) == 5
    SE = SA = None
    slot = None
    if good:
        slot = slot_loop(slot_items[0][2])
        lp = circ.loops_of(slot_items[0][2])
        good = all(circ.loops_of(it[2]) == lp and it[0] == "one" for it in slot_items)
    ob.add({"C06"}, good, "ORDER", "pb/out/exit-slots", "after the header, one loop over slot in 0..2*n_leaf appends [sum, exit limb 0..3] per slot (5 felts)", loc(slot_items[0][2]) if slot_items else loc0,
           [(k, T.show(t, maxdepth=3)[:120]) for k, t, _ in body_items[:8]])
    by_result = {}
    for e_ in effs:
        if e_.result is not None:
            by_result.setdefault(P.norm(e_.result), e_)

    def C_carried(t_raw, e_consumer):
        """canonical form of a loop-carried value: every member is canonicalised in the nest of the effect that computes it (an inner
        loop the consumer is not part of keeps its own variable, also when it has the same domain as an enclosing loop)"""
        t_raw = P.norm(t_raw)
        if isinstance(t_raw, tuple) and t_raw and t_raw[0] == "phi":
            return ("phi", t_raw[1], tuple(C(m, by_result.get(P.norm(m), e_consumer)) for m in t_raw[2]))
        return C(t_raw, e_consumer)

    if good:
        e_s = slot_items[0][2]
        fs = C(slot_items[0][1], e_s)
        b_raw = P.match(Cb("cb.select", V("dup"), K(0), V("acc")), P.norm(slot_items[0][1]))
        b = {"dup": C_carried(b_raw["dup"], e_s), "acc": C_carried(b_raw["acc"], e_s)} if b_raw else None
        gsum = False
        if b:
            dup, acc = P.norm(b["dup"]), P.norm(b["acc"])
            vj = None
            if isinstance(acc, tuple) and acc[0] == "phi" and len(acc[2]) == 2:
                init = [m for m in acc[2] if P.const_of(m) == 0]
                step = [m for m in acc[2] if P.const_of(m) is None]
                if len(init) == 1 and len(step) == 1:
                    a = P.cb_args(step[0], "cb.add")
                    if a is not None:
                        a = [P.norm(x) for x in a]
                        recs = [x for x in a if isinstance(x, tuple) and x[0] in ("rec", "phi")]
                        oth = [x for x in a if not (isinstance(x, tuple) and x[0] in ("rec", "phi"))]
                        if len(recs) == 1 and len(oth) == 1:
                            s = kept_when(oth[0])
                            if s:
                                m, amt = P.norm(s[0]), P.norm(s[1])
                                if P.call_name(m) and P.call_name(m).endswith("gadgets::bytes_digest_eq"):
                                    ma = [P.norm(x) for x in m[4][1:]]
                                    es = [x for x in ma if isinstance(x, tuple) and x[0] == "idx" and x[2] == slot]
                                    ej = [x for x in ma if isinstance(x, tuple) and x[0] == "idx" and x not in es]
                                    if len(ej) == 1 and len(es) == 1 and isinstance(amt, tuple) and amt[0] == "idx" and amt[2] == ej[0][2] and lc.is_var(amt[2], 0):
                                        SE, SA, vj = ej[0][1], amt[1], amt[2]
                                        gsum = es[0][1] == SE
            ob.add({"C06", "C08"}, gsum, "TERM", "pb/group/sum", "acc = {zero, add(acc, select(exit_j == exit_slot, amount_j, zero))} over ALL (exit_j, amount_j) pairs", loc(e_s), T.show(acc, maxdepth=7)[:500])
            if gsum:
                # the summation variable ranges over all of both vectors: their zip in full, or 0..2n when both hold one entry per slot
                fse, fsa = v.filled(SE), v.filled(SA)
                per_slot = fse is not None and fsa is not None and slot_dom(fse[1]) and slot_dom(fsa[1])
                whole = vj[2] in (("minlen", SE, SA), ("minlen", SA, SE)) or (per_slot and slot_dom(vj))
                ob.add({"C08"}, whole, "TERM", "pb/group/sum-over-all", "the summation ranges over every (slot_exits[j], slot_amounts[j]) pair (the zip of both vectors, or 0..2n) without take/skip", loc(e_s), T.show(vj))
                # is_duplicate
                gd = False
                if isinstance(dup, tuple) and dup[0] == "phi" and len(dup[2]) == 2:
                    init = [m for m in dup[2] if P.const_of(m) == 0]
                    step = [m for m in dup[2] if P.const_of(m) is None]
                    if len(init) == 1 and len(step) == 1:
                        o = P.cb_args(step[0], "cb.or")
                        if o is not None:
                            o = [P.norm(x) for x in o]
                            oth = [x for x in o if not (isinstance(x, tuple) and x[0] in ("rec", "phi"))]
                            if len(oth) == 1 and P.call_name(oth[0]) and P.call_name(oth[0]).endswith("gadgets::bytes_digest_eq"):
                                ma = [P.norm(x) for x in oth[0][4][1:]]
                                earlier = [x for x in ma if isinstance(x, tuple) and x[0] == "idx" and x[1] == SE and x[2] != slot]
                                # the earlier-slot variable ranges over exactly 0..slot
                                gd = ("idx", SE, slot) in ma and len(earlier) == 1 and lc.is_var(earlier[0][2], 0) and earlier[0][2][2] == slot
                ob.add({"C06", "C08"}, gd, "TERM", "pb/group/duplicate", "is_duplicate = {false, or(is_duplicate, exit_earlier == exit_slot)} over slot_exits.take(slot) — exactly the earlier slots", loc(e_s), T.show(dup, maxdepth=6)[:400])
                # final exit limbs
                fe = True
                for k in range(4):
                    tk = C(slot_items[1 + k][1], slot_items[1 + k][2])
                    bb = P.match(Cb("cb.select", V("d"), K(0), V("x")), tk)
                    fe = fe and bb is not None and P.norm(bb["d"]) == dup and P.norm(bb["x"]) == ("idx", ("idx", SE, slot), ("c", k, None))
                ob.add({"C06", "C08", "C09"}, fe, "TERM", "pb/group/final-exit", "final_exit[k] = select(is_duplicate, zero, exit_slot[k]) for k = 0..3, appended in limb order after the sum", loc(slot_items[1][2]))
                # range check is on final_sum
                rc = classified.get("range", [])
                if rc:
                    e = rc[0][0]
                    ob.add({"C07", "C08"}, C(circ.cb_operands(e)[0], e) == fs and circ.loops_of(e) == circ.loops_of(e_s) and not circ.uncond_problems(e), "TERM+UNCOND", "pb/constraint/range/operand",
                           "range_check(final_sum, 32) for every exit slot", loc(e))
        else:
            ob.add({"C06", "C08"}, False, "TERM", "pb/group/final-sum", "final_sum = select(is_duplicate, zero, acc)", loc(e_s), T.show(fs, maxdepth=4)[:300])
    # masking of the slot vectors
    if SE is not None:
        for cont, nm in ((SE, "exit"), (SA, "amount")):
            ps = container_pushes(cont)
            okp = len(ps) == 1 and ps[0][0] == "one" and slot_loop(ps[0][2]) is not None and not circ.uncond_problems(ps[0][2])
            detail = [(k, T.show(t, maxdepth=5)[:300]) for k, t, _ in ps]
            if okp:
                e = ps[0][2]
                s2 = slot_loop(e)
                pidx = ("bin", "Div", s2, ("c", 2, None))
                val = C(ps[0][1], e)
                J = None
                if nm == "exit" and isinstance(val, tuple) and val[0] == "from_fn":
                    J = ("sym", "J")
                    val = C(fr.index(P.norm(ps[0][1]), J), e)
                mk = masked(val)
                okm = mk is not None and Dat(mk[0]) == pidx
                ob.add({"C06", "C08", "C09"}, okp and okm, "TERM", "pb/mask/%s" % nm,
                       "slot_%ss[slot] = select(is_dummy[slot / 2], zero, raw) for slot in 0..2*n_leaf (dummy slots contribute the zero %s)" % (nm, nm), loc(e), detail)
                if okp and okm:
                    raw = P.norm(mk[1])
                    # raw comes from the (proof_idx, output_idx) accessor: evaluate it for output_idx 0 and 1
                    pair_ok = False
                    det = None
                    clos = None
                    for x in effs:
                        if x.raw.get("name") in ("call", "call_mut", "call_once") and circ.loops_of(x) == circ.loops_of(e) and isinstance(x.args[0], tuple) and x.args[0][0] == "closure":
                            clos = x
                    if clos is not None:
                        argt = C(clos.args[1], clos)
                        a_ok = isinstance(argt, tuple) and argt[0] == "tuple" and P.norm(argt[1][0]) == pidx and P.norm(argt[1][1]) == ("bin", "Rem", s2, ("c", 2, None))
                        res = []
                        for oi in (0, 1):
                            rt = fr.closure_ret(clos.args[0], [pidx, ("c", oi, None)], site_hint=clos.site + "#o%d" % oi)
                            if isinstance(rt, tuple) and rt[0] == "tuple" and len(rt[1]) == 2:
                                res.append((v.read(C(rt[1][0])), v.read(C(rt[1][1]))))
                        want = [((pidx, Kc["EXIT_1_START"], 4), (pidx, Kc["OUTPUT_AMOUNT_1_START"], 1)), ((pidx, Kc["EXIT_2_START"], 4), (pidx, Kc["OUTPUT_AMOUNT_2_START"], 1))]
                        pair_ok = a_ok and res == want
                        det = {"args": T.show(argt)[:200], "evaluated": str(res)[:400]}
                        # and the masked raw value is that accessor's component
                        comp = C(fr.closure_ret(clos.args[0], list(P.norm(clos.args[1])[1]), site_hint=clos.site), clos) if a_ok else None
                        if comp is not None and isinstance(comp, tuple) and comp[0] == "tuple":
                            want_raw = P.norm(comp[1][0]) if nm == "exit" else P.norm(comp[1][1])
                            got_raw = raw[1] if (nm == "exit" and isinstance(raw, tuple) and raw[0] == "idx") else raw
                            pair_ok = pair_ok and (got_raw == want_raw)
                    ob.add({"C06", "C08", "C09"}, pair_ok, "TERM", "pb/mask/%s/source" % nm,
                           "slot 2i reads (EXIT_1, OUTPUT_AMOUNT_1) and slot 2i+1 reads (EXIT_2, OUTPUT_AMOUNT_2) of proof i = slot / 2", loc(e), det)
            else:
                ob.add({"C06", "C08", "C09"}, False, "TERM", "pb/mask/%s" % nm, "slot_%ss has exactly one masked push per slot" % nm, loc0, detail)

    # ---------------------------------------------------------------- nullifier region
    after = [it for it in body_items if it not in slot_items]
    def unstamp(l):
        return l[2] if (isinstance(l, tuple) and len(l) == 3 and l[0] == "rng") else l

    null_items = [it for it in after if it[2] is not None and any(P.call_name(unstamp(l)) and P.call_name(unstamp(l)).endswith("gadgets::sort_digests4") for l in circ.loops_of(it[2]))]
    okn = len(null_items) == 1 and null_items[0][0] == "all"
    SN = None
    # the same region written without a loop: `output.extend(sort_digests4(..).iter().flatten().copied())` — every digest's four limbs
    # in order, digest after digest
    flat = [it for it in after if it[0] == "all" and it[2] is not None and not circ.loops_of(it[2]) and isinstance(P.norm(it[1]), tuple) and P.norm(it[1])[0] == "flatten"
            and (P.call_name(unstamp(P.norm(it[1])[1])) or "").endswith("gadgets::sort_digests4")]
    if not null_items and len(flat) == 1:
        null_items = flat
        okn = not circ.uncond_problems(flat[0][2])
        SN = P.norm(unstamp(P.norm(flat[0][1])[1])[4][1])
    elif okn:
        e = null_items[0][2]
        lp3 = circ.loops_of(e)[0]
        okn = P.norm(null_items[0][1]) == ("elem", lp3) and len(circ.loops_of(e)) == 1
        SN = P.norm(unstamp(lp3)[4][1])
    ob.add({"C06", "C09", "C10"}, okn, "ORDER+PROV", "pb/out/nullifiers-sorted", "the nullifier region is appended digest by digest from the result of sort_digests4(selected_nullifiers)", loc(null_items[0][2]) if null_items else loc0,
           [(k, T.show(t)[:200]) for k, t, _ in after[:4]])
    if SN is not None:
        ps = container_pushes(SN)
        good = len(ps) == 1 and ps[0][0] == "one"
        okh = True
        det = [(k, T.show(t, maxdepth=6)[:600]) for k, t, _ in ps]
        if good:
            e = ps[0][2]
            arr = C(ps[0][1], e)
            ns = nest(e)
            i = ns.var(0) if ns.depth() == 1 else None
            if isinstance(arr, tuple) and arr and arr[0] == "from_fn":
                arr = ("array", tuple(C(fr.index(P.norm(ps[0][1]), ("c", k, None)), e) for k in range(4)))
            good = i is not None and over_slots(i) and isinstance(arr, tuple) and arr[0] == "array" and len(arr[1]) == 4 and not circ.uncond_problems(e)
            if good:
                from .leaf import double_hash_preimage
                for k in range(4):
                    b = P.match(Cb("cb.select", V("d"), V("dn"), V("rn")), arr[1][k])
                    if not b or Dat(b["d"]) != i:
                        good = False
                        break
                    rn = P.norm(b["rn"])
                    dn = P.norm(b["dn"])
                    rrd = v.read(rn[1]) if (isinstance(rn, tuple) and rn[0] == "idx" and rn[2] == ("c", k, None)) else None
                    good = good and rrd == (i, Kc["NULLIFIER_START"], 4)
                    # helpers of the crate are expanded in place, so the dummy replacement is visible as H(H(preimage_i)).elements[k]
                    dpre = double_hash_preimage(dn[1]) if (isinstance(dn, tuple) and dn[0] == "idx" and dn[2] == ("c", k, None)) else None
                    dn_ok = dpre is not None and P.norm(dpre) == ("idx", ("fld", v.targets, "dummy_nullifier_pre_images"), i)
                    okh = okh and dn_ok
                    good = good and dn_ok
        ob.add({"C06", "C09"}, good, "TERM", "pb/nullifier/select", "selected[i][k] = select(is_dummy_i, H(H(preimage_i))[k], nullifier_i[k]) for i in 0..n_leaf, k in 0..4", loc(ps[0][2]) if ps else loc0, det)
        ob.add({"C06"}, good and okh, "TERM", "pb/nullifier/dummy-hash", "dummy replacement is H(H(preimage)) (double Poseidon2 over the 4 preimage felts of that slot)", loc(ps[0][2]) if ps else loc0, det)

    # ---------------------------------------------------------------- padding
    pad = [it for it in after if it not in null_items]
    okp = len(pad) == 1 and pad[0][0] == "one" and P.const_of(pad[0][1]) == 0
    bound = None
    resized = [it for it in pad if it[0] == "mutate:resize"]
    if len(pad) == 1 and len(resized) == 1 and len(resized[0][2].args) == 3 and P.const_of(resized[0][2].args[2]) == 0 and not circ.loops_of(resized[0][2]) and not [c for c in resized[0][2].ctrl if c[0] == "case"]:
        # `output.resize(pi_len(n_leaf), zero)`: pads with zeros up to the bound; it cannot truncate because the produced length
        # 8 + 10n + 4n never exceeds the bound (obligation pb/out/length below, evaluated for every n)
        okp, bound = True, P.norm(resized[0][2].args[1])
        pad_is_resize = True
    elif okp:
        e = pad[0][2]
        cases = [c for c in e.ctrl if c[0] == "case"]
        okp = len(cases) == 1 and not circ.loops_of(e)
        if okp:
            c = cases[0]
            cond = c[1]
            okp = isinstance(cond, tuple) and cond[0] == "bin" and cond[1] == "Lt" and cond[2] == ("len", out) and tuple(c[2]) == ("else",)
            bound = cond[3] if okp else None
    ob.add({"C06"}, okp, "ORDER", "pb/out/padding", "the only other append is `while output.len() < pi_len(n_leaf) { push(zero) }`", loc(pad[0][2]) if pad else loc0, [(k, T.show(t)[:100]) for k, t, _ in pad])
    if bound is not None:
        bad = []
        for nv in range(1, 65):
            val = eval_int(bound, {n: nv})
            used = 8 + 2 * nv * 5 + 4 * nv
            if val != Kc["LEAF_PI_LEN"] * nv + 8 or used > val:
                bad.append((nv, val, used))
        ob.add({"C06", "C36"}, not bad and Kc["LEAF_PI_LEN"] == 21, "IVL", "pb/out/length", "padded length = 21*n + 8 and header(8) + 10n + 4n fits, for every n in 1..64 (evaluated on the extracted layout terms)", loc(pad[0][2]), bad[:4])
    # no mutation of the output vector other than the appends above
    muts = [k for k, t, e in seq if k.startswith("mutate") and not (k == "mutate:resize" and resized and bound is not None)]
    ob.add({"C06"}, not muts and len(items) == 5 + 5 + 1 + 1, "ORDER", "pb/out/append-only", "the output vector is only appended to, by exactly the 12 sites above", loc0, [k for k, _, _ in items])

    # ---------------------------------------------------------------- free witnesses
    free = [e for e in effs if e.name in circ.FREE_NAMES or e.name.endswith("BoolTarget::new_unsafe")]
    ob.add({"C10"}, not free, "FREE", "pb/free-none", "the wrapper logic creates no virtual target and no unsafe boolean (every wire is computed from the child public inputs and preimages)", loc(free[0]) if free else loc0)

    v.D, v.B, v.SE, v.SA, v.SN, v.out, v.seq = D, B, SE, SA, SN, out, seq
    v.classified = classified
    return ob, v


def prog_one(prog, rx):
    return prog.one(rx, AGG)


def unmap(l):
    """iterable with `map(closure)` layers removed (the closure's effect is already applied to the element term)"""
    if isinstance(l, tuple) and l:
        if l[0] == "map":
            return unmap(l[1])
        if l[0] in ("take", "skip"):
            return (l[0], unmap(l[1]), l[2])
        if l[0] in ("enumerate", "rev"):
            return (l[0], unmap(l[1]))
        if l[0] == "zip":
            return ("zip", unmap(l[1]), unmap(l[2]))
    return l


def _and_leaves(t):
    a = P.cb_args(t, "cb.and")
    if a is None:
        return [P.norm(t)]
    return _and_leaves(a[0]) + _and_leaves(a[1])


def eval_int(t, env):
    """evaluate a build-time integer term under an assignment of parameter terms to ints"""
    if isinstance(t, int):
        return t
    t = P.norm(t)
    if t in env:
        return env[t]
    if T.is_const(t):
        return t[1]
    if isinstance(t, tuple) and t and t[0] == "bin":
        a, b = eval_int(t[2], env), eval_int(t[3], env)
        if a is None or b is None:
            return None
        op = t[1].replace("WithOverflow", "").replace("Unchecked", "")
        try:
            return {"Add": a + b, "Sub": a - b, "Mul": a * b, "Div": a // b if b else None, "Rem": a % b if b else None}.get(op)
        except Exception:
            return None
    return None


# ---- GATE: every flow from a per-slot child field to an output / constraint operand is cut by that slot's dummy gate

def gate_analysis(ob, v):
    """walk every output item and every constraint operand (loop-canonical terms); a read of child i's public inputs at an offset
    other than the asset id / block hash must sit (a) in the `else` branch of select(is_dummy_i, ·, X), (b) in the `then` branch of
    select(c, X, ·) with c an and-tree containing not(is_dummy_i), (c) beside is_dummy_i in an `or`, (d) beside not(is_dummy_i) in an
    `and`, or (e) as a factor of mul(not(is_dummy_i), ·) — with the SAME index term i. Containers are followed through their pushes."""
    Kc = v.K
    D = v.D
    effs = v.effects
    free_offsets = set([Kc["ASSET_ID_START"]]) | set(range(Kc["BLOCK_HASH_START"], Kc["BLOCK_HASH_START"] + 4))
    problems = []
    checked = {"reads": 0, "gated": 0, "free": 0}
    seen_cont = {}

    def Dat(t):
        t = P.norm(t)
        if isinstance(t, tuple) and t and t[0] == "idx" and t[1] == D:
            return t[2]
        return None

    def notD(t):
        a = P.match(Cb("cb.not", V("x")), t)
        return Dat(a["x"]) if a else None

    def direct_read(t):
        """a child read in the term itself (not through a filled vector: those are followed as containers, with their own gates)"""
        n_ = P.call_name(t)
        if n_ and (n_.endswith("gadgets::limb1_at_offset") or n_.endswith("gadgets::limbs4_at_offset")):
            return True
        return isinstance(t, tuple) and t and t[0] == "idx" and v.pis_index(t[1]) is not None

    def walk(t, guards, where, depth=0):
        t = P.norm(t)
        if not isinstance(t, tuple) or not t or depth > 60:
            return
        rd = v.read(t) if direct_read(t) else None
        if rd is not None:
            i, off, w = rd
            checked["reads"] += 1
            if off is None:
                problems.append((where, "unrecognised child read", T.show(t)[:200]))
                return
            offs = set(range(off, off + w))
            if offs <= free_offsets:
                checked["free"] += 1
                return
            if i in guards:
                checked["gated"] += 1
                return
            problems.append((where, "child field at offset %d of slot %s reaches this point without that slot's dummy gate" % (off, T.show(i)[:80]), T.show(t)[:200]))
            return
        tag = t[0]
        a = P.cb_args(t, "cb.select")
        if a is not None:
            c, x, y = [P.norm(z) for z in a]
            di = Dat(c)
            if di is not None:
                walk(x, guards, where, depth + 1)
                walk(y, guards | {di}, where, depth + 1)
                return
            nots = [notD(z) for z in _and_leaves(c)]
            nots = set(z for z in nots if z is not None)
            walk(c, guards, where, depth + 1)
            walk(x, guards | nots, where, depth + 1)
            walk(y, guards, where, depth + 1)
            return
        a = P.cb_args(t, "cb.or")
        if a is not None:
            ops = [P.norm(z) for z in a]
            ds = set(Dat(z) for z in ops if Dat(z) is not None)
            for z in ops:
                if Dat(z) is None:
                    walk(z, guards | ds, where, depth + 1)
            return
        a = P.cb_args(t, "cb.and")
        if a is None:
            a = P.cb_args(t, "cb.mul")
            if a is not None and not any(notD(z) is not None for z in a):
                a = None
        if a is not None:
            lv = _and_leaves(t) if P.cb_args(t, "cb.and") is not None else [P.norm(z) for z in a]
            nots = set(notD(z) for z in lv if notD(z) is not None)
            for z in lv:
                if notD(z) is None:
                    walk(z, guards | nots, where, depth + 1)
            return
        if tag == "call" and len(t) == 5:
            nm = t[2]
            if nm.endswith(("Vec::<T>::with_capacity", "Vec::<T>::new")):
                return
            for z in t[4]:
                walk(z, guards, where, depth + 1)
            return
        if tag in ("idx", "elem"):
            base = t[1]
            while isinstance(base, tuple) and base and base[0] in ("take", "skip", "zip", "enumerate", "rev", "idx", "elem") and not (P.call_name(base)):
                if base[0] == "zip":
                    walk(("elem", base[1]), guards, where, depth + 1)
                    walk(("elem", base[2]), guards, where, depth + 1)
                    return
                base = base[1]
            nm = P.call_name(base)
            if tag == "idx" and base is t[1] and v.filled(base) is not None:
                # a vector with one unconditional push per position: v[x] is the pushed value at x, under the guards in force here
                walk(v.resolve(t), guards, where, depth + 1)
                walk(t[2], guards, where, depth + 1)
                return
            if nm and nm.endswith(("Vec::<T>::with_capacity", "Vec::<T>::new")):
                if base not in seen_cont:
                    seen_cont[base] = True
                    for k, pt, pe in T.contents(effs, base):
                        if pt is not None:
                            walk(v.C(pt, pe), frozenset(), "container pushed at %s" % pe.loc, depth + 1)
                return
            walk(t[1], guards, where, depth + 1)
            if tag == "idx":
                walk(t[2], guards, where, depth + 1)
            return
        if tag in ("phi",):
            for m in t[2]:
                walk(m, guards, where, depth + 1)
            return
        if tag == "upd":
            if t[2] is not None:
                walk(t[2], guards, where, depth + 1)
            for proj, val in t[3]:
                walk(val, guards, where, depth + 1)
            return
        if tag in ("array", "tuple"):
            for z in t[1]:
                walk(z, guards, where, depth + 1)
            return
        if tag == "from_fn":
            r = v.fr.index(t, ("sym", "G"))
            if r != ("idx", t, ("sym", "G")):
                walk(v.C(r), guards, where, depth + 1)
            return
        if tag in ("fld",):
            walk(t[1], guards, where, depth + 1)
            return
        if tag == "map":
            walk(v.C(v.fr.elem(t)), guards, where, depth + 1)
            return

    for k, t, e in v.seq:
        if t is not None:
            walk(v.C(t, e), frozenset(), "output append at %s" % e.loc)
    for e in effs:
        if e.name in circ.CONSTRAINT_NAMES and e.name != "cb.register_public_inputs":
            for o in circ.cb_operands(e):
                walk(v.C(o, e), frozenset(), "constraint at %s" % e.loc)
    ob.add({"C09"}, not problems, "GATE", "pb/gate/all-flows",
           "every read of a per-slot child field (outputs, exits, fee, block number, nullifier) that reaches the output vector or a constraint passes that slot's dummy gate "
           "(%d reads: %d gated, %d of the sentinel/asset limbs)" % (checked["reads"], checked["gated"], checked["free"]),
           "%s:%s" % (v.body.file, v.body.line), problems[:6])
    ob.add({"C09"}, checked["gated"] >= 8, "GATE", "pb/gate/floor", "at least 8 gated reads were found (%d): the rule is not vacuous" % checked["gated"], "%s:%s" % (v.body.file, v.body.line))
    return problems
