"""Shared helpers for the circuit rules (UNCOND, constraint inventories, IVL arithmetic, field paths)."""
from . import terms as T
from . import pat as P
from .facts import AnchorMissing

GOLDILOCKS = 2 ** 64 - 2 ** 32 + 1

# builder methods (and workspace gadgets) that add a constraint / assertion to the circuit
CONSTRAINT_NAMES = {
    "cb.connect", "cb.connect_hashes", "cb.connect_extension", "cb.assert_zero", "cb.assert_one", "cb.assert_bool",
    "cb.range_check", "cb.assert_zero_extension", "cb.connect_merkle_caps", "cb.connect_verifier_data",
    "cb.verify_proof", "cb.verify_merkle_proof", "cb.verify_merkle_proof_to_cap",
    "cb.register_public_input", "cb.register_public_inputs", "cb.conditionally_verify_proof",
    "cb.conditionally_verify_proof_or_dummy", "cb.conditionally_verify_cyclic_proof",
    "cb.conditionally_verify_cyclic_proof_or_dummy", "cb.assert_equal",
}
# free-witness creators
FREE_NAMES = {
    "cb.add_virtual_target", "cb.add_virtual_targets", "cb.add_virtual_target_arr", "cb.add_virtual_hash",
    "cb.add_virtual_hashes", "cb.add_virtual_bool_target_safe", "cb.add_virtual_bool_target_unsafe",
    "cb.add_virtual_public_input", "cb.add_virtual_public_input_arr", "cb.add_virtual_hash_public_input",
    "cb.add_virtual_extension_target", "cb.add_virtual_extension_targets", "cb.add_virtual_proof_with_pis",
    "cb.add_virtual_verifier_data", "cb.add_virtual_cap", "cb.add_virtual_nonnative_target",
    "cb.add_virtual_avoidable_target",
}


def frame_of(ck, pattern, crate=None, inline=None, env=None):
    body = ck.prog.one(pattern, crate)
    ck.saw(body)
    ev = T.Evaluator(ck.prog, inline=inline)
    return ev.frame(body, env=env)


def describe_ctrl(c):
    kind = c[0]
    d = T.show(c[1])[:160] if isinstance(c[1], tuple) else str(c[1])
    return "%s[%s -> %s]" % (kind, d, ",".join(map(str, c[2])))


def uncond_problems(eff, allowed_cases=()):
    """control dependences of an effect that are not loop guards (`Some` edge of an iterator `next`),
    `?` continue edges, closure/inlining contexts, or allow-listed build-time case splits.
    `allowed_cases`: predicates over the guard tuple."""
    bad = []
    for c in eff.ctrl:
        kind = c[0]
        if kind == "loop":
            # ("1",) = inside the loop body; ("0",) = after a loop that may exit early with an error: both are fine
            if tuple(c[2]) in (("1",), ("0",)):
                continue
            bad.append(c)
            continue
        if kind == "try":
            if tuple(c[2]) == ("0",):
                continue
            bad.append(c)
            continue
        if kind in ("closure", "in"):
            continue
        if any(pred(c) for pred in allowed_cases):
            continue
        if _error_exit_guard(eff, c):
            continue
        bad.append(c)
    return bad


def _error_exit_guard(eff, c):
    """a build-time branch whose other side only returns an error / panics (ensure!, bail!, assert!, a match on a
    Result whose Err arm returns): the code below it still runs on every successful construction"""
    if len(c) < 5 or not hasattr(eff, "frame") or eff.frame is None:
        return False
    from . import guards, cfg
    # the frame's own body object first: a helper-expanded (synthetic) body keeps the id of the function it was expanded from
    body = eff.frame.body if eff.frame.body.id == c[4] else eff.frame.ev.prog.bodies.get(c[4])
    if body is None:
        return False
    a = c[3]
    if a >= len(body.blocks):
        return False
    t = body.blocks[a]["t"]
    if t["k"] != "switch":
        return False
    taken = set()
    for s in cfg.succs(body)[a]:
        vals = cfg.switch_edge_value(body, a, s)
        if set(vals) & set(c[2]):
            taken.add(s)
    F = guards.Fail(body)
    others = [s for s in cfg.succs(body)[a] if s not in taken]
    return bool(others) and all(F.edge_fails(a, s) or body.blocks[s]["t"]["k"] == "unreachable" for s in others)


def require_uncond(ck, eff, rule, key, what, allowed_cases=()):
    bad = uncond_problems(eff, allowed_cases)
    if bad:
        return ck.fail(rule, key, "%s is generated only under a build-time condition: %s" % (
            what, "; ".join(describe_ctrl(c) for c in bad)), eff.loc)
    return ck.ok(rule, key, "%s is unconditional (control dependences: %s)" % (
        what, ", ".join(describe_ctrl(c) for c in eff.ctrl) or "none"), eff.loc)


def loops_of(eff):
    """iterables of the loops enclosing an effect, outermost first"""
    return [c[1] for c in eff.ctrl if c[0] == "loop" and tuple(c[2]) == ("1",)]


def effects_named(frame, *names):
    return [e for e in frame.effects() if e.name in names]


def cb_operands(eff):
    """arguments of a builder call without the receiver"""
    return eff.args[1:] if eff.name.startswith("cb.") else eff.args


def mentions_field(t, field):
    for s in T.walk(t):
        if s and s[0] == "fld" and s[2] == field:
            return True
    return False


def param_paths(t):
    """set of rendered parameter field paths mentioned in a term"""
    out = set()
    for s in T.walk(t):
        if s and s[0] in ("fld", "idx", "param"):
            p = P.param_path(s)
            if p:
                out.add(p)
    # keep only maximal paths
    res = set()
    for p in out:
        if not any(q != p and q.startswith(p) and q[len(p):len(p) + 1] in (".", "[") for q in out):
            res.add(p)
    return res


def range_expr(it):
    """(start, end) terms if `it` is a Range adt (or the site-stamped iterator of a `for` loop over one)"""
    if isinstance(it, tuple) and len(it) == 3 and it[0] == "rng":
        it = it[2]
    if isinstance(it, tuple) and it and it[0] == "adt" and it[1].endswith("ops::range::Range"):
        d = dict(it[3])
        return d.get("start"), d.get("end")
    return None


def pow2(k):
    return 1 << k


def per_iteration_value(fr, effs, vec):
    """(value, iterator) when `vec` holds exactly one value per iteration of one loop, in order, built either way:
         let mut v = Vec::new(); for x in it { v.push(value) }          it.map(|x| value).collect()
       None otherwise (several pushes, a conditional push, nested loops, a lazy map …)"""
    vec = P.norm(vec)
    if isinstance(vec, tuple) and vec and vec[0] == "map" and len(vec) >= 3 and isinstance(vec[2], tuple) and vec[2] and vec[2][0] == "closure":
        val = fr.closure_ret(vec[2], [fr.elem(vec[1])], site_hint=vec[3] if len(vec) > 3 else None)
        return P.norm(val), P.norm(vec[1])
    nm = P.call_name(vec) or ""
    if nm.endswith(("Vec::<T>::new", "Vec::<T>::with_capacity")):
        cs = T.contents(effs, vec)
        if len(cs) == 1 and cs[0][0] == "one":
            lp = loops_of(cs[0][2])
            if len(lp) == 1 and not uncond_problems(cs[0][2]):
                return P.norm(cs[0][1]), P.norm(lp[0])
    return None


def ok_members(t):
    """non-error members of a Result-valued return term (drops `?` residuals and Err(..) values)"""
    if isinstance(t, tuple) and t and t[0] == "phi":
        ms = []
        for m in t[2]:
            ms += ok_members(m)
        return ms
    if isinstance(t, tuple) and t and t[0] == "err":
        return []
    if isinstance(t, tuple) and t and t[0] == "call" and len(t) == 5 and t[2].endswith("from_residual"):
        return []
    return [t]
