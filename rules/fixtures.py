"""Positive examples for the expected-zero who-may-call rules (vacuity guard, thorough tier).

/verif/fixtures is a tiny crate that *does* each thing the production tree must never do.  It is extracted with the same driver and
the same flags; every pattern an expected-zero rule uses must match its example there on every thorough run, otherwise the rule would
pass vacuously (e.g. after a plonky2 rename or a change of the driver's path printing)."""
import os
import shutil
import subprocess
import time

from . import facts as F

VERIF = os.path.dirname(os.path.dirname(os.path.abspath(__file__)))
FIX = os.path.join(VERIF, "fixtures")

# name -> (call-site regex exactly as the production rule uses it, fixture function that must contain a match)
PATTERNS = {
    "add_virtual_verifier_data": (r"::add_virtual_verifier_data$", "virtual_verifier_key"),
    "new_unsafe": (r"BoolTarget::new_unsafe$", "unsafe_bool"),
    "fs_read": (r"^std::fs::(read|read_to_string|read_link)$|std::fs::File::open$|OpenOptions::open$|std::io::Read>::read_to_end$|::read_to_end$|::read_exact$", "uncapped_read"),
    "circuit_data_from_bytes": (r"::from_bytes$", "prover_artifact"),
    "full_circuit_from_bytes": (r"::from_bytes$", "full_circuit_artifact"),
    "add_virtual_target": (r"::add_virtual_\w+$", "hint_target"),
}

_cache = {}


def program(ck):
    if "prog" in _cache:
        return _cache["prog"]
    import importlib.machinery
    import importlib.util
    loader = importlib.machinery.SourceFileLoader("vf_cli", os.path.join(VERIF, "vf"))
    spec = importlib.util.spec_from_loader("vf_cli", loader)
    vf = importlib.util.module_from_spec(spec)
    loader.exec_module(vf)
    lock = os.path.join(ck.repo, "Cargo.lock")
    shutil.copyfile(lock, os.path.join(FIX, "Cargo.lock"))
    run_id = "%d-%d-fixtures" % (int(time.time() * 1000), os.getpid())
    out = os.path.join(vf.CACHE, "fxfacts", run_id)
    os.makedirs(out, exist_ok=True)
    with vf.Lock():
        fp = os.path.join(vf.TARGET, "debug", ".fingerprint")
        if os.path.isdir(fp):
            for d in os.listdir(fp):
                if d.startswith("vf-fixtures-"):
                    shutil.rmtree(os.path.join(fp, d), ignore_errors=True)
        e = vf.env_base()
        e.update({"DRV_OUT": out, "DRV_RUN": run_id, "RUSTC_WORKSPACE_WRAPPER": vf.DRIVER, "CARGO_TARGET_DIR": vf.TARGET,
                  "RUSTFLAGS": "-Zmir-opt-level=0 -Awarnings"})
        r = subprocess.run(["cargo", "+nightly", "check", "--offline"], cwd=FIX, env=e, stdout=subprocess.PIPE, stderr=subprocess.STDOUT, text=True)
    if r.returncode != 0:
        raise RuntimeError("fixture crate does not build: " + r.stdout[-2000:])
    prog = F.Program(out, run=run_id)
    if "vf_fixtures.lib" not in prog.units:
        raise RuntimeError("no facts for the fixture crate (driver skipped?)")
    _cache["prog"] = prog
    _cache["dir"] = out
    root = os.path.dirname(out)
    for d in sorted(os.listdir(root))[:-3]:
        shutil.rmtree(os.path.join(root, d), ignore_errors=True)
    return prog


def expect_positive(ck, what, extra=None):
    """the production pattern `what` matches its positive example in the fixture crate; `extra(term)` may apply the same post-filter the rule uses"""
    rx, fn = PATTERNS[what]
    prog = program(ck)
    hits = [(b, bb, t) for b, bb, t in prog.call_sites(rx, production=False) if b.path.endswith("::" + fn) and (extra is None or extra(t))]
    ck.require(len(hits) >= 1, "FIXTURE", "positive/" + what, "the expected-zero pattern %r matches its positive example vf_fixtures::%s (the rule is not vacuous)" % (rx[:60], fn),
               "%s/src/lib.rs" % FIX, [t.get("r") or t.get("f") for _, _, t in hits][:3])
    return hits


def body(ck, fn):
    prog = program(ck)
    r = [b for b in prog.bodies.values() if b.path.endswith("::" + fn)]
    if len(r) != 1:
        raise RuntimeError("fixture function %s missing" % fn)
    return prog, r[0]


def expect_uncond_positive(ck):
    """the UNCOND rule reports the constraint that fixtures::conditional_constraint emits under `if n > 1` (the rule is not blind)"""
    from . import terms as T
    from . import circ
    prog, b = body(ck, "conditional_constraint")
    fr = T.Evaluator(prog).frame(b)
    rc = [e for e in fr.effects() if e.name == "cb.range_check"]
    probs = circ.uncond_problems(rc[0]) if len(rc) == 1 else []
    ck.require(len(rc) == 1 and len(probs) == 1 and probs[0][0] == "case", "FIXTURE", "positive/uncond",
               "UNCOND reports the range_check that vf_fixtures::conditional_constraint emits only when n > 1", "%s/src/lib.rs" % FIX, [str(p)[:200] for p in probs])
