"""C34 — the formal spec's theorems hold and the code matches its definitions (DESIGN.md §5 C34)."""
from . import lean

LEVEL = "proof"


def run(ck):
    ck.explanation = ("C34 clause 1: the repository's Lean package is type-checked (`lake build` on a scratch copy; Lean's kernel re-checks every theorem), with an axiom inventory "
                      "(`#print axioms` of the key theorems ⊆ the two declared trusted axioms + Lean's standard three) and no sorry. Clause 2 (structural part): the spec's constants, "
                      "orders and tables agree with the Rust source as extracted from MIR, and the private-batch circuit's grouping, first-real reference, dummy masking and nullifier "
                      "ordering have the term shape of the spec's executable definitions (shared with C06/C08/C09)")
    ck.not_decided = ["clause 2 proper: evaluating the spec's executable definitions against the circuit on explored batches is testing, not static analysis"]
    ck.trusted = ["Lean 4.33 kernel (the package pins 4.30; no dependencies)", "the two axioms in Trusted.lean (recursive verifier soundness)", "rustc MIR + vfdriver for the Rust side of the agreement tables"]
    res = lean.check_build(ck)
    lean.check_agreement(ck)
    # clause 2, circuit side: the private-batch circuit computes its exit slots, first-real reference and nullifier order the way the
    # spec's executable definitions do (groupExits: per-slot sum over all equal accounts, a slot zeroed iff an EARLIER input slot has the
    # same account; referenceFromFirstReal; masked ingress; sorted nullifier region) — the term-shape obligations of the batch view
    from . import pb
    ob, v = pb.analyse(ck)
    n = 0
    for props, ok, rule, key, what, loc, detail in ob.items:
        if key.startswith(("pb/group/", "pb/first-real/", "pb/mask/", "pb/nullifier/", "pb/out/nullifiers-sorted", "pb/out/exit-slots", "pb/is-dummy-flag")):
            ck.require(ok, rule, "spec:" + key, what, loc, detail)
            n += 1
    ck.floor("TERM", "spec/circuit-side", n, 12, "circuit-side obligations matching the spec's definitions")
    ck.extra_cov = {"checker_cmd": "lake build (scratch copy of /repo/formal) && lake env lean VfAxioms.lean", "lean": getattr(ck, "lean", None)}
