"""C34 — the formal spec's theorems hold and the code matches its definitions (DESIGN.md §5 C34)."""
from . import lean

LEVEL = "proof"


def run(ck):
    ck.explanation = ("C34 clause 1: the repository's Lean package is type-checked (`lake build` on a scratch copy; Lean's kernel re-checks every theorem), with an axiom inventory "
                      "(`#print axioms` of the key theorems ⊆ the two declared trusted axioms + Lean's standard three) and no sorry. Clause 2 (structural part): the spec's constants, "
                      "orders and tables agree with the Rust source as extracted from MIR")
    ck.not_decided = ["clause 2 proper: evaluating the spec's executable definitions against the circuit on explored batches is testing, not static analysis"]
    ck.trusted = ["Lean 4.33 kernel (the package pins 4.30; no dependencies)", "the two axioms in Trusted.lean (recursive verifier soundness)", "rustc MIR + vfdriver for the Rust side of the agreement tables"]
    res = lean.check_build(ck)
    lean.check_agreement(ck)
    ck.extra_cov = {"checker_cmd": "lake build (scratch copy of /repo/formal) && lake env lean VfAxioms.lean", "lean": getattr(ck, "lean", None)}
