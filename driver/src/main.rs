// vfdriver — rustc_private fact extractor for the /verif static analysis.
//
// Invoked by cargo as RUSTC_WORKSPACE_WRAPPER: argv = [vfdriver, rustc, <rustc args...>].
// Compiles the crate exactly as rustc would and, after analysis, writes one JSON
// file $DRV_OUT/<crate>.<kind>.<pid>.json with:
//   - every local MIR body (fn, method, closure) as structured statements/terminators
//     with resolved callees,
//   - item facts: ADTs with fields, trait impls (derived/manual), evaluated constants,
//     function visibility, module visibility, re-exports, helper attributes.
// Nothing is executed; no source text is matched.
#![feature(rustc_private)]
#![allow(clippy::all)]

extern crate rustc_abi;
extern crate rustc_driver;
extern crate rustc_hir;
extern crate rustc_interface;
extern crate rustc_middle;
extern crate rustc_span;

use rustc_driver::Compilation;
use rustc_hir::def::DefKind;
use rustc_hir::def_id::{DefId, LOCAL_CRATE};
use rustc_interface::interface::Compiler;
use rustc_middle::mir::{self, Operand, Rvalue, StatementKind, TerminatorKind};
use rustc_middle::ty::{self, TyCtxt, TypingEnv};
use std::fmt::Write as _;

fn esc(s: &str) -> String {
    let mut o = String::with_capacity(s.len() + 2);
    o.push('"');
    for c in s.chars() {
        match c {
            '"' => o.push_str("\\\""),
            '\\' => o.push_str("\\\\"),
            '\n' => o.push_str("\\n"),
            '\r' => o.push_str("\\r"),
            '\t' => o.push_str("\\t"),
            c if (c as u32) < 0x20 => {
                let _ = write!(o, "\\u{:04x}", c as u32);
            }
            c => o.push(c),
        }
    }
    o.push('"');
    o
}

fn jlist(v: &[String]) -> String {
    format!("[{}]", v.join(","))
}

struct Cx<'tcx> {
    tcx: TyCtxt<'tcx>,
}

impl<'tcx> Cx<'tcx> {
    /// crate-qualified verbose def path: unique and stable across crates.
    fn id(&self, did: DefId) -> String {
        let tcx = self.tcx;
        format!("{}{}", tcx.crate_name(did.krate), tcx.def_path(did).to_string_no_crate_verbose())
    }
    fn path(&self, did: DefId) -> String {
        self.tcx.def_path_str(did)
    }
    fn loc(&self, span: rustc_span::Span) -> (String, usize) {
        let sm = self.tcx.sess.source_map();
        let lo = sm.lookup_char_pos(span.lo());
        let name = match &lo.file.name {
            rustc_span::FileName::Real(r) => match r.local_path() {
                Some(p) => p.to_string_lossy().to_string(),
                None => format!("{:?}", lo.file.name),
            },
            other => format!("{:?}", other),
        };
        (name, lo.line)
    }
    fn vis(&self, did: DefId) -> String {
        match self.tcx.def_kind(did) {
            DefKind::Fn
            | DefKind::AssocFn
            | DefKind::Struct
            | DefKind::Enum
            | DefKind::Union
            | DefKind::Mod
            | DefKind::Const { .. }
            | DefKind::AssocConst { .. }
            | DefKind::Static { .. }
            | DefKind::Trait
            | DefKind::TyAlias
            | DefKind::Field
            | DefKind::Ctor(..)
            | DefKind::Variant => {}
            _ => return "na".to_string(),
        }
        match self.tcx.visibility(did) {
            ty::Visibility::Public => "pub".to_string(),
            ty::Visibility::Restricted(m) => {
                if m.is_crate_root() {
                    "crate".to_string()
                } else {
                    format!("in:{}", self.path(m))
                }
            }
        }
    }

    fn place(&self, body: &mir::Body<'tcx>, p: &mir::Place<'tcx>) -> String {
        let tcx = self.tcx;
        let mut pty = mir::PlaceTy::from_ty(body.local_decls[p.local].ty);
        let mut projs: Vec<String> = Vec::new();
        for elem in p.projection.iter() {
            let s = match elem {
                mir::ProjectionElem::Deref => "\"*\"".to_string(),
                mir::ProjectionElem::Field(f, _) => {
                    let mut name = format!("{}", f.as_usize());
                    let mut owner = String::new();
                    if let ty::Adt(adt, _) = pty.ty.kind() {
                        let vidx = pty.variant_index.unwrap_or(rustc_abi::FIRST_VARIANT);
                        if vidx.as_usize() < adt.variants().len() {
                            let v = adt.variant(vidx);
                            if let Some(fd) = v.fields.get(f) {
                                name = fd.name.to_string();
                            }
                            owner = self.path(adt.did());
                            if adt.is_enum() {
                                owner = format!("{}::{}", owner, v.name);
                            }
                        }
                    }
                    format!(
                        "{{\"f\":{},\"n\":{},\"o\":{}}}",
                        f.as_usize(),
                        esc(&name),
                        esc(&owner)
                    )
                }
                mir::ProjectionElem::Index(l) => format!("{{\"i\":{}}}", l.as_usize()),
                mir::ProjectionElem::ConstantIndex { offset, from_end, .. } => {
                    format!("{{\"ci\":{},\"fe\":{}}}", offset, from_end)
                }
                mir::ProjectionElem::Subslice { from, to, from_end } => {
                    format!("{{\"ss\":[{},{}],\"fe\":{}}}", from, to, from_end)
                }
                mir::ProjectionElem::Downcast(name, vi) => format!(
                    "{{\"dc\":{},\"v\":{}}}",
                    esc(&name.map(|s| s.to_string()).unwrap_or_default()),
                    vi.as_usize()
                ),
                _ => "\"?\"".to_string(),
            };
            projs.push(s);
            pty = pty.projection_ty(tcx, elem);
        }
        format!("{{\"l\":{},\"p\":{}}}", p.local.as_usize(), jlist(&projs))
    }

    /// (start, end, inclusive) of a constant of type `[&]Range<int>` / `[&]RangeInclusive<int>`, read from its evaluated memory
    fn const_range(&self, owner: DefId, c: &mir::ConstOperand<'tcx>) -> Option<(u128, u128, bool)> {
        let tcx = self.tcx;
        let tenv = TypingEnv::post_analysis(tcx, owner);
        let ty = c.const_.ty();
        let (adt_ty, by_ref) = match ty.kind() {
            ty::Ref(_, inner, _) => (*inner, true),
            _ => (ty, false),
        };
        let (adt, args) = match adt_ty.kind() {
            ty::Adt(a, s) => (*a, *s),
            _ => return None,
        };
        let path = tcx.def_path_str(adt.did());
        let incl = path.ends_with("ops::RangeInclusive") || path.ends_with("range::RangeInclusive");
        if !(incl || path.ends_with("ops::Range") || path.ends_with("range::Range")) {
            return None;
        }
        let idx_ty = args.types().next()?;
        if !idx_ty.is_integral() {
            return None;
        }
        let val = c.const_.eval(tcx, tenv, c.span).ok()?;
        let layout = tcx.layout_of(tenv.as_query_input(adt_ty)).ok()?;
        let variant = adt.non_enum_variant();
        let fsize = tcx.layout_of(tenv.as_query_input(idx_ty)).ok()?.size.bytes() as usize;
        let read = |bytes: &[u8], off: usize| -> Option<u128> {
            let s = bytes.get(off..off + fsize)?;
            let mut v: u128 = 0;
            for (i, b) in s.iter().enumerate() {
                v |= (*b as u128) << (8 * i);
            }
            Some(v)
        };
        let mut start = None;
        let mut end = None;
        let bytes: Vec<u8> = match val {
            mir::ConstValue::Scalar(mir::interpret::Scalar::Ptr(ptr, _)) if by_ref => {
                let (prov, off) = ptr.into_raw_parts();
                let alloc = match tcx.global_alloc(prov.alloc_id()) {
                    mir::interpret::GlobalAlloc::Memory(a) => a,
                    _ => return None,
                };
                let a = alloc.inner();
                let o = off.bytes() as usize;
                let n = layout.size.bytes() as usize;
                if o + n > a.len() {
                    return None;
                }
                a.inspect_with_uninit_and_ptr_outside_interpreter(o..o + n).to_vec()
            }
            mir::ConstValue::Indirect { alloc_id, offset } if !by_ref => {
                let alloc = match tcx.global_alloc(alloc_id) {
                    mir::interpret::GlobalAlloc::Memory(a) => a,
                    _ => return None,
                };
                let a = alloc.inner();
                let o = offset.bytes() as usize;
                let n = layout.size.bytes() as usize;
                if o + n > a.len() {
                    return None;
                }
                a.inspect_with_uninit_and_ptr_outside_interpreter(o..o + n).to_vec()
            }
            _ => return None,
        };
        for (i, f) in variant.fields.iter().enumerate() {
            let off = layout.fields.offset(i).bytes() as usize;
            match f.name.as_str() {
                "start" => start = read(&bytes, off),
                "end" => end = read(&bytes, off),
                _ => {}
            }
        }
        Some((start?, end?, incl))
    }

    fn konst(&self, owner: DefId, c: &mir::ConstOperand<'tcx>) -> String {
        let tcx = self.tcx;
        let tenv = TypingEnv::post_analysis(tcx, owner);
        let ty = c.const_.ty();
        let mut parts: Vec<String> = vec![format!("\"ty\":{}", esc(&ty.to_string()))];
        // named constant?
        if let mir::Const::Unevaluated(u, _) = c.const_ {
            parts.push(format!("\"def\":{}", esc(&self.path(u.def))));
            parts.push(format!("\"defid\":{}", esc(&self.id(u.def))));
        }
        // const generic parameter used as a value
        if let mir::Const::Ty(_, ct) = c.const_ {
            if let ty::ConstKind::Param(p) = ct.kind() {
                parts.push(format!("\"cparam\":{}", esc(&p.name.to_string())));
                parts.push(format!("\"cparam_index\":{}", p.index));
            }
        }
        // fn item?
        if let ty::FnDef(did, _) = ty.kind() {
            parts.push(format!("\"fn\":{}", esc(&self.path(*did))));
            parts.push(format!("\"fnid\":{}", esc(&self.id(*did))));
        }
        let is_scalar_ty = ty.is_integral() || ty.is_bool() || ty.is_char();
        if is_scalar_ty {
            if let Some(si) = c.const_.try_eval_scalar_int(tcx, tenv) {
                let bits = si.to_bits_unchecked();
                parts.push(format!("\"v\":\"{}\"", bits));
                if ty.is_signed() {
                    let size = si.size();
                    let sv = size.sign_extend(bits);
                    parts.push(format!("\"sv\":\"{}\"", sv));
                }
            }
        } else if let Some(r) = self.const_range(owner, c) {
            // a constant `a..b` / `a..=b` (usually a promoted `&Range<usize>` behind `.contains(&x)`): emit its bounds
            parts.push(format!("\"range\":[\"{}\",\"{}\"],\"incl\":{}", r.0, r.1, r.2));
        } else if let ty::Ref(_, inner, _) = ty.kind() {
            if inner.is_str() || matches!(inner.kind(), ty::Slice(t) if *t == tcx.types.u8) || matches!(inner.kind(), ty::Array(t, _) if *t == tcx.types.u8) {
                if let Ok(val) = c.const_.eval(tcx, tenv, c.span) {
                    if let (true, Some(bytes)) = (matches!(val, mir::ConstValue::Slice { .. }), if matches!(val, mir::ConstValue::Slice { .. }) { val.try_get_slice_bytes_for_diagnostics(tcx) } else { None }) {
                        if bytes.len() <= 4096 {
                            match std::str::from_utf8(bytes) {
                                Ok(s) => parts.push(format!("\"s\":{}", esc(s))),
                                Err(_) => {
                                    let hex: String = bytes.iter().map(|b| format!("{:02x}", b)).collect();
                                    parts.push(format!("\"hex\":\"{}\"", hex));
                                }
                            }
                        }
                    }
                }
            }
        }
        format!("{{{}}}", parts.join(","))
    }

    fn operand(&self, owner: DefId, body: &mir::Body<'tcx>, o: &Operand<'tcx>) -> String {
        match o {
            Operand::Copy(p) => format!("{{\"c\":{}}}", self.place(body, p)),
            Operand::Move(p) => format!("{{\"m\":{}}}", self.place(body, p)),
            Operand::Constant(c) => format!("{{\"k\":{}}}", self.konst(owner, c)),
            _ => "{\"k\":{\"ty\":\"runtime-check\"}}".to_string(),
        }
    }

    fn rvalue(&self, owner: DefId, body: &mir::Body<'tcx>, rv: &Rvalue<'tcx>) -> String {
        let tcx = self.tcx;
        match rv {
            Rvalue::Use(op, _) => format!("{{\"k\":\"use\",\"a\":{}}}", self.operand(owner, body, op)),
            Rvalue::Repeat(op, n) => {
                format!("{{\"k\":\"repeat\",\"a\":{},\"n\":{}}}", self.operand(owner, body, op), esc(&n.to_string()))
            }
            Rvalue::Ref(_, bk, p) => format!(
                "{{\"k\":\"ref\",\"mut\":{},\"p\":{}}}",
                matches!(bk, mir::BorrowKind::Mut { .. }),
                self.place(body, p)
            ),
            Rvalue::RawPtr(_, p) => format!("{{\"k\":\"rawptr\",\"p\":{}}}", self.place(body, p)),
            Rvalue::Cast(kind, op, ty) => format!(
                "{{\"k\":\"cast\",\"ck\":{},\"a\":{},\"ty\":{}}}",
                esc(&format!("{:?}", kind)),
                self.operand(owner, body, op),
                esc(&ty.to_string())
            ),
            Rvalue::BinaryOp(op, ab) => format!(
                "{{\"k\":\"bin\",\"op\":{},\"a\":{},\"b\":{}}}",
                esc(&format!("{:?}", op)),
                self.operand(owner, body, &ab.0),
                self.operand(owner, body, &ab.1)
            ),
            Rvalue::UnaryOp(op, a) => format!(
                "{{\"k\":\"un\",\"op\":{},\"a\":{}}}",
                esc(&format!("{:?}", op)),
                self.operand(owner, body, a)
            ),
            Rvalue::Discriminant(p) => format!("{{\"k\":\"discr\",\"p\":{}}}", self.place(body, p)),
            Rvalue::Aggregate(kind, ops) => {
                let opv: Vec<String> = ops.iter().map(|o| self.operand(owner, body, o)).collect();
                let ak = match &**kind {
                    mir::AggregateKind::Array(t) => format!("{{\"t\":\"array\",\"ty\":{}}}", esc(&t.to_string())),
                    mir::AggregateKind::Tuple => "{\"t\":\"tuple\"}".to_string(),
                    mir::AggregateKind::Adt(did, vi, _, _, _) => {
                        let adt = tcx.adt_def(*did);
                        let v = adt.variant(*vi);
                        let fields: Vec<String> = v.fields.iter().map(|f| esc(&f.name.to_string())).collect();
                        format!(
                            "{{\"t\":\"adt\",\"adt\":{},\"variant\":{},\"fields\":{}}}",
                            esc(&self.path(*did)),
                            esc(&v.name.to_string()),
                            jlist(&fields)
                        )
                    }
                    mir::AggregateKind::Closure(did, _) => {
                        format!("{{\"t\":\"closure\",\"id\":{},\"path\":{}}}", esc(&self.id(*did)), esc(&self.path(*did)))
                    }
                    mir::AggregateKind::RawPtr(..) => "{\"t\":\"rawptr\"}".to_string(),
                    _ => "{\"t\":\"other\"}".to_string(),
                };
                format!("{{\"k\":\"agg\",\"ak\":{},\"ops\":{}}}", ak, jlist(&opv))
            }
            Rvalue::CopyForDeref(p) => format!("{{\"k\":\"use\",\"a\":{{\"c\":{}}}}}", self.place(body, p)),
            _ => "{\"k\":\"other\"}".to_string(),
        }
    }

    fn body(&self, did: DefId) -> Option<String> {
        let tcx = self.tcx;
        let kind = tcx.def_kind(did);
        let kind_s = match kind {
            DefKind::Fn => "Fn",
            DefKind::AssocFn => "AssocFn",
            DefKind::Closure => "Closure",
            _ => return None,
        };
        if !tcx.is_mir_available(did) {
            return None;
        }
        let body = tcx.optimized_mir(did);
        let (file, line) = self.loc(body.span);
        let mut parts: Vec<String> = Vec::new();
        parts.push(format!("\"id\":{}", esc(&self.id(did))));
        parts.push(format!("\"path\":{}", esc(&self.path(did))));
        parts.push(format!("\"kind\":\"{}\"", kind_s));
        parts.push(format!("\"vis\":{}", esc(&self.vis(did))));
        parts.push(format!("\"file\":{}", esc(&file)));
        parts.push(format!("\"line\":{}", line));
        parts.push(format!("\"expn\":{}", body.span.from_expansion()));
        // enclosing item
        let parent = tcx.parent(did);
        parts.push(format!("\"parent\":{}", esc(&self.id(parent))));
        if kind == DefKind::Closure {
            // typeck root = enclosing fn
            let root = tcx.typeck_root_def_id(did);
            parts.push(format!("\"root\":{}", esc(&self.id(root))));
        }
        if kind == DefKind::AssocFn {
            let pk = tcx.def_kind(parent);
            if let DefKind::Impl { of_trait } = pk {
                let selfty = tcx.type_of(parent).instantiate_identity().skip_norm_wip();
                parts.push(format!("\"impl_self\":{}", esc(&selfty.to_string())));
                if let ty::Adt(adt, _) = selfty.kind() {
                    parts.push(format!("\"impl_adt\":{}", esc(&self.path(adt.did()))));
                }
                if of_trait {
                    let tr = tcx.impl_trait_ref(parent).instantiate_identity().skip_norm_wip();
                    parts.push(format!("\"impl_trait\":{}", esc(&self.path(tr.def_id))));
                }
                parts.push(format!("\"derived\":{}", tcx.is_automatically_derived(parent)));
            } else if pk == DefKind::Trait {
                parts.push(format!("\"trait_default\":{}", esc(&self.path(parent))));
            }
        }
        if matches!(kind, DefKind::Fn | DefKind::AssocFn) {
            parts.push(format!("\"const_fn\":{}", tcx.is_const_fn(did)));
            let name = tcx.item_name(did).to_string();
            parts.push(format!("\"name\":{}", esc(&name)));
        }
        parts.push(format!("\"argc\":{}", body.arg_count));
        // locals
        let mut names: Vec<Option<String>> = vec![None; body.local_decls.len()];
        let mut capture_names: Vec<String> = Vec::new();
        for vdi in body.var_debug_info.iter() {
            if let mir::VarDebugInfoContents::Place(p) = &vdi.value {
                if p.projection.is_empty() {
                    names[p.local.as_usize()] = Some(vdi.name.to_string());
                } else if p.local.as_usize() == 1 && kind == DefKind::Closure {
                    // captured upvar: (*_1).k or _1.k
                    let mut fidx = None;
                    for e in p.projection.iter() {
                        if let mir::ProjectionElem::Field(f, _) = e {
                            fidx = Some(f.as_usize());
                            break;
                        }
                    }
                    if let Some(f) = fidx {
                        capture_names.push(format!("[{},{}]", f, esc(&vdi.name.to_string())));
                    }
                }
            }
        }
        let locals: Vec<String> = body
            .local_decls
            .iter_enumerated()
            .map(|(l, d)| {
                let n = names[l.as_usize()].clone();
                match n {
                    Some(n) => format!("{{\"ty\":{},\"n\":{}}}", esc(&d.ty.to_string()), esc(&n)),
                    None => format!("{{\"ty\":{}}}", esc(&d.ty.to_string())),
                }
            })
            .collect();
        parts.push(format!("\"locals\":{}", jlist(&locals)));
        if !capture_names.is_empty() {
            parts.push(format!("\"captures\":{}", jlist(&capture_names)));
        }
        // blocks
        let mut blocks: Vec<String> = Vec::new();
        for (_bb, data) in body.basic_blocks.iter_enumerated() {
            let mut stmts: Vec<String> = Vec::new();
            for st in data.statements.iter() {
                match &st.kind {
                    StatementKind::Assign(b) => {
                        let (p, rv) = &**b;
                        let (_, ln) = self.loc(st.source_info.span);
                        stmts.push(format!(
                            "{{\"d\":{},\"r\":{},\"ln\":{}}}",
                            self.place(body, p),
                            self.rvalue(did, body, rv),
                            ln
                        ));
                    }
                    StatementKind::SetDiscriminant { place, variant_index } => {
                        stmts.push(format!(
                            "{{\"setdiscr\":{},\"v\":{}}}",
                            self.place(body, place),
                            variant_index.as_usize()
                        ));
                    }
                    _ => {}
                }
            }
            let term = data.terminator();
            let (tfile, tline) = self.loc(term.source_info.span);
            let expn = term.source_info.span.from_expansion();
            let t = match &term.kind {
                TerminatorKind::Goto { target } => format!("{{\"k\":\"goto\",\"t\":{}}}", target.as_usize()),
                TerminatorKind::SwitchInt { discr, targets } => {
                    let mut arms: Vec<String> = Vec::new();
                    for (v, t) in targets.iter() {
                        arms.push(format!("[\"{}\",{}]", v, t.as_usize()));
                    }
                    let dty = discr.ty(body, tcx);
                    format!(
                        "{{\"k\":\"switch\",\"d\":{},\"dty\":{},\"arms\":{},\"else\":{},\"ln\":{}}}",
                        self.operand(did, body, discr),
                        esc(&dty.to_string()),
                        jlist(&arms),
                        targets.otherwise().as_usize(),
                        tline
                    )
                }
                TerminatorKind::Return => "{\"k\":\"return\"}".to_string(),
                TerminatorKind::Unreachable => "{\"k\":\"unreachable\"}".to_string(),
                TerminatorKind::UnwindResume => "{\"k\":\"resume\"}".to_string(),
                TerminatorKind::UnwindTerminate(_) => "{\"k\":\"abort\"}".to_string(),
                TerminatorKind::Drop { place, target, .. } => {
                    format!("{{\"k\":\"drop\",\"p\":{},\"t\":{}}}", self.place(body, place), target.as_usize())
                }
                TerminatorKind::Assert { cond, expected, msg, target, .. } => {
                    let mk = format!("{:?}", msg);
                    let mk = mk.split('(').next().unwrap_or("").to_string();
                    format!(
                        "{{\"k\":\"assert\",\"c\":{},\"exp\":{},\"msg\":{},\"t\":{},\"ln\":{}}}",
                        self.operand(did, body, cond),
                        expected,
                        esc(&mk),
                        target.as_usize(),
                        tline
                    )
                }
                TerminatorKind::Call { func, args, destination, target, .. } => {
                    let mut cp: Vec<String> = Vec::new();
                    cp.push("\"k\":\"call\"".to_string());
                    if let Some((cdid, cargs)) = func.const_fn_def() {
                        cp.push(format!("\"f\":{}", esc(&self.path(cdid))));
                        cp.push(format!("\"fid\":{}", esc(&self.id(cdid))));
                        let ga: Vec<String> = cargs.iter().map(|a| esc(&a.to_string())).collect();
                        cp.push(format!("\"ga\":{}", jlist(&ga)));
                        // evaluated const generic args
                        let mut cga: Vec<String> = Vec::new();
                        for a in cargs.iter() {
                            if let Some(ct) = a.as_const() {
                                if let Some(v) = ct.try_to_target_usize(tcx) {
                                    cga.push(format!("\"{}\"", v));
                                } else {
                                    cga.push("null".to_string());
                                }
                            }
                        }
                        if !cga.is_empty() {
                            cp.push(format!("\"cga\":{}", jlist(&cga)));
                        }
                        let tenv = TypingEnv::post_analysis(tcx, did);
                        if let Ok(Some(inst)) = ty::Instance::try_resolve(tcx, tenv, cdid, cargs) {
                            let rd = inst.def_id();
                            if rd != cdid {
                                cp.push(format!("\"r\":{}", esc(&self.path(rd))));
                                cp.push(format!("\"rid\":{}", esc(&self.id(rd))));
                            }
                        }
                        // trait method? record trait and self type
                        if let Some(assoc) = tcx.opt_associated_item(cdid) {
                            let cont = assoc.container_id(tcx);
                            if tcx.def_kind(cont) == DefKind::Trait {
                                cp.push(format!("\"trait\":{}", esc(&self.path(cont))));
                                if let Some(st) = cargs.get(0).and_then(|a| a.as_type()) {
                                    cp.push(format!("\"self_ty\":{}", esc(&st.to_string())));
                                }
                            } else if let DefKind::Impl { .. } = tcx.def_kind(cont) {
                                let st = tcx.type_of(cont).instantiate_identity().skip_norm_wip();
                                if let ty::Adt(adt, _) = st.kind() {
                                    cp.push(format!("\"impl_adt\":{}", esc(&self.path(adt.did()))));
                                }
                            }
                            cp.push(format!("\"name\":{}", esc(&assoc.name().to_string())));
                        } else if matches!(tcx.def_kind(cdid), DefKind::Fn) {
                            cp.push(format!("\"name\":{}", esc(&tcx.item_name(cdid).to_string())));
                        }
                    } else {
                        cp.push(format!("\"fop\":{}", self.operand(did, body, func)));
                    }
                    let av: Vec<String> = args.iter().map(|a| self.operand(did, body, &a.node)).collect();
                    cp.push(format!("\"args\":{}", jlist(&av)));
                    cp.push(format!("\"dest\":{}", self.place(body, destination)));
                    match target {
                        Some(t) => cp.push(format!("\"t\":{}", t.as_usize())),
                        None => cp.push("\"t\":null".to_string()),
                    }
                    cp.push(format!("\"ln\":{}", tline));
                    if tfile != file {
                        cp.push(format!("\"file\":{}", esc(&tfile)));
                    }
                    cp.push(format!("\"expn\":{}", expn));
                    if expn {
                        // macro backtrace (innermost first): lets rules tell `debug_assert!` from `assert!` / `panic!`
                        let names: Vec<String> = term
                            .source_info
                            .span
                            .macro_backtrace()
                            .filter_map(|d| match d.kind {
                                rustc_span::ExpnKind::Macro(_, name) => Some(esc(name.as_str())),
                                _ => None,
                            })
                            .collect();
                        if !names.is_empty() {
                            cp.push(format!("\"macros\":{}", jlist(&names)));
                        }
                    }
                    format!("{{{}}}", cp.join(","))
                }
                TerminatorKind::FalseEdge { real_target, .. } => {
                    format!("{{\"k\":\"goto\",\"t\":{}}}", real_target.as_usize())
                }
                TerminatorKind::FalseUnwind { real_target, .. } => {
                    format!("{{\"k\":\"goto\",\"t\":{}}}", real_target.as_usize())
                }
                _ => "{\"k\":\"other\"}".to_string(),
            };
            blocks.push(format!("{{\"s\":{},\"t\":{},\"cleanup\":{}}}", jlist(&stmts), t, data.is_cleanup));
        }
        parts.push(format!("\"blocks\":{}", jlist(&blocks)));
        Some(format!("{{{}}}", parts.join(",")))
    }

    fn items(&self, out: &mut Vec<String>) {
        let tcx = self.tcx;
        let mut adts: Vec<String> = Vec::new();
        let mut impls: Vec<String> = Vec::new();
        let mut consts: Vec<String> = Vec::new();
        let mut fns: Vec<String> = Vec::new();
        let mut mods: Vec<String> = Vec::new();
        let mut uses: Vec<String> = Vec::new();
        for ldid in tcx.hir_crate_items(()).definitions() {
            let did = ldid.to_def_id();
            let kind = tcx.def_kind(did);
            match kind {
                DefKind::Struct | DefKind::Enum | DefKind::Union => {
                    let adt = tcx.adt_def(did);
                    let (file, line) = self.loc(tcx.def_span(did));
                    let mut vars: Vec<String> = Vec::new();
                    for v in adt.variants().iter() {
                        let mut fl: Vec<String> = Vec::new();
                        for f in v.fields.iter() {
                            let fty = tcx.type_of(f.did).instantiate_identity().skip_norm_wip();
                            let mut attrs: Vec<String> = Vec::new();
                            for a in tcx.get_all_attrs(f.did).iter() {
                                attrs.push(esc(&attr_string(a)));
                            }
                            fl.push(format!(
                                "{{\"n\":{},\"ty\":{},\"vis\":{},\"attrs\":{}}}",
                                esc(&f.name.to_string()),
                                esc(&fty.to_string()),
                                esc(&self.vis(f.did)),
                                jlist(&attrs)
                            ));
                        }
                        vars.push(format!("{{\"n\":{},\"fields\":{}}}", esc(&v.name.to_string()), jlist(&fl)));
                    }
                    let mut attrs: Vec<String> = Vec::new();
                    for a in tcx.get_all_attrs(did).iter() {
                        attrs.push(esc(&attr_string(a)));
                    }
                    adts.push(format!(
                        "{{\"path\":{},\"id\":{},\"kind\":{},\"vis\":{},\"file\":{},\"line\":{},\"variants\":{},\"attrs\":{}}}",
                        esc(&self.path(did)),
                        esc(&self.id(did)),
                        esc(&format!("{:?}", kind)),
                        esc(&self.vis(did)),
                        esc(&file),
                        line,
                        jlist(&vars),
                        jlist(&attrs)
                    ));
                }
                DefKind::Impl { of_trait } => {
                    let selfty = tcx.type_of(did).instantiate_identity().skip_norm_wip();
                    let (file, line) = self.loc(tcx.def_span(did));
                    let mut p: Vec<String> = Vec::new();
                    p.push(format!("\"id\":{}", esc(&self.id(did))));
                    p.push(format!("\"self\":{}", esc(&selfty.to_string())));
                    if let ty::Adt(adt, _) = selfty.kind() {
                        p.push(format!("\"adt\":{}", esc(&self.path(adt.did()))));
                    }
                    if of_trait {
                        let tr = tcx.impl_trait_ref(did).instantiate_identity().skip_norm_wip();
                        p.push(format!("\"trait\":{}", esc(&self.path(tr.def_id))));
                        p.push(format!("\"trait_ref\":{}", esc(&tr.to_string())));
                    }
                    p.push(format!("\"derived\":{}", tcx.is_automatically_derived(did)));
                    let (_, _) = (&file, line);
                    p.push(format!("\"file\":{}", esc(&file)));
                    p.push(format!("\"line\":{}", line));
                    p.push(format!("\"expn\":{}", tcx.def_span(did).from_expansion()));
                    let items: Vec<String> = tcx
                        .associated_items(did)
                        .in_definition_order()
                        .map(|a| esc(&a.name().to_string()))
                        .collect();
                    p.push(format!("\"items\":{}", jlist(&items)));
                    impls.push(format!("{{{}}}", p.join(",")));
                }
                DefKind::Const { .. } | DefKind::AssocConst { .. } => {
                    let generics = tcx.generics_of(did);
                    let mut p: Vec<String> = Vec::new();
                    p.push(format!("\"path\":{}", esc(&self.path(did))));
                    p.push(format!("\"id\":{}", esc(&self.id(did))));
                    p.push(format!("\"vis\":{}", esc(&self.vis(did))));
                    let cty = tcx.type_of(did).instantiate_identity().skip_norm_wip();
                    p.push(format!("\"ty\":{}", esc(&cty.to_string())));
                    let in_trait = matches!(tcx.def_kind(tcx.parent(did)), DefKind::Trait);
                    if generics.count() == 0 && !generics.has_self && !in_trait {
                        if let Ok(val) = tcx.const_eval_poly(did) {
                            if cty.is_integral() || cty.is_bool() {
                                if let Some(si) = val.try_to_scalar_int() {
                                    p.push(format!("\"v\":\"{}\"", si.to_bits_unchecked()));
                                }
                            } else if let ty::Ref(_, inner, _) = cty.kind() {
                                if inner.is_str() || matches!(inner.kind(), ty::Slice(_)) {
                                    if let Some(bytes) = if matches!(val, mir::ConstValue::Slice { .. }) { val.try_get_slice_bytes_for_diagnostics(tcx) } else { None } {
                                        if let Ok(s) = std::str::from_utf8(bytes) {
                                            p.push(format!("\"s\":{}", esc(s)));
                                        }
                                    }
                                }
                            }
                        }
                    }
                    consts.push(format!("{{{}}}", p.join(",")));
                }
                DefKind::Fn | DefKind::AssocFn => {
                    let (file, line) = self.loc(tcx.def_span(did));
                    let sig = tcx.fn_sig(did).instantiate_identity().skip_norm_wip();
                    let sig = sig.skip_binder();
                    let ins: Vec<String> = sig.inputs().iter().map(|t| esc(&t.to_string())).collect();
                    let mut attrs: Vec<String> = Vec::new();
                    for a in tcx.get_all_attrs(did).iter() {
                        attrs.push(esc(&attr_string(a)));
                    }
                    fns.push(format!(
                        "{{\"path\":{},\"id\":{},\"vis\":{},\"file\":{},\"line\":{},\"inputs\":{},\"output\":{},\"has_body\":{},\"attrs\":{}}}",
                        esc(&self.path(did)),
                        esc(&self.id(did)),
                        esc(&self.vis(did)),
                        esc(&file),
                        line,
                        jlist(&ins),
                        esc(&sig.output().to_string()),
                        tcx.is_mir_available(did),
                        jlist(&attrs)
                    ));
                }
                DefKind::Mod => {
                    mods.push(format!("{{\"path\":{},\"vis\":{}}}", esc(&self.path(did)), esc(&self.vis(did))));
                }
                _ => {}
            }
        }
        // re-exports / module children (effective public surface)
        for ldid in tcx.hir_crate_items(()).definitions() {
            let did = ldid.to_def_id();
            if tcx.def_kind(did) != DefKind::Mod {
                continue;
            }
            for child in tcx.module_children_local(ldid).iter() {
                if child.reexport_chain.is_empty() {
                    continue;
                }
                if let Some(target) = child.res.opt_def_id() {
                    let vis = match child.vis {
                        ty::Visibility::Public => "pub".to_string(),
                        ty::Visibility::Restricted(m) => {
                            if m.is_crate_root() { "crate".to_string() } else { format!("in:{}", self.path(m)) }
                        }
                    };
                    uses.push(format!(
                        "{{\"mod\":{},\"name\":{},\"target\":{},\"target_id\":{},\"vis\":{}}}",
                        esc(&self.path(did)),
                        esc(&child.ident.name.to_string()),
                        esc(&self.path(target)),
                        esc(&self.id(target)),
                        esc(&vis)
                    ));
                }
            }
        }
        // crate-root re-exports
        {
            let root = rustc_hir::def_id::CRATE_DEF_ID;
            for child in tcx.module_children_local(root).iter() {
                if child.reexport_chain.is_empty() {
                    continue;
                }
                if let Some(target) = child.res.opt_def_id() {
                    let vis = match child.vis {
                        ty::Visibility::Public => "pub".to_string(),
                        _ => "crate".to_string(),
                    };
                    uses.push(format!(
                        "{{\"mod\":{},\"name\":{},\"target\":{},\"target_id\":{},\"vis\":{}}}",
                        esc(&tcx.crate_name(LOCAL_CRATE).to_string()),
                        esc(&child.ident.name.to_string()),
                        esc(&self.path(target)),
                        esc(&self.id(target)),
                        esc(&vis)
                    ));
                }
            }
        }
        let mut cattrs: Vec<String> = Vec::new();
        for a in tcx.hir_krate_attrs().iter() {
            cattrs.push(esc(&attr_string(a)));
        }
        // lint levels at crate root for unsafe_code
        out.push(format!("\"adts\":{}", jlist(&adts)));
        out.push(format!("\"impls\":{}", jlist(&impls)));
        out.push(format!("\"consts\":{}", jlist(&consts)));
        out.push(format!("\"fns\":{}", jlist(&fns)));
        out.push(format!("\"mods\":{}", jlist(&mods)));
        out.push(format!("\"uses\":{}", jlist(&uses)));
        out.push(format!("\"crate_attrs\":{}", jlist(&cattrs)));
    }
}

fn attr_string(a: &rustc_hir::Attribute) -> String {
    let s = format!("{:?}", a);
    if s.len() > 600 {
        s[..600].to_string()
    } else {
        s
    }
}

struct Cb;

impl rustc_driver::Callbacks for Cb {
    fn after_analysis<'tcx>(&mut self, _c: &Compiler, tcx: TyCtxt<'tcx>) -> Compilation {
        let out_dir = match std::env::var("DRV_OUT") {
            Ok(d) => d,
            Err(_) => return Compilation::Continue,
        };
        let run = std::env::var("DRV_RUN").unwrap_or_default();
        let crate_name = tcx.crate_name(LOCAL_CRATE).to_string();
        let cx = Cx { tcx };
        let text = rustc_middle::ty::print::with_resolve_crate_name!(rustc_middle::ty::print::with_no_trimmed_paths!(
            rustc_middle::ty::print::with_no_visible_paths!({
                let mut top: Vec<String> = Vec::new();
                top.push(format!("\"crate\":{}", esc(&crate_name)));
                top.push(format!("\"run\":{}", esc(&run)));
                top.push(format!("\"test\":{}", tcx.sess.opts.test));
                let ctypes: Vec<String> =
                    tcx.crate_types().iter().map(|t| esc(&format!("{:?}", t))).collect();
                top.push(format!("\"crate_types\":{}", jlist(&ctypes)));
                let mut feats: Vec<String> = Vec::new();
                for (k, v) in tcx.sess.config.iter() {
                    if k.as_str() == "feature" {
                        if let Some(v) = v {
                            feats.push(esc(v.as_str()));
                        }
                    }
                }
                feats.sort();
                top.push(format!("\"features\":{}", jlist(&feats)));
                let mut bodies: Vec<String> = Vec::new();
                for ldid in tcx.hir_body_owners() {
                    if let Some(b) = cx.body(ldid.to_def_id()) {
                        bodies.push(b);
                    }
                }
                top.push(format!("\"bodies\":{}", jlist(&bodies)));
                cx.items(&mut top);
                format!("{{{}}}", top.join(",\n"))
            })
        ));
        let kind = if tcx.crate_types().iter().any(|t| format!("{:?}", t) == "Executable") { "bin" } else { "lib" };
        let fname = format!("{}/{}.{}.{}.json", out_dir, crate_name, kind, std::process::id());
        let tmp = format!("{}.tmp", fname);
        std::fs::write(&tmp, text).expect("write facts");
        std::fs::rename(&tmp, &fname).expect("rename facts");
        Compilation::Continue
    }
}

fn main() {
    let mut args: Vec<String> = std::env::args().collect();
    // RUSTC_WORKSPACE_WRAPPER: argv[1] is the real rustc path
    if args.len() > 1 {
        args.remove(1);
    }
    rustc_driver::run_compiler(&args, &mut Cb);
}
