#!/usr/bin/env python3
"""Generate /verif/MANIFEST.json from the table below + the rule modules present in rules/."""
import json
import os
import re

VERIF = os.path.dirname(os.path.dirname(os.path.abspath(__file__)))
props = [json.loads(l) for l in open(os.path.join(VERIF, "properties.jsonl"))]
have = sorted(f[:-3] for f in os.listdir(os.path.join(VERIF, "rules")) if re.match(r"^C\d+\.py$", f))

CIRCUIT_TB = "rustc type checking + MIR construction; vfdriver's MIR dump; plonky2 gadget semantics and FRI/Poseidon2 assumptions (DESIGN.md §4)"
E2_TB = "rustc type checking + MIR construction; vfdriver's MIR dump; semantics of std / anyhow / serde / rand / zeroize library calls as named (DESIGN.md §4)"

T = {
    "C01": ("term-graph provenance of every range_check in the fully expanded leaf constructor + interval arithmetic over extracted constants + unconditionality (control dependence)",
            "decides: the range/fee constraints exist, unconditionally, on the public-input wires, with constants that imply fee<=10000 and the integer inequality. Not decided: soundness of plonky2's range-check gadget.", CIRCUIT_TB),
    "C02": ("term patterns over the expanded leaf circuit: shared-wire connects, gated nullifier equation, ordered hash preimages; native/circuit preimage agreement",
            "decides: wiring + preimage order + gate provenance. Not decided: hash collision resistance.", CIRCUIT_TB),
    "C03": ("ordered-preimage rule, finite evaluation of the position select network over positions 0..3, three-way table agreement (circuit / native / Lean in thorough), depth/level gating terms",
            "decides: preimage orders, position table, per-level range checks, depth bound, gated root equalities. Not decided: gadget semantics.", CIRCUIT_TB),
    "C04": ("exact conjunction shape + provenance of the in-circuit dummy flag, free-witness inventory, exact inventory of flag-gated constraints",
            "decides: flag is a function of public inputs only, covers block hash and both outputs, gates exactly the four binding groups.", CIRCUIT_TB),
    "C05": ("public-input registration order along the expanded constructor vs. four index tables; guard-dominance (CMP/DOM) in the witness fillers and the verifier loader",
            "decides: layout agreement and rejection guards dominating the work. NOT decided: that proving succeeds and verifies (completeness), panic-freedom in general.", CIRCUIT_TB),
    "C06": ("ordered-append analysis of the registered output vector + term patterns of every appended item", "decides: the output vector is assembled from the specified terms in the specified order. Not decided: numeric evaluation.", CIRCUIT_TB),
    "C07": ("constraint-site inventory with classification by operand provenance; missing and unexpected sites reported", "decides: the wrapper's own constraint set is exactly the five classes with the right operands and per-slot coverage.", CIRCUIT_TB),
    "C08": ("term pattern of the grouping recurrence + interval bound; Lean type-check of the conservation theorem in thorough", "decides: grouping term shape + no-wrap bound. The identity itself is the repository's Lean theorem.", CIRCUIT_TB),
    "C09": ("gate-dominance walk over the term DAG (every per-slot child read is cut by that slot's dummy gate with the same index) + the term patterns of the sorting gadget the nullifier region comes out of", "decides: structural non-interference of dummy slots + nullifier region produced by the full sorting network (ingress, comparator, compare-and-swap, n rounds, egress). Not decided: permutation invariance as a semantic statement.", CIRCUIT_TB),
    "C10": ("free-witness inventory (wrappers, constructors, gadgets), term patterns pinning the unsafe booleans and hint decompositions, who-may-call rules", "decides: no free wire beyond declared inputs; decompositions canonical. plonky2's own gadgets trusted.", CIRCUIT_TB),
    "C11": ("who-may-call + provenance of the verifier key + pairing of virtual proofs with verify_proof + guard dominance in constructors", "decides: the child key is a constant of the constructor's parameter and every slot is verified. FRI soundness trusted.", CIRCUIT_TB),
    "C12": ("ordered-append analysis of the public-batch output vector, layout offsets evaluated for all M in 1..64", "decides: forwarding order, masking, offsets. Not decided: numeric evaluation.", CIRCUIT_TB),
    "C13": ("constraint-site inventory of the public-batch wrapper", "decides: exactly three metadata constraints per inner, nothing else.", CIRCUIT_TB),
    "C30": ("term patterns + update-order (dominance) of the less-than recurrence, width guards, dispatch and canonical 64-bit path", "decides: the gadget has the reference comparator's shape. NOT decided: functional equivalence for every width.", CIRCUIT_TB),
    "C31": ("term patterns of ingress/egress, single-flag compare-and-swap stores (permutation by construction), network bounds", "decides: structure of the sorting network. NOT decided: that the network sorts (classical).", CIRCUIT_TB),
    "C36": ("composition of the C08 and C12 obligations + re-export identity of layout constants + exhaustive evaluation of forwarded index ranges for n in 1..64", "decides the structural composition; adds no new clause.", CIRCUIT_TB),
}

checks = []
na = []
NA_REASONS = {}
try:
    NA_REASONS = json.load(open(os.path.join(VERIF, "tools", "na_reasons.json")))
except Exception:
    pass
EXTRA = {}
try:
    EXTRA = json.load(open(os.path.join(VERIF, "tools", "manifest_extra.json")))
except Exception:
    pass
for p in props:
    pid = p["id"]
    if pid in have and (pid in T or pid in EXTRA) and pid not in NA_REASONS:
        tech, note, tb = T.get(pid) or (EXTRA[pid]["technique"], EXTRA[pid]["note"], EXTRA[pid].get("tb", E2_TB))
        level = EXTRA.get(pid, {}).get("level", "other")
        checks.append({
            "property_id": pid,
            "quick_cmd": "./vf check %s quick" % pid,
            "thorough_cmd": "./vf check %s thorough" % pid,
            "evidence_file": "/verif/evidence/%s.json" % pid,
            "replay_cmd_template": "./vf explain {path}",
            "engine": "vf",
            "level_claimed": {"category": level,
                              "text": "Static analysis of the type-checked program (rustc MIR): " + tech + ". Holds for every input/witness because the analysed object is the code shape on all paths, not sampled executions. " + note,
                              "design_ref": "DESIGN.md §5 " + pid},
            "level_note": "trusted base: " + tb + ". A structural necessary condition of the behavioural property is decided; clauses listed as 'not decided' in DESIGN.md §6 are not.",
            "technique": "static analysis: " + tech[:140],
        })
    else:
        na.append({"property_id": pid, "reason": NA_REASONS.get(pid, "check not built yet (work in progress, see DESIGN.md §9)")})

m = {
    "version": 1,
    "setup_cmd": "./vf setup",
    "hooks": {"guard": "none — static analysis reads unmodified source; no hook or instrumentation exists in /repo",
              "enable": "n/a (checks run `cargo +nightly check` over /repo with RUSTC_WORKSPACE_WRAPPER=/verif/driver/target/debug/vfdriver; nothing in /repo is cfg-gated for them)",
              "baseline_off_cmd": "cd /repo && cargo test --workspace --no-fail-fast --offline",
              "source_commits": [], "add_only": True},
    "engines": [
        {"name": "vfdriver", "path": "driver/", "serves_properties": [c["property_id"] for c in checks], "kind_free_text": "rustc_private fact extractor (MIR bodies with resolved callees, item facts)"},
        {"name": "rules", "path": "rules/", "serves_properties": [c["property_id"] for c in checks], "kind_free_text": "python3 rule engine: CFG (dominators, control dependence), symbolic term graph over MIR, guard tables, per-property rule modules"},
    ],
    "checks": checks,
    "notes": "Technique family: static analysis only. Known findings: known_findings.json. Genuine defect D1 (C14) repaired in /repo commit e1db4d1 (fix:).",
    "not_applicable": na,
}
json.dump(m, open(os.path.join(VERIF, "MANIFEST.json"), "w"), indent=1)
print("checks:", len(checks), "not_applicable:", len(na))
