#!/usr/bin/env python3
"""dev helper: run rule modules on an existing facts dir without re-extracting: dev.py <factsdir> Cxx [Cyy...]"""
import sys, importlib, traceback
sys.path.insert(0,'/verif')
from rules import facts, engine
PR=facts.Program(sys.argv[1])
tier='quick'
for pid in sys.argv[2:]:
    m=importlib.import_module('rules.'+pid)
    ck=engine.Check(pid,tier,PR); ck.repo='/repo'
    try:
        m.run(ck)
    except Exception as ex:
        traceback.print_exc()
    n=0
    for o in ck.obligations:
        if not o['ok'] or '-v' in sys.argv[0:1]:
            pass
        print('OK  ' if o['ok'] else 'FAIL', o['rule'], o['key'], '|', o['what'][:170], '|', o['loc'])
        if not o['ok'] and o.get('detail'): print('      detail:', str(o['detail'])[:1200])
    print(pid, len(ck.obligations), 'obligations', len(ck.violations()), 'violations')
