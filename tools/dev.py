#!/usr/bin/env python3
"""dev helper: run rule modules on an existing facts dir without re-extracting: dev.py <factsdir> Cxx [Cyy...]
A rule that asks for another configuration (ck.extract("profile")) gets the facts cached beside the directory (<factsdir>.profile);
they are produced on first use — from /repo for .cache/dev, from a scratch copy with $DEVP_PATCH applied for a devpatch cache."""
import sys, os, shutil, importlib, importlib.machinery, importlib.util, traceback
sys.path.insert(0,'/verif')
from rules import facts, engine
D=sys.argv[1].rstrip('/')
PR=facts.Program(D)
tier='quick'


def _vf():
    loader = importlib.machinery.SourceFileLoader('vf_cli', '/verif/vf')
    spec = importlib.util.spec_from_loader('vf_cli', loader)
    vf = importlib.util.module_from_spec(spec)
    loader.exec_module(vf)
    return vf


_PROGS = {}


def extract(config):
    d = D + '.' + config
    if d in _PROGS:
        return _PROGS[d]
    if not os.path.isdir(d):
        vf = _vf()
        patch = os.environ.get('DEVP_PATCH')
        if patch:
            from rules import selftest
            scratch = selftest.make_scratch('/repo', 'devp')
            try:
                selftest.apply_patch(scratch, patch)
                f, run_id, secs = vf.extract(scratch, config)
                shutil.copytree(f, d)
            finally:
                shutil.rmtree(scratch, ignore_errors=True)
        else:
            f, run_id, secs = vf.extract('/repo', config)
            shutil.copytree(f, d)
    _PROGS[d] = facts.Program(d)
    return _PROGS[d]


def repo_view():
    """the tree the non-Rust inputs (the Lean package) are read from: /repo, or — for a devpatch cache whose patch touches formal/ —
    a copy of /repo/formal with that patch applied, kept beside the facts"""
    patch = os.environ.get('DEVP_PATCH')
    if not patch or 'formal/' not in open(patch).read():
        return '/repo'
    root = D + '.repo'
    if not os.path.isdir(root):
        import subprocess
        os.makedirs(root)
        shutil.copytree('/repo/formal', os.path.join(root, 'formal'), ignore=shutil.ignore_patterns('.lake'))
        subprocess.run(['git', 'init', '-q'], cwd=root)
        r = subprocess.run(['git', 'apply', '--include=formal/*', patch], cwd=root, stdout=subprocess.PIPE, stderr=subprocess.STDOUT, text=True)
        if r.returncode != 0:
            print('patch does not apply to formal/:', r.stdout[:300])
    return root


REPO = repo_view()
for pid in sys.argv[2:]:
    m=importlib.import_module('rules.'+pid)
    ck=engine.Check(pid,tier,PR); ck.repo=REPO
    ck.extract = extract
    try:
        m.run(ck)
    except Exception as ex:
        traceback.print_exc()
    n=0
    for o in ck.obligations:
        print('OK  ' if o['ok'] else 'FAIL', o['rule'], o['key'], '|', o['what'][:170], '|', o['loc'])
        if not o['ok'] and o.get('detail'): print('      detail:', str(o['detail'])[:1200])
    print(pid, len(ck.obligations), 'obligations', len(ck.violations()), 'violations')
