import sys, importlib
sys.path.insert(0,'/verif')
from rules import facts, engine
PR=facts.Program('/verif/.cache/dev')
ck=engine.Check('CXX','quick',PR)
ck.repo='/repo'
m=importlib.import_module('rules.'+sys.argv[1])
fn=getattr(m, sys.argv[2] if len(sys.argv)>2 and not sys.argv[2].startswith("-") else "analyse"); r=fn(ck)
ob=r[0] if isinstance(r,tuple) else r
for props,ok,rule,key,what,loc,detail in ob.items:
    if ok and '-q' in sys.argv: continue
    print('OK  ' if ok else 'FAIL', ','.join(sorted(props)), rule, key, '|', what[:120], '|', loc)
    if not ok: print('     ', str(detail)[:1800])
print(len(ob.items),'obligations', sum(1 for i in ob.items if not i[1]),'failing')
