import sys
sys.path.insert(0,'/verif')
from rules import facts, engine, gadgets_rules
PR=facts.Program('/verif/.cache/dev')
ck=engine.Check('C10','quick',PR)
ob=gadgets_rules.analyse(ck)
for props,ok,rule,key,what,loc,detail in ob.items:
    print('OK  ' if ok else 'FAIL', ','.join(sorted(props)), rule, key, '|', what[:110], '|', loc)
    if not ok: print('     ', str(detail)[:1800])
