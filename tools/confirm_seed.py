#!/usr/bin/env python3
"""Confirm a sub-agent's seeded change in its scratch worktree and store it under /verif/seeded/<id>/.

  confirm_seed.py <tag> [--keep-worktree]

Checks (all in /tmp/seed/<tag>, never in /repo):
  1. the demonstration FAILS with the change applied,
  2. the demonstration PASSES with the change reverted (git apply -R),
  3. with the change re-applied, the stable baseline tests of every touched crate still pass
     (tests listed as always_fail / flaky in /root/.vp/BASELINE.json are skipped),
then copies patch.diff, the demonstration and meta.json (+ what was run) to /verif/seeded/<tag>/ and removes the worktree.
"""
import json
import os
import re
import shutil
import subprocess
import sys
import time

tag = sys.argv[1]
keep = "--keep-worktree" in sys.argv
W = "/tmp/seed/" + tag
OUT = os.path.join(W, "out")
meta = json.load(open(os.path.join(OUT, "meta.json")))
pid = meta["property"]
env = dict(os.environ, CARGO_TARGET_DIR=os.path.join(W, "target"), CARGO_NET_OFFLINE="true")
log = []

CRATE_OF = [("wormhole/aggregator/", "qp-wormhole-aggregator"), ("wormhole/circuit-builder/", "qp-wormhole-circuit-builder"),
            ("wormhole/circuit/", "qp-wormhole-circuit"), ("wormhole/inputs/", "qp-wormhole-inputs"), ("wormhole/prover/", "qp-wormhole-prover"),
            ("wormhole/verifier/", "qp-wormhole-verifier"), ("wormhole/memprof/", "wormhole-memprof"), ("common/", "qp-zk-circuits-common"),
            ("wormhole/tests/test-helpers/", "test-helpers"), ("wormhole/tests/", "tests")]


def sh(cmd, timeout=3600):
    t0 = time.time()
    r = subprocess.run(cmd, shell=True, cwd=W, env=env, stdout=subprocess.PIPE, stderr=subprocess.STDOUT, text=True, timeout=timeout)
    tail = "\n".join(r.stdout.strip().splitlines()[-12:])
    log.append({"cmd": cmd, "exit": r.returncode, "secs": round(time.time() - t0, 1), "tail": tail})
    print("$ %s -> exit %d (%.0fs)\n%s\n" % (cmd, r.returncode, time.time() - t0, tail), flush=True)
    return r.returncode, r.stdout


demo = meta["demo_cmd"]
demo = re.sub(r"^cd \S+ && ", "", demo)
demo = re.sub(r"\b(CARGO_TARGET_DIR|CARGO_NET_OFFLINE)=\S+ ", "", demo)
demo = demo.replace("-j 4", "-j 8")
demo = re.sub(r"\s{2,}\(.*\)\s*$", "", demo)   # a trailing parenthesised remark is not part of the command

# the change must currently be applied
rc, _ = sh("git apply --check -R out/patch.diff")
if rc != 0:
    rc2, _ = sh("git apply out/patch.diff")
    if rc2 != 0:
        sys.exit("cannot get the change applied")
rc_with, out_with = sh(demo)
sh("git apply -R out/patch.diff")
rc_without, out_without = sh(demo)
sh("git apply out/patch.diff")
ok_demo = rc_with != 0 and rc_without == 0 and ("panicked" in out_with or "FAILED" in out_with or "assert" in out_with.lower()) and "error[E" not in out_with

# existing tests of the touched crates
base = json.load(open("/root/.vp/BASELINE.json"))
bad = base["always_fail"] + base["flaky"]
files = subprocess.run("git apply --numstat out/patch.diff", shell=True, cwd=W, stdout=subprocess.PIPE, text=True).stdout.split("\n")
files = [l.split("\t")[-1] for l in files if l.strip()]
crates = []
for f in files:
    for pre, c in CRATE_OF:
        if f.startswith(pre):
            if c not in crates:
                crates.append(c)
            break
tests_ok = True
for c in crates:
    key = c + "::"
    skips = []
    for t in bad:
        if t.startswith(key):
            name = t[len(key):]
            name = re.sub(r"^bin/[^:]+::", "", name)
            skips.append("--skip " + name)
    if c == "tests":
        continue
    rc, out = sh("cargo test --offline -j 8 -p %s --lib --bins -- %s" % (c, " ".join(skips)), timeout=5400)
    m = re.findall(r"test result: (\w+)\. (\d+) passed; (\d+) failed", out)
    tests_ok = tests_ok and rc == 0 and all(x[0] == "ok" for x in m)

verdict = ok_demo and tests_ok
print("CONFIRM %s: demo_with=%d demo_without=%d tests_ok=%s => %s" % (tag, rc_with, rc_without, tests_ok, "KEEP" if verdict else "REJECT"))
dst = "/verif/seeded/" + tag
if verdict:
    os.makedirs(dst, exist_ok=True)
    shutil.copy(os.path.join(OUT, "patch.diff"), dst)
    for f in os.listdir(OUT):
        if f.endswith(".rs") or f in ("demo.diff", "RUN.md"):
            shutil.copy(os.path.join(OUT, f), dst)
    meta["confirmed_by_me"] = {"demo_exit_with_change": rc_with, "demo_exit_without_change": rc_without,
                               "stable_tests_of_touched_crates_pass": tests_ok, "crates": crates, "ran": log}
    meta["what_it_needs_to_manifest"] = meta.get("needs_to_manifest")
    json.dump(meta, open(os.path.join(dst, "meta.json"), "w"), indent=1)
if not keep and verdict:   # a rejected change stays in place for inspection (its deliverables live only in the worktree)
    subprocess.run(["git", "-C", "/repo", "worktree", "remove", "--force", W])
    shutil.rmtree(W, ignore_errors=True)
sys.exit(0 if verdict else 1)
