#!/usr/bin/env python3
"""dev helper: mutcheck.py [--neutral] Cxx... — run the property's mutants (and seeded changes) through the rule module using cached facts
(.cache/devp); prints caught/MISSED per patch.  With --neutral: every neutral patch against the listed checks (must be silent)."""
import sys, os, glob, subprocess, json, re
args = sys.argv[1:]
neutral = '--neutral' in args
pids = [a for a in args if re.match(r'^C\d+$', a)]
def run(patch, pids):
    r = subprocess.run([sys.executable, '/verif/tools/devpatch.py', patch] + pids, stdout=subprocess.PIPE, stderr=subprocess.STDOUT, text=True)
    res = {}
    for m in re.finditer(r'^(C\d+) (\d+) obligations (\d+) violations', r.stdout, re.M):
        res[m.group(1)] = int(m.group(3))
    fails = re.findall(r'^FAIL (\S+) (\S+)', r.stdout, re.M)
    tb = 'Traceback' in r.stdout
    return res, fails, tb, r.stdout
if neutral:
    for p in sorted(glob.glob('/verif/mutants/neutral/*.patch')):
        res, fails, tb, out = run(p, pids)
        bad = {k: v for k, v in res.items() if v}
        print('%-40s %s' % (os.path.basename(p), 'silent' if not bad and not tb and res else 'FALSE ALARM %s %s' % (bad, ['%s/%s' % f for f in fails][:6])), flush=True)
    sys.exit(0)
for pid in pids:
    ps = sorted(glob.glob('/verif/mutants/%s/*.patch' % pid))
    for d in sorted(glob.glob('/verif/seeded/*')):
        try:
            if json.load(open(d + '/meta.json'))['property'] == pid:
                ps.append(d + '/patch.diff')
        except Exception:
            pass
    for p in ps:
        res, fails, tb, out = run(p, [pid])
        n = res.get(pid)
        print('%-4s %-60s %s' % (pid, p.replace('/verif/', ''), ('caught ' + ' '.join('%s/%s' % f for f in fails)[:200]) if n else ('MISSED' if n == 0 else 'ERROR ' + out[-300:])), flush=True)
