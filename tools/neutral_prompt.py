#!/usr/bin/env python3
"""Print the sub-agent prompt for behaviour-PRESERVING refactors of the code behind a group of properties (false-alarm probes)."""
import json, sys
tag = sys.argv[1]
pids = sys.argv[2:]
props = [json.loads(l) for l in open('/verif/properties.jsonl')]
props = [p for p in props if p['id'] in pids]
wt = f"/tmp/seed/{tag}"
txt = "\n\n".join(f"PROPERTY {p['id']}: {p['title']}\nStatement: {p['statement']}\nFiles: {', '.join(p['anchors']['files'])}\nMechanisms: {json.dumps(p['anchors']['mechanism'])}" for p in props)
print(f"""You are a careful Rust engineer helping a verification study measure FALSE ALARMS of property checkers.

Repository: Quantus-Network/qp-zk-circuits (Plonky2 zero-knowledge circuits for Quantus Wormhole: leaf spend proofs with 4-ary Poseidon Merkle verification, private and public recursive batch aggregation, a proof pool). The pinned tree is the git repo at /repo. DO NOT modify /repo and do not read or use anything under /verif.

Set up your own scratch worktree and work only there:
  git -C /repo worktree add --detach {wt} HEAD
  export CARGO_TARGET_DIR={wt}/target CARGO_NET_OFFLINE=true     (always pass --offline to cargo; there is no network)
The machine is shared: build with `-j 4` and prefer `-p <crate>` over the whole workspace.

These semantic properties hold on the pinned tree:

{txt}

TASK: produce SIX separate, mutually independent patches, each a realistic BEHAVIOUR-PRESERVING change of the non-test source code these properties are anchored in (the functions named under Files/Mechanisms) — the kind of refactor, clean-up or harmless hardening a maintainer would merge — such that EVERY property above still holds after each patch, for exactly the same reasons. Each patch is made against the pinned tree alone (not stacked).
Make the six patches differ in style, and make them touch the code the mechanisms live in (not just comments or whitespace). Examples of styles (use each at most once, invent others that fit this code):
 - rename locals / parameters / a private helper; reorder statements that are independent of each other;
 - extract part of a function into a new private helper (or inline an existing private helper into its only caller);
 - rewrite a loop form (`for i in 0..n` <-> iterator chain / `enumerate` / `zip`), or a `match` <-> `if let` / `let else`, or `ensure!(c, ..)` <-> `if !c {{ bail!(..) }}`, or early-return <-> nested if;
 - replace a builder call by an exactly equivalent one (e.g. `connect(x, zero)` <-> `assert_zero(x)`, `not(b)` <-> `sub(one, b.target)` wrapped appropriately, `mul_sub`/`mul_add` fusions, `and`/`mul` on booleans only where provably identical), or reorder operands of a commutative operation;
 - introduce a named local / constant for a repeated expression, or replace a local copy of a constant by the shared constant (same value);
 - change the wording of an error message, add a field to an error's context, or convert between `anyhow!`/`bail!` forms (same condition, same control flow);
 - move a private function to a sibling module in the same crate with `pub(crate)`/`pub(super)` visibility no wider than needed;
 - add an unrelated new helper or an extra `debug_assert!`.
Do NOT: change which inputs are accepted/rejected, change public input layouts, add or remove circuit constraints (a constraint may be re-expressed only if it is logically identical over the field), widen visibility of anything security-relevant, touch tests, or change behaviour in any observable way other than error text.
Each patch must compile (`cargo build --offline -j 4 -p <touched crates>` and `cargo test --offline --no-run` for them) and the existing tests of the touched crates must still pass (/root/.vp/BASELINE.json lists "stable_pass" tests; ignore "always_fail"/"flaky"; the `tests` integration crate is slow — run only relevant filters there). Use `git stash`/`git checkout -- .` between patches.

DELIVERABLES — write to {wt}/out/ :
 - neutral-1.diff … neutral-6.diff : `git diff` of each change, applicable alone with `git apply` at the repository root of the pinned tree;
 - meta.json : a list of six objects {{"file": "neutral-k.diff", "style": "...", "touches": ["path::function", ...], "why_properties_still_hold": "...", "tests_run": ["cmd -> N passed"]}}.
Restore the worktree to the pinned state when done (leave only out/). Reply with a short summary of the six patches.""")
