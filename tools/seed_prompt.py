#!/usr/bin/env python3
"""Print the sub-agent prompt for a seeded change against one property (only the property text is given)."""
import json, sys
pid = sys.argv[1]
tag = sys.argv[2] if len(sys.argv) > 2 else pid
avoid = sys.argv[3] if len(sys.argv) > 3 else ""   # a short description of an earlier seeded change, so that a second one differs
for l in open('/verif/properties.jsonl'):
    p = json.loads(l)
    if p['id'] == pid:
        break
else:
    sys.exit('no such property')
wt = f"/tmp/seed/{tag}"
print(f"""You are a careful Rust engineer acting as a fault injector for a verification study.

Repository: Quantus-Network/qp-zk-circuits (Plonky2 zero-knowledge circuits for Quantus Wormhole: leaf spend proofs with 4-ary Poseidon Merkle verification, private and public recursive batch aggregation, a proof pool). The pinned tree is the git repo at /repo. DO NOT modify /repo and do not read or use anything under /verif.

Set up your own scratch worktree and work only there:
  git -C /repo worktree add --detach {wt} HEAD
  export CARGO_TARGET_DIR={wt}/target CARGO_NET_OFFLINE=true     (always pass --offline to cargo; there is no network)
The machine is shared: build with `-j 4` and prefer `-p <crate>` over the whole workspace.

PROPERTY (id {p['id']}): {p['title']}
Statement: {p['statement']}
Quantifier: {p['quantifier']['text']}
Why the existing tests cannot settle it: {p['why_tests_cant']}
Files the property is anchored in: {', '.join(p['anchors']['files'])}
Mechanisms meant to make it hold: {json.dumps(p['anchors']['mechanism'])}

TASK: produce ONE realistic change to the repository's non-test source code that BREAKS this property while the code still compiles and the existing test-suite still passes, plus a demonstration (a new test or small program, kept separate from the change) that FAILS with your change and PASSES without it.
Requirements for the change:
 - It must look like something a developer could plausibly commit (a refactor gone wrong, an "optimisation", a dropped/reordered/weakened check, a changed constant, a wrong operand, two cooperating edits that each look fine alone). No comments announcing the bug. Keep it small (typically 1-30 changed lines). Do not edit, delete or ignore existing tests.
 - It must need something specific to manifest: an adversarial / unusual input or witness, a particular multi-step sequence of operations, a fault or crash at a particular point, a particular configuration, or two cooperating sites — NOT something ordinary use or the existing tests expose at once.
 - It must still compile (`cargo build --offline` for the affected crates, including `cargo test --no-run`) and the existing tests of every crate you touched (and of crates that depend on the touched code, where feasible) must still pass. The file /root/.vp/BASELINE.json lists under "stable_pass" the tests that pass on the unmodified tree and under "always_fail"/"flaky" tests that already fail/flake in this sandbox (ignore those). Run the relevant stable tests (e.g. `cargo test --offline -p <crate> -- <filter>`; the `tests` integration crate is slow — run only relevant filters there) and record exactly what you ran.
{("An earlier study round already used this change, so produce a DIFFERENT one (another site, another mechanism of the property, another kind of mistake): " + avoid) if avoid else ""}
Requirements for the demonstration:
 - A self-contained Rust test (preferably a new file under an existing crate's tests/ directory or a new #[test] in a new module file) or small program, with the exact command to run it. It must fail (assertion failure, not a compile error) on the changed tree and pass on the unchanged tree. Verify both directions yourself (use `git stash`/`git apply -R` on the source change inside your worktree).
 - For circuit-soundness properties the demonstration is typically: construct an adversarial witness/statement that violates the property, and show the (changed) circuit proves and verifies it, while the unchanged circuit refuses (proving fails / returns Err / panics inside prove — catch it with catch_unwind if needed).

DELIVERABLES — write them to {wt}/out/ :
 - patch.diff : `git diff` of the source change ONLY (no demonstration files), applicable with `git apply` at the repository root.
 - the demonstration file(s) plus demo.diff (a git diff adding only the demonstration), and RUN.md with the exact commands for: building, the existing tests you ran (with their pass counts), and running the demonstration with / without the change, including the observed outputs.
 - meta.json : {{"property": "{p['id']}", "summary": "...what the change does...", "files_changed": [...], "needs_to_manifest": "...what specific input/sequence/fault is needed...", "why_existing_tests_pass": "...", "demo_cmd": "...", "demo_result_with_change": "...", "demo_result_without_change": "...", "existing_tests_run": ["cmd ... -> N passed"]}}
Leave the worktree in place with the change applied (I will collect and remove it). When done, reply with a short summary: what you changed (file/function), what is needed to manifest it, and the commands you verified. If after honest effort you cannot find a change that passes the existing tests, say so and explain what you tried.""")
