#!/usr/bin/env python3
"""Regenerate rules/anchors.json from facts directories of the UNCHANGED tree — one per analysed configuration (default and
profile): the private functions that rule modules name (their anchors) with their signatures, every production function path known
in ANY configuration, and parameter names.  Used by facts.Program to recognise a renamed / moved private anchor by its role
(crate, non-pub, same signature, not a previously known path).

  python3 tools/mkanchors.py <default facts dir> <profile facts dir>      (./vf extract ; ./vf extract profile)"""
import sys, re, glob, json
sys.path.insert(0, '/verif')
from rules import facts
dirs = sys.argv[1:] or ['/verif/.cache/dev']
ids = set()
for m in glob.glob('/verif/rules/*.py'):
    ids |= set(re.findall(r"[A-Za-z_][A-Za-z0-9_]*", open(m).read()))
anchors, known, params = {}, set(), {}
for d in dirs:
    PR = facts.Program(d, resolve_renames=False)
    for f in PR.fns.values():
        if f['crate'] not in facts.PRODUCTION_CRATES:
            continue
        known.add(f['path'])
        name = f['path'].rsplit('::', 1)[-1]
        if f['vis'] != 'pub' and name in ids and len(name) > 6:
            anchors.setdefault(f['path'], {"path": f['path'], "crate": f['crate'], "name": name, "inputs": f['inputs'], "output": f['output'], "configs": []})["configs"].append(d.rsplit('-', 1)[-1])
    # parameter names of every production function (rules that say `config.num_wires` or `inputs.proofs` mean "that parameter", not its name)
    for b in PR.bodies.values():
        if b.crate in facts.PRODUCTION_CRATES and b.kind != "Closure" and b.argc:
            names = [b.local_name(i) for i in range(1, b.argc + 1)]
            if all(names):
                params.setdefault(b.path, names)
# field names of every production struct (non-pub fields may be renamed freely: a rename is recognised when the struct keeps its path,
# its field count and every field's type in order)
adts = {}
for d in dirs:
    PR = facts.Program(d, resolve_renames=False)
    for pth, a in PR.adts.items():
        if a["crate"] in facts.PRODUCTION_CRATES and a.get("kind") == "Struct" and len(a["variants"]) == 1:
            adts.setdefault(pth, [[f["n"], f["ty"], f.get("vis")] for f in a["variants"][0]["fields"]])
for a in anchors.values():
    # an anchor that exists in only some configurations (cfg-gated) is not "missing" in the others: rename resolution is applied
    # only to anchors present in every configuration
    a["everywhere"] = len(a.pop("configs")) == len(dirs)
json.dump({"anchors": sorted(anchors.values(), key=lambda a: a['path']), "known_paths": sorted(known), "params": params, "adts": adts}, open('/verif/rules/anchors.json', 'w'), indent=1)
print(len(anchors), 'anchors (%d in every configuration),' % sum(1 for a in anchors.values() if a["everywhere"]), len(known), 'known paths,', len(params), 'parameter lists')
