#!/usr/bin/env python3
"""Regenerate rules/anchors.json from a facts directory of the UNCHANGED tree (default .cache/dev): the private functions that rule
modules name (their anchors) with their signatures, and every production function path known at that time. Used by
facts.Program to recognise a renamed / moved private anchor by its role (crate, non-pub, same signature, not a previously known path)."""
import sys, re, glob, json
sys.path.insert(0, '/verif')
from rules import facts
PR = facts.Program(sys.argv[1] if len(sys.argv) > 1 else '/verif/.cache/dev', resolve_renames=False)
ids = set()
for m in glob.glob('/verif/rules/*.py'):
    ids |= set(re.findall(r"[A-Za-z_][A-Za-z0-9_]*", open(m).read()))
anchors, known = [], []
for f in PR.fns.values():
    if f['crate'] not in facts.PRODUCTION_CRATES:
        continue
    known.append(f['path'])
    name = f['path'].rsplit('::', 1)[-1]
    if f['vis'] != 'pub' and name in ids and len(name) > 6:
        anchors.append({"path": f['path'], "crate": f['crate'], "name": name, "inputs": f['inputs'], "output": f['output']})
# parameter names of every production function (rules that say `config.num_wires` or `inputs.proofs` mean "that parameter", not its name)
params = {}
for b in PR.bodies.values():
    if b.crate in facts.PRODUCTION_CRATES and b.kind != "Closure" and b.argc:
        names = [b.local_name(i) for i in range(1, b.argc + 1)]
        if all(names):
            params.setdefault(b.path, names)
json.dump({"anchors": sorted(anchors, key=lambda a: a['path']), "known_paths": sorted(set(known)), "params": params}, open('/verif/rules/anchors.json', 'w'), indent=1)
print(len(anchors), 'anchors,', len(known), 'known paths,', len(params), 'parameter lists')
