#!/usr/bin/env python3
"""dev helper: devpatch.py <patch> Cxx... — apply a patch to a scratch copy of /repo once, cache its facts under .cache/devp/<name>, run rule modules on them.
   devpatch.py --refresh <patch> ... re-extracts."""
import sys, os, shutil, subprocess, importlib.machinery, importlib.util, hashlib
sys.path.insert(0, '/verif')
args = sys.argv[1:]
refresh = '--refresh' in args
args = [a for a in args if a != '--refresh']
patch, pids = args[0], args[1:]
name = os.path.basename(os.path.dirname(os.path.abspath(patch))) + '_' + os.path.basename(patch).replace('.', '_') + '_' + hashlib.md5(open(patch, 'rb').read()).hexdigest()[:6]
dst = '/verif/.cache/devp/' + name
if refresh and os.path.isdir(dst):
    shutil.rmtree(dst)
if not os.path.isdir(dst):
    loader = importlib.machinery.SourceFileLoader('vf_cli', '/verif/vf')
    spec = importlib.util.spec_from_loader('vf_cli', loader)
    vf = importlib.util.module_from_spec(spec)
    loader.exec_module(vf)
    from rules import selftest
    scratch = selftest.make_scratch('/repo', 'devp')
    try:
        selftest.apply_patch(scratch, patch)
        facts, run_id, secs = vf.extract(scratch, 'default')
        os.makedirs(os.path.dirname(dst), exist_ok=True)
        shutil.copytree(facts, dst)
        print('extracted in %.0fs -> %s' % (secs, dst))
    finally:
        shutil.rmtree(scratch, ignore_errors=True)
os.environ['DEVP_PATCH'] = os.path.abspath(patch)
os.execv(sys.executable, [sys.executable, '/verif/tools/dev.py', dst] + pids)
