import sys
sys.path.insert(0,'/verif')
from rules import facts, engine, pb
PR=facts.Program('/verif/.cache/dev')
ck=engine.Check('C06','quick',PR)
ob,v=pb.analyse(ck)
for props,ok,rule,key,what,loc,detail in ob.items:
    print('OK  ' if ok else 'FAIL', ','.join(sorted(props)), rule, key, '|', what[:150], '|', loc)
    if not ok: print('     ', str(detail)[:1500])
