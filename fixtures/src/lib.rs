//! Positive examples for the "expected zero" who-may-call rules: every pattern that must match nothing in /repo
//! must match its example here on every thorough run (vacuity guard). Never linked into anything.
use plonky2::field::goldilocks_field::GoldilocksField as F;
use plonky2::iop::target::{BoolTarget, Target};
use plonky2::plonk::circuit_builder::CircuitBuilder;
use plonky2::plonk::circuit_data::{CircuitData, ProverCircuitData};
use plonky2::plonk::config::PoseidonGoldilocksConfig as C;
use plonky2::util::serialization::{DefaultGateSerializer, DefaultGeneratorSerializer};

const D: usize = 2;

pub fn virtual_verifier_key(b: &mut CircuitBuilder<F, D>) {
    let _ = b.add_virtual_verifier_data(4);
}

pub fn unsafe_bool(t: Target) -> BoolTarget {
    BoolTarget::new_unsafe(t)
}

pub fn uncapped_read(p: &std::path::Path) -> Vec<u8> {
    std::fs::read(p).unwrap_or_default()
}

pub fn prover_artifact(bytes: &[u8]) -> bool {
    let gs = DefaultGateSerializer;
    let ws = DefaultGeneratorSerializer::<C, D>::default();
    ProverCircuitData::<F, C, D>::from_bytes(bytes, &gs, &ws).is_ok()
}

pub fn full_circuit_artifact(bytes: &[u8]) -> bool {
    let gs = DefaultGateSerializer;
    let ws = DefaultGeneratorSerializer::<C, D>::default();
    CircuitData::<F, C, D>::from_bytes(bytes, &gs, &ws).is_ok()
}

pub fn hint_target(b: &mut CircuitBuilder<F, D>) -> Target {
    b.add_virtual_target()
}

pub fn conditional_constraint(b: &mut CircuitBuilder<F, D>, x: Target, n: usize) {
    if n > 1 {
        b.range_check(x, 32);
    }
}
